"""C12 -- peer input never escapes as an internal error; tolerable frames are tolerated.

Implementation side: a real grpclib client (ClientEnd) or server (ServerEnd) protocol with a finished
call F, a call V in flight and a concurrent well-behaved call K on the same connection; a script
interleaves the pieces of the normal exchange (sent by a real h2 peer) with INJECTED frames of every
type / flag byte / stream id and raw bytes, re-cut at arbitrary points, with the event loop running
or not in between.  Every H2Protocol.data_received call is observed: exception out of it, what h2
made of the bytes (events / ProtocolError, by wrapping receive_data on the instance), the state of
EventsProcessor / Handler / every registered Stream before and after.

Model side (the tie): each observed data_received call becomes one line for build/model_C12
(pre-state, h2's verdict) and the model's post-state, returned credit and exception are compared
with the real ones; the invariants under which the totality theorems are proved are evaluated on
every real pre-state; event_wf (the only hypothesis of the totality theorems) and the freshness of
request stream ids (the domain on which the model keys handler tasks by stream id) are checked on
every event trace.

Direct oracle: the property statement itself (see oracle()), independent of the model; for the
tolerance part also in AGGREGATE (oracle_agg): after a long run of tolerable traffic at the minimum
flow-control windows no stream is registered that no live call owns, every flow-controlled byte h2
handed to grpclib has been credited back, the well-behaved peer never ran out of credit, and a call
with a payload larger than any window still completes.

What is below the h2-event boundary ("whatever bytes") is covered fuzz-style only and labelled so."""
import asyncio
import logging
import struct

import h2
import h2.events
from h2.exceptions import ProtocolError as H2ProtocolError
from h2.settings import SettingCodes
from hpack import Encoder, NeverIndexedHeaderTuple

from harness import vloop, wire
from harness import peer as P
from harness.core import Result
from harness.svc import Service, exc_name

PROPERTY = 'C12'
THEOREM_FILES = ['Props/C12.v']
ALLOWED_AXIOMS = []
LABEL = ('partial: theorems (totality, tolerance, orderly shutdown) hold from the h2-event boundary up, '
         'for the dispatch table regenerated from the source; bytes -> events is hyper-h2 (modelled, '
         'not verified) and is covered by fuzz-style correspondence only')
TRUSTED = ['modelled, not verified: hyper-h2 4.3.0 / hyperframe / hpack turn bytes into events or raise '
           'ProtocolError; h2 emits one RequestReceived per stream id (domain on which keying handler '
           'tasks by stream id is exact) and non-negative lengths (checked on every observed event trace)',
           'hand transcription of the 13 process_* methods, EventsProcessor.close/process, '
           'Connection.close/ack, client and server Handler.accept/cancel/close into Model/Dispatch.v '
           '(tied by the per-call state correspondence)',
           'handler tasks are keyed by stream id in the model (exact while request stream ids are not reused)',
           'h2 state read by Stream.closable while a batch is processed: connection CLOSED iff a '
           'ConnectionTerminated comes later in the same batch, stream closed iff a StreamReset for it does '
           '(tied by comparing the h2.reset_stream calls of every batch with the model)']
ASSUMPTIONS = ['the transport delivers no data after transport.close() (asyncio selector and SSL '
               'transports); if it did, H2Protocol.data_received would raise AttributeError from the '
               'h2 connection whose _frame_dispatch_table Connection.close() deleted (measured, see '
               'distribution key probe:post_close_delivery)',
               'Connection.close() reached only through EventsProcessor.close(); the keepalive timer '
               'calling Connection.close() directly (processor still live, transport gone) is not modelled',
               'h2 4.3.0 event classes are pinned; the driver fails closed on any other class']

# kind index <-> h2.events class (the Coq inductive `event` has one constructor per entry, in this order;
# index 17 = any other class)
H2_CLASSES = ['RequestReceived', 'ResponseReceived', 'TrailersReceived', 'InformationalResponseReceived',
              'DataReceived', 'WindowUpdated', 'StreamEnded', 'StreamReset', 'RemoteSettingsChanged',
              'SettingsAcknowledged', 'PingReceived', 'PingAckReceived', 'PriorityUpdated',
              'PushedStreamReceived', 'ConnectionTerminated', 'AlternativeServiceAvailable',
              'UnknownFrameReceived']
H2_PRIVATE = ['_HeadersSent', '_PushedRequestSent', '_RequestSent', '_ResponseSent', '_TrailersSent']
KIND = {n: i for i, n in enumerate(H2_CLASSES)}
TOLERATED_CLASSES = {'UnknownFrameReceived', 'AlternativeServiceAvailable', 'PriorityUpdated',
                     'PingReceived', 'InformationalResponseReceived', 'PushedStreamReceived',
                     'SettingsAcknowledged'}


def check_pinned():
    """fail closed if h2.events is not the module the Coq inductive was written for"""
    import inspect
    found = sorted(n for n, c in vars(h2.events).items()
                   if inspect.isclass(c) and issubclass(c, h2.events.Event))
    want = sorted(H2_CLASSES + H2_PRIVATE + ['Event'])
    if found != want:
        raise RuntimeError('h2.events classes changed: %r (model pinned to %r)' % (
            sorted(set(found) ^ set(want)), h2.__version__))


# ---------------------------------------------------------------------------------------------------
# stateless frame builders (HPACK: never-indexed literals only, so a block does not depend on or
# change the dynamic table and can be stored as bytes in a replay file)

def hpack_block(headers):
    return Encoder().encode([NeverIndexedHeaderTuple(k, v) for k, v in headers], huffman=False)


def headers_frame(sid, headers, end_stream=False, end_headers=True, pad=None, prio=None, block=None,
                  extra_flags=0):
    body = hpack_block(headers) if block is None else block
    flags = extra_flags | (0x1 if end_stream else 0) | (0x4 if end_headers else 0)
    pre = b''
    if prio is not None:
        dep, excl, weight = prio
        flags |= 0x20
        pre = struct.pack('>IB', (dep & 0x7fffffff) | (0x80000000 if excl else 0), weight & 0xff)
    payload = pre + body
    if pad is not None:
        flags |= 0x8
        payload = bytes([pad]) + payload + b'\0' * pad
    return P.frame_bytes(0x1, flags, sid, payload)


def rand_bytes(rng, n):
    return bytes(rng.randint(0, 255) for _ in range(n))


def opaque8(rng):
    """PING payloads are opaque: any 8 bytes"""
    return rng.choice([rand_bytes(rng, 8), b'\xff\xfe\x00\x80\xc3\x28\xa0\xa1', b'\0' * 8, b'\xff' * 8,
                       'caf\u00e9 \u2192'.encode()[:8].ljust(8, b'\x80')])


def any_error_code(rng):
    """any 32-bit error code: the 14 defined ones and unknown ones"""
    return rng.choice([rng.randint(0, 13), rng.randint(0, 13), 14, 0xff, 0xdead, 0x7fffffff, 0x80000000,
                       0xffffffff, rng.randint(14, 0xffffffff)])


DEBUG_DATA = [b'', b'', b'bye', b'too_many_pings', 'sch\u00f6n \u2192 \U0001f600'.encode(), b'\xff\xfe\x00\x80binary',
              b'\x80', b'\xc3\x28', b'\xed\xa0\x80', b'\x00' * 5, bytes(range(256))]


def gen_goaway(rng, end):
    """the GOAWAY class: error code x last_stream_id x opaque debug data (RFC 7540 6.8: 'opaque data')"""
    ids = IDS[end]
    last = rng.choice([0, ids['K'], ids['V'] - 2, ids['V'], 0x7fffffff, ids['new_peer']])
    code = any_error_code(rng)
    dbg = rng.choice(DEBUG_DATA + [rand_bytes(rng, rng.choice([1, 7, 40]))])
    one = P.frame_bytes(0x7, rng.choice([0, 0, 0xff]), 0, struct.pack('>II', last, code) + dbg)
    return fr(one * rng.choice([1, 1, 1, 2]), False,
              'GOAWAY last=%d code=%#x debug=%s' % (last, code, dbg[:12].hex() or '-'))


def gen_field_values(rng, end, phase):
    """well-formed RST_STREAM / PING / SETTINGS / WINDOW_UPDATE / GOAWAY frames with arbitrary LEGAL field
    values (what they do to V or to the connection is legitimate: not labelled tolerable)"""
    ids = IDS[end]
    V = ids['V']
    k = rng.choice(['goaway', 'goaway', 'goaway', 'rst', 'rst', 'ping', 'settings', 'wu'])
    if k == 'goaway':
        return gen_goaway(rng, end)
    if k == 'rst':
        sid = rng.choice([V, V, ids['F']])
        code = any_error_code(rng)
        return fr(P.frame_bytes(0x3, rng.choice([0, 0xff]), sid, struct.pack('>I', code)), False,
                  'RST_STREAM sid %d code %#x' % (sid, code))
    if k == 'ping':
        return fr(P.frame_bytes(0x6, rng.choice([0, 1]), 0, opaque8(rng)) * rng.choice([1, 3]), False,
                  'PING with opaque bytes')
    if k == 'settings':
        pairs = [(rng.choice([0x7, 0x10, 0x99, 0xfffe, 0xffff]),
                  rng.choice([0, 1, 0x7fffffff, 0xffffffff, rng.randint(0, 0xffffffff)]))
                 for _ in range(rng.randint(1, 4))]
        # plus legal values of known ids that do not stall anybody
        pairs += rng.choice([[], [(0x6, rng.choice([0, 1, 0xffffffff]))], [(0x3, rng.choice([100, 0xffffffff]))],
                             [(0x5, rng.choice([16384, 0xffffff]))]])
        return fr(P.frame_bytes(0x4, 0, 0, b''.join(struct.pack('>HI', a, b) for a, b in pairs)), False,
                  'SETTINGS with arbitrary legal values %r' % (pairs,), glob=True)
    sid = rng.choice([0, 0, ids['F']] + ([V] if (end == 'client' or phase != 'idle') else []))
    inc = rng.choice([1, 2, 0xffff, 0x10000, 0x3fffffff, 0x7fffffff - 65535 - 1000000])
    return fr(P.frame_bytes(0x8, rng.choice([0, 0xff]), sid, struct.pack('>I', inc)), False,
              'WINDOW_UPDATE sid %d increment %d' % (sid, inc))


def mutate(rng, data):
    b = bytearray(data)
    for _ in range(rng.choice([1, 1, 2, 3, 6])):
        op = rng.random()
        if op < 0.4 and b:
            b[rng.randrange(len(b))] = rng.randrange(256)
        elif op < 0.7:
            b.insert(rng.randrange(len(b) + 1), rng.randrange(256))
        elif b:
            del b[rng.randrange(len(b))]
    return bytes(b)


IDS = {
    # ids as seen by the endpoint under test; `new_peer` = the next id the PEER may legitimately
    # open, `new_own` = an idle id of the endpoint's own parity
    'client': {'F': 1, 'V': 3, 'K': 5, 'new_peer': 2, 'new_own': 7, 'huge_peer': 0x7ffffffe,
               'huge_own': 0x7fffffff},
    'server': {'F': 1, 'V': 3, 'K': 5, 'new_peer': 7, 'new_own': 2, 'huge_peer': 0x7fffffff,
               'huge_own': 0x7ffffffe},
}


def fr(data, tol, desc, framed=True, glob=False):
    """framed=False: not a sequence of complete frames -- it desynchronises the peer's own framing, after
    which whatever the peer sends next is swallowed or misread (nothing an endpoint can do about it)"""
    d = {'hex': data.hex(), 'tol': bool(tol), 'd': desc, 'framed': bool(framed)}
    if glob:
        # a well-formed connection-level frame whose legitimate effect reaches every stream (the peer
        # shrinking its own receive window, say): the concurrent call may rightly suffer
        d['glob'] = True
    return d


# ---- frames HTTP/2 requires an endpoint to ignore or tolerate ---------------------------------------

def gen_tolerable(rng, end, phase):
    """phase: state of V's inbound half as the script has it ('idle' before its first HEADERS from the
    peer, 'open' while the peer may still send on it, 'done' after the peer's END_STREAM)."""
    ids = IDS[end]
    anysid = [0, ids['V'], ids['F'], ids['K'], ids['new_peer'], ids['new_own'], ids['huge_peer'],
              ids['huge_own']]
    kinds = ['unknown', 'unknown', 'altsvc', 'priority', 'ping', 'pingack', 'settings_unknown',
             'wu_finished', 'wu', 'rst_finished', 'settings_empty']
    if end == 'client' and phase == 'idle':
        kinds += ['info', 'info']
    if phase == 'open':
        kinds += ['empty_data', 'pad_only_data']
    k = rng.choice(kinds)
    if k == 'unknown':
        t = rng.choice([0x0b, 0x0c, 0x0d, 0x0e, 0x0f, 0x10, 0x42, 0x4f, 0x80, 0xfe, 0xff,
                        rng.randint(0x0b, 0xff)])
        sid = rng.choice(anysid)
        return fr(P.frame_bytes(t, rng.randint(0, 255), sid, rand_bytes(rng, rng.choice([0, 0, 1, 3, 8, 40]))),
                  True, 'unknown type 0x%02x sid %d' % (t, sid))
    if k == 'altsvc':
        if rng.random() < 0.5:
            origin = b'example.com'
            sid = 0
        else:
            origin = b''
            sid = rng.choice([ids['V'], ids['F'], ids['K']])
        payload = struct.pack('>H', len(origin)) + origin + b'h2=":8000"; ma=60'
        return fr(P.frame_bytes(0x0a, rng.choice([0, 0, 0xff]), sid, payload), True, 'ALTSVC sid %d' % sid)
    if k == 'priority':
        sid = rng.choice([s for s in anysid if s != 0])
        dep = rng.choice([s for s in anysid if s != sid])
        payload = struct.pack('>IB', dep | (0x80000000 if rng.random() < 0.3 else 0), rng.randint(0, 255))
        return fr(P.frame_bytes(0x2, rng.choice([0, 0, rng.randint(0, 255)]), sid, payload), True,
                  'PRIORITY sid %d dep %d' % (sid, dep))
    if k == 'ping':
        return fr(P.frame_bytes(0x6, rng.choice([0, 0, 0xfe]), 0, opaque8(rng)), True, 'PING')
    if k == 'pingack':
        return fr(P.frame_bytes(0x6, rng.choice([1, 0xff]), 0, opaque8(rng)), True,
                  'PING ack with unknown payload')
    if k == 'settings_unknown':
        n = rng.randint(1, 3)
        payload = b''.join(struct.pack('>HI', rng.choice([0x10, 0x99, 0xffff, rng.randint(0x10, 0xffff)]),
                                       rng.choice([0, 1, 0x7fffffff, 0x80000000, 0xffffffff,
                                                   rng.randint(0, 0xffffffff)])) for _ in range(n))
        return fr(P.frame_bytes(0x4, 0, 0, payload), True, 'SETTINGS with unknown ids')
    if k == 'settings_empty':
        return fr(P.frame_bytes(0x4, 0, 0, b''), True, 'empty SETTINGS')
    if k == 'wu_finished':
        return fr(P.frame_bytes(0x8, rng.choice([0, 0xff]), ids['F'], struct.pack('>I', rng.randint(1, 1000))),
                  True, 'WINDOW_UPDATE on the finished stream')
    if k == 'wu':
        # only on streams that are open for the endpoint: on a server V and K exist only once the peer
        # has opened them (WINDOW_UPDATE on an idle stream is a connection error, not a tolerable frame)
        if end == 'client':
            sid = rng.choice([0, ids['V'], ids['K']])
        else:
            sid = rng.choice([0, ids['V']]) if phase != 'idle' else 0
        return fr(P.frame_bytes(0x8, 0, sid, struct.pack('>I', rng.randint(1, 1000))), True,
                  'WINDOW_UPDATE sid %d' % sid)
    if k == 'rst_finished':
        return fr(P.frame_bytes(0x3, rng.choice([0, 0xff]), ids['F'],
                                struct.pack('>I', any_error_code(rng))),
                  True, 'RST_STREAM on the finished stream')
    if k == 'info':
        st = str(rng.choice([100, 101, 102, 103, 199]))
        hs = [(':status', st)] + ([('link', '</x>; rel=preload')] if rng.random() < 0.5 else [])
        return fr(headers_frame(ids['V'], hs, pad=rng.choice([None, None, 0, 7]),
                                prio=rng.choice([None, None, (0, False, 15)])), True,
                  'informational response %s on V' % st)
    if k == 'empty_data':
        return fr(P.data_frame(ids['V'], b''), True, 'empty DATA on V')
    if k == 'pad_only_data':
        return fr(P.data_frame(ids['V'], b'', pad=rng.choice([0, 1, 30])), True, 'padding-only DATA on V')
    raise AssertionError(k)


# ---- anything else: every type, every flag byte, every stream id, plausible and implausible ---------

def gen_any(rng, end, phase):
    ids = IDS[end]
    pool = [0, ids['V'], ids['F'], ids['new_peer'], ids['new_own'], ids['huge_peer'], ids['huge_own']]
    V = ids['V']
    r = rng.random()
    if r < 0.30:
        t = rng.randint(0, 9)
        sid = rng.choice(pool)
        n = rng.choice([0, 1, 4, 5, 6, 8, 9, 12, rng.randint(0, 40)])
        return fr(P.frame_bytes(t, rng.choice([0, 1, 4, 5, 8, 0x20, 0x2d, 0xff, rng.randint(0, 255)]), sid,
                                rand_bytes(rng, n)), False, 'random type %d sid %d len %d' % (t, sid, n),
                  glob=(t in (1, 4, 5, 9)))      # SETTINGS; random header-block fragments (see HPACK note)
    if r < 0.36:
        n = rng.choice([1, 3, 8, 9, 10, 24, 60])
        return fr(rand_bytes(rng, n), False, 'raw random bytes (%d)' % n, framed=False)
    req = list(P.REQ_HEADERS)
    resp = list(P.RESP_HEADERS)
    if r < 0.52:
        return gen_field_values(rng, end, phase)
    if end == 'client' and r < 0.62:
        # a stream the peer opens towards a client, followed IN THE SAME CHUNK by 1-4 more frames on it
        # or on the connection (h2 has digested them all before accept() looks at the stream)
        n2 = ids['new_peer']
        pool2 = [
            ('RST', P.frame_bytes(0x3, 0, n2, struct.pack('>I', rng.choice([0, 7, 8])))),
            ('DATA', P.data_frame(n2, b'dd')),
            ('DATA+ES', P.data_frame(n2, b'dd', end_stream=True)),
            ('empty DATA+ES', P.data_frame(n2, b'', end_stream=True)),
            ('trailers+ES', headers_frame(n2, [('a', 'b')], end_stream=True)),
            ('HEADERS again', headers_frame(n2, req)),
            ('WU', P.frame_bytes(0x8, 0, n2, struct.pack('>I', 5))),
            ('WU overflow', P.frame_bytes(0x8, 0, n2, struct.pack('>I', 0x7fffffff))),
            ('WU 0', P.frame_bytes(0x8, 0, n2, struct.pack('>I', 0))),
            ('GOAWAY', P.frame_bytes(0x7, 0, 0, struct.pack('>II', rng.choice([0, n2]), 0))),
            ('PRIORITY', P.frame_bytes(0x2, 0, n2, struct.pack('>IB', 0, 3))),
            ('unknown', P.frame_bytes(0x4f, 0xff, n2, b'u')),
            ('PUSH_PROMISE', P.frame_bytes(0x5, 0x4, n2, struct.pack('>I', n2 + 2) + hpack_block(req))),
            ('HEADERS next', headers_frame(n2 + 2, req, end_stream=rng.random() < 0.5)),
            ('RST next', P.frame_bytes(0x3, 0, n2 + 2, struct.pack('>I', 8))),
            ('SETTINGS iws 0', P.frame_bytes(0x4, 0, 0, struct.pack('>HI', 4, 0))),
            ('PING', P.frame_bytes(0x6, 0, 0, b'12345678')),
            ('RST V', P.frame_bytes(0x3, 0, V, struct.pack('>I', 8))),
        ]
        picks = [rng.choice(pool2) for _ in range(rng.randint(1, 4))]
        first = headers_frame(n2, req if rng.random() < 0.7 else resp, end_stream=rng.random() < 0.3,
                              pad=rng.choice([None, None, 5]))
        return fr(first + b''.join(b for _, b in picks), False,
                  'peer-opened stream %d, then in the same chunk: %s' % (n2, ', '.join(d for d, _ in picks)),
                  glob=any(d.startswith('SETTINGS') for d, _ in picks))
    special = [
        lambda: fr(P.frame_bytes(0x8, 0, rng.choice([0, V]), struct.pack('>I', 0)), False, 'WINDOW_UPDATE 0'),
        lambda: fr(P.frame_bytes(0x8, 0, rng.choice([0, V]), struct.pack('>I', 0x7fffffff)), False,
                   'WINDOW_UPDATE overflow'),
        lambda: fr(P.frame_bytes(0x8, 0, rng.choice([ids['new_peer'], ids['new_own'], ids['huge_own']]),
                                 struct.pack('>I', 10)), False, 'WINDOW_UPDATE on an idle stream'),
        lambda: fr(P.frame_bytes(0x7, 0, 0, struct.pack('>II', rng.choice([0, V, 0x7fffffff]),
                                                        rng.choice([0, 1, 2, 11, 0xdead])) + b'dbg'),
                   False, 'GOAWAY'),
        lambda: fr(P.frame_bytes(0x7, 0, 0, struct.pack('>II', 0, 0)) * 2, False, 'GOAWAY twice'),
        lambda: fr(P.frame_bytes(0x7, 0, 0, struct.pack('>II', 0, 0)) +
                   P.frame_bytes(0x0b, 0, 0, b'x') + P.frame_bytes(0x6, 0, 0, b'12345678'), False,
                   'GOAWAY then unknown frame and PING in one chunk'),
        lambda: fr(P.frame_bytes(0x9, 0x4, rng.choice([V, ids['new_peer']]), hpack_block([('a', 'b')])), False,
                   'CONTINUATION without HEADERS'),
        lambda: fr(headers_frame(V, [('x', 'y')], end_headers=False), False,
                   'HEADERS without END_HEADERS (then whatever follows)'),
        lambda: fr(P.frame_bytes(0x5, 0x4, V, struct.pack('>I', ids['new_peer'] if end == 'client' else 2) +
                                 hpack_block(req)), False, 'PUSH_PROMISE on V'),
        lambda: fr(P.frame_bytes(0x5, 0x4, V, struct.pack('>I', 2) + hpack_block(req)) +
                   headers_frame(2, resp) + P.data_frame(2, b'pushed', end_stream=True), False,
                   'PUSH_PROMISE + pushed response'),
        lambda: fr(P.frame_bytes(0x5, 0x4, 0, struct.pack('>I', 2) + hpack_block(req)), False,
                   'PUSH_PROMISE on stream 0'),
        lambda: fr(headers_frame(V, [('grpc-status', '0')], end_stream=False), False,
                   'HEADERS on V without END_STREAM (trailers without END_STREAM)'),
        lambda: fr(P.data_frame(ids['F'], b'late', end_stream=rng.random() < 0.5), False,
                   'DATA on the finished stream'),
        lambda: fr(P.data_frame(rng.choice([ids['new_peer'], ids['new_own'], ids['huge_peer']]), b'zz'), False,
                   'DATA on an idle stream'),
        lambda: fr(P.data_frame(0, b'zz'), False, 'DATA on stream 0'),
        lambda: fr(headers_frame(ids['new_peer'], req, end_stream=rng.random() < 0.5), False,
                   'HEADERS opening a peer-initiated stream (request headers)'),
        lambda: fr(headers_frame(ids['new_peer'], resp), False,
                   'HEADERS opening a peer-initiated stream (response headers)'),
        lambda: fr(headers_frame(ids['new_own'], req), False, 'HEADERS on an idle stream of our own parity'),
        lambda: fr(headers_frame(ids['new_peer'], req) + P.frame_bytes(0x7, 0, 0, struct.pack('>II', 0, 0)),
                   False, 'HEADERS opening a peer-initiated stream, then GOAWAY'),
        lambda: fr(headers_frame(ids['new_peer'], req) +
                   P.frame_bytes(0x3, 0, ids['new_peer'], struct.pack('>I', 8)), False,
                   'HEADERS opening a peer-initiated stream, then RST_STREAM on it'),
        lambda: fr(headers_frame(ids['new_peer'], req, end_stream=True) + P.data_frame(ids['new_peer'], b'zz'),
                   False, 'HEADERS+END_STREAM opening a peer-initiated stream, then DATA on it (stream error)'),
        lambda: fr(headers_frame(ids['new_peer'], req) +
                   P.frame_bytes(0x8, 0, ids['new_peer'], struct.pack('>I', 0x7fffffff)), False,
                   'HEADERS opening a peer-initiated stream, then WINDOW_UPDATE overflow on it'),
        lambda: fr(headers_frame(ids['new_peer'], req) + headers_frame(ids['new_peer'], [('a', 'b')]), False,
                   'HEADERS opening a peer-initiated stream, then HEADERS without END_STREAM on it'),
        lambda: fr(headers_frame(ids['new_peer'], req) +
                   headers_frame(ids['new_peer'], [('a', 'b')], end_stream=True) +
                   P.frame_bytes(0x3, 0, ids['new_peer'], struct.pack('>I', 0)), False,
                   'peer-initiated stream opened, ended with trailers and reset in one chunk'),
        lambda: fr(headers_frame(ids['new_peer'], req) + P.data_frame(ids['new_peer'], b'x' * 30) +
                   headers_frame(ids['new_peer'] + 2, req, end_stream=True) +
                   P.frame_bytes(0x3, 0, ids['new_peer'], struct.pack('>I', 2)), False,
                   'two peer-initiated streams with DATA, the first reset, in one chunk'),
        lambda: fr(headers_frame(ids['huge_peer'], req), False, 'HEADERS opening the largest stream id'),
        lambda: fr(headers_frame(ids['F'], resp), False, 'HEADERS on the finished stream'),
        # HPACK note: random bytes can happen to BE a valid header block that inserts entries into the
        # decoder's dynamic table; the peer's own encoder does not know them, so every later header block it
        # sends (any stream) is decoded against a shifted table.  The peer has desynchronised its own HPACK
        # state: connection-wide legitimate effect (glob), no claim about the concurrent call.
        lambda: fr(headers_frame(V, [], block=rand_bytes(rng, rng.choice([1, 5, 20]))), False,
                   'HEADERS with garbage HPACK', glob=True),
        lambda: fr(headers_frame(V, [], block=mutate(rng, hpack_block(resp if end == 'client' else req)),
                                 end_stream=rng.random() < 0.3), False, 'HEADERS with a mutated HPACK block',
                   glob=True),
        lambda: fr(headers_frame(V, [(b':status', b'200'), (b'x-note', b'caf\xc3\xa9')]), False,
                   'HEADERS with a non-ASCII header value'),
        lambda: fr(headers_frame(V, [(b'grpc-status', b'2'), (b'grpc-message', b'\xff\xfe')], end_stream=True),
                   False, 'trailers with a non-ASCII grpc-message'),
        lambda: fr(headers_frame(V, [(':status', '100')], end_stream=True), False, '1xx with END_STREAM'),
        lambda: fr(headers_frame(V, [(':status', '200'), ('content-length', 'x')]), False,
                   'HEADERS with a bad content-length'),
        lambda: fr(headers_frame(V, resp, pad=200), False, 'HEADERS with padding longer than the frame'),
        lambda: fr(P.frame_bytes(0x0, 0x8, V, bytes([200]) + b'abc'), False, 'DATA with padding longer than the frame'),
        lambda: fr(P.frame_bytes(0x4, 0, 0, struct.pack('>HI', 2, 2)), False, 'SETTINGS ENABLE_PUSH=2'),
        lambda: fr(P.frame_bytes(0x4, 0, 0, struct.pack('>HI', 4, 0x80000000)), False,
                   'SETTINGS INITIAL_WINDOW_SIZE 2^31'),
        lambda: fr(P.frame_bytes(0x4, 0, 0, struct.pack('>HI', 5, 1)), False, 'SETTINGS MAX_FRAME_SIZE=1'),
        lambda: fr(P.frame_bytes(0x4, 0, 0, struct.pack('>HI', 4, rng.choice([0, 1, 100000]))), False,
                   'SETTINGS INITIAL_WINDOW_SIZE change', glob=True),
        lambda: fr(P.frame_bytes(0x4, 0, 0, struct.pack('>HI', 3, rng.choice([0, 1, 1000]))), False,
                   'SETTINGS MAX_CONCURRENT_STREAMS change', glob=True),
        lambda: fr(P.frame_bytes(0x4, 0, 0, struct.pack('>HI', 1, rng.choice([0, 1, 65536]))), False,
                   'SETTINGS HEADER_TABLE_SIZE change', glob=True),
        lambda: fr(P.frame_bytes(0x4, 0x1, 0, b'\0' * 6), False, 'SETTINGS ack with payload'),
        lambda: fr(P.frame_bytes(0x4, 0x1, 0, b''), False, 'SETTINGS ack nobody asked for'),
        lambda: fr(P.frame_bytes(0x4, 0, 0, b'\0' * 5), False, 'SETTINGS of length 5'),
        lambda: fr(P.frame_bytes(0x4, 0, V, b''), False, 'SETTINGS on a stream'),
        lambda: fr(P.frame_bytes(0x6, 0, 0, b'1234567'), False, 'PING of length 7'),
        lambda: fr(P.frame_bytes(0x6, 0, V, b'12345678'), False, 'PING on a stream'),
        lambda: fr(P.frame_bytes(0x2, 0, V, struct.pack('>IB', V, 1)), False, 'PRIORITY depending on itself'),
        lambda: fr(P.frame_bytes(0x2, 0, V, b'\0' * 4), False, 'PRIORITY of length 4'),
        lambda: fr(P.frame_bytes(0x2, 0, 0, struct.pack('>IB', 3, 1)), False, 'PRIORITY on stream 0'),
        lambda: fr(P.frame_bytes(0x3, 0, V, struct.pack('>I', rng.choice([0, 2, 8]))), False, 'RST_STREAM on V'),
        lambda: fr(P.frame_bytes(0x3, 0, V, struct.pack('>I', 8)) * 2, False, 'RST_STREAM on V twice'),
        lambda: fr(P.frame_bytes(0x3, 0, V, struct.pack('>I', 8)) + P.data_frame(V, b'after-reset'), False,
                   'RST_STREAM on V then DATA on V'),
        lambda: fr(P.frame_bytes(0x3, 0, rng.choice([ids['new_peer'], ids['new_own']]), struct.pack('>I', 8)),
                   False, 'RST_STREAM on an idle stream'),
        lambda: fr(P.frame_bytes(0x3, 0, 0, struct.pack('>I', 8)), False, 'RST_STREAM on stream 0'),
        lambda: fr(P.frame_bytes(0x3, 0, V, b'\0' * 3), False, 'RST_STREAM of length 3'),
        lambda: fr(P.frame_bytes(0x0a, 0, 0, struct.pack('>H', 500) + b'short'), False, 'malformed ALTSVC'),
        lambda: fr(P.frame_bytes(0x0, 0, V, b'x' * 16385), False, 'DATA larger than MAX_FRAME_SIZE'),
        lambda: fr(b'\xff\xff\xff' + bytes([rng.randint(0, 255), 0]) + struct.pack('>I', V), False,
                   'frame header announcing 16 MiB', framed=False),
        lambda: fr(P.data_frame(V, P.grpc_frame(b'junk') + b'\x01\xff\xff\xff\xff'), False,
                   'DATA with a garbage gRPC length prefix on V'),
        lambda: fr(P.data_frame(V, b'tail', end_stream=True), False, 'DATA END_STREAM on V'),
    ]
    return rng.choice(special)()


# ---------------------------------------------------------------------------------------------------
# case generation

V_STEPS = {'client': ['V.h', 'V.d1', 'V.d2', 'V.t'], 'server': ['V.h', 'V.d1', 'V.d2']}
K_STEPS = {'client': ['K.h', 'K.d', 'K.t'], 'server': ['K.h', 'K.d']}


def gen_case(rng, end, tol_only):
    a, b = list(V_STEPS[end]), list(K_STEPS[end])
    xs = []
    while a or b:
        # on a server the peer opens V before K (its stream ids must increase)
        pick_a = a and (not b or rng.random() < 0.55 or (end == 'server' and a[0] == 'V.h'))
        xs.append(a.pop(0) if pick_a else b.pop(0))
    n_inj = rng.choice([1, 1, 2, 3, 4])
    pos = sorted(rng.randint(0, len(xs)) for _ in range(n_inj))
    any_budget = 0 if tol_only else rng.choice([1, 1, 2, 3])
    any_at = set(rng.sample(range(n_inj), min(any_budget, n_inj))) if any_budget else set()
    steps = []
    phase = 'idle'

    def cutf():
        k = rng.choice([0, 0, 0, 1, 2, 3, 9])
        return [round(rng.random(), 4) for _ in range(k)]

    def runopt():
        return rng.choice([None, None, 0.0, 0.1, 0.5])

    def inj(j):
        frames = []
        for _ in range(rng.choice([1, 1, 2, 3])):
            frames.append(gen_tolerable(rng, end, phase))
        if j in any_at:
            for _ in range(rng.choice([1, 1, 2])):
                frames.insert(rng.randint(0, len(frames)), gen_any(rng, end, phase))
        return {'op': 'inj', 'frames': frames, 'cutf': cutf(), 'run': runopt()}

    j = 0
    for i in range(len(xs) + 1):
        while j < n_inj and pos[j] == i:
            steps.append(inj(j))
            j += 1
        if i < len(xs):
            name = xs[i]
            steps.append({'op': 'x', 'name': name, 'pad': rng.choice([None, None, None, 0, 3, 40]),
                          'cutf': cutf(), 'run': runopt()})
            if name == 'V.h':
                phase = 'open'
            if name == ('V.t' if end == 'client' else 'V.d2'):
                phase = 'done'
    case = {'end': end, 'steps': steps}
    if end == 'server' and rng.random() < 0.4:
        case['park'] = True         # V's handler stays parked after its request
    return case


def case_tol(case):
    return all(f['tol'] for s in case['steps'] if s['op'] == 'inj' for f in s['frames'])


def case_framed(case):
    return all(f.get('framed', True) and not f.get('glob')
               for s in case['steps'] if s['op'] == 'inj' for f in s['frames'])


# ---------------------------------------------------------------------------------------------------
# running one case on the real code

_REASONS = None
# what the texts are in the code this harness was written against; used only if the calibration below
# cannot be carried out
DEFAULT_REASONS = [('Protocol error', 1), ('Stream reset by remote party, error_code: ', 2),
                   ('Received GOAWAY frame, closing connection; error_code: ', 3), ('Connection lost', 4),
                   ('Connection closed', 5)]


MISSING = object()


def _try(f, default=None):
    try:
        return f()
    except Exception:
        return default


def by_role(obj, names, pred):
    """a private attribute located by what it IS: first the names it has had, then any instance attribute
    satisfying `pred`; MISSING if there is none (the caller then degrades to what is publicly visible)"""
    for n in names:
        v = _try(lambda: getattr(obj, n), MISSING)
        if v is not MISSING and _try(lambda: pred(v), False):
            return v
    for v in _try(lambda: list(vars(obj).values()), []):
        if _try(lambda: pred(v), False):
            return v
    return MISSING


def find_parts(proto):
    """(processor, connection, handler, h2 connection) of an H2Protocol, each possibly MISSING"""
    from grpclib import protocol as gp
    from h2.connection import H2Connection
    proc = by_role(proto, ['processor'], lambda v: isinstance(v, gp.EventsProcessor))
    conn = by_role(proto, ['connection'], lambda v: isinstance(v, gp.Connection))
    handler = by_role(proto, ['handler'], lambda v: isinstance(v, gp.AbstractHandler))
    h2c = MISSING if conn is MISSING else by_role(conn, ['_connection'], lambda v: isinstance(v, H2Connection))
    return proc, conn, handler, h2c


def stream_id_of_task(task):
    """the id of the protocol.Stream a handler task works on (it is among its coroutine's arguments)"""
    from grpclib import protocol as gp
    fr_ = _try(lambda: task.get_coro().cr_frame)
    for v in (_try(lambda: list(fr_.f_locals.values()), []) if fr_ is not None else []):
        if isinstance(v, gp.Stream):
            return _try(lambda: v.id)
    return None


def find_registry(proc):
    """the dict stream id -> protocol.Stream of an EventsProcessor"""
    from grpclib import protocol as gp
    if proc is MISSING:
        return MISSING

    def is_registry(v):
        return isinstance(v, dict) and all(isinstance(k, int) for k in v) and \
            all(isinstance(x, gp.Stream) for x in v.values())
    return by_role(proc, ['streams'], is_registry)


def has_dispatch_table(proc):
    """is there (still) a table event class -> handler?  (close() deletes it)"""
    def is_table(v):
        return isinstance(v, dict) and len(v) > 0 and all(isinstance(k, type) for k in v) and \
            all(callable(x) for x in v.values())
    return by_role(proc, ['processors'], is_table) is not MISSING


def wrapper_error(wrapper):
    """the exception a Wrapper was cancelled with (None: not cancelled), MISSING if it cannot be told"""
    v = _try(lambda: getattr(wrapper, '_error'), MISSING)
    if v is not MISSING:
        return v
    found = [x for x in _try(lambda: list(vars(wrapper).values()), []) if isinstance(x, BaseException)]
    if found:
        return found[0]
    return None if _try(lambda: not wrapper.cancelled, False) else MISSING


def calibrate_reasons():
    """The texts __terminated__ is given are learnt from the RUNNING code, not from its source: a client call
    is left pending and the peer sends garbage / resets its stream / sends GOAWAY, the transport is lost,
    the Channel is closed -- and the error the call's wrapper holds right afterwards is read (for reset and
    GOAWAY: the text up to the error code)."""
    from grpclib.client import UnaryUnaryMethod

    def ending(action):
        with vloop.session() as loop:
            ce = wire.ClientEnd(loop)
            m = UnaryUnaryMethod(ce.channel, '/v.S/M', bytes, bytes)
            loop.create_task(m(b'q', timeout=20))
            loop.run_quiet(0.5)
            sids = [e.stream_id for e in ce.peer.take_events() if type(e).__name__ == 'RequestReceived']
            reg = find_registry(find_parts(ce.proto)[0])
            stream = reg[sids[-1]]
            action(ce, sids[-1])
            err = wrapper_error(stream.wrapper)
            return str(err) if isinstance(err, BaseException) else None

    def garbage(ce, sid):
        try:
            ce.peer.raw(P.frame_bytes(0x9, 0x4, sid, b'\x88'))       # CONTINUATION without HEADERS
        except BaseException:                                         # noqa
            pass
    actions = {
        1: garbage,
        2: lambda ce, sid: ce.peer.reset(sid, code=7),
        3: lambda ce, sid: ce.peer.goaway(code=2),
        4: lambda ce, sid: ce.transport.lose(None),
        5: lambda ce, sid: ce.channel.close(),
    }
    out = []
    for text, kind in DEFAULT_REASONS:
        got = _try(lambda: ending(actions[kind]))
        if got and kind in (2, 3):
            # '<text>: <code>' -> everything up to and including the blank before the code
            got = got[:got.rfind(' ') + 1] if ' ' in got else got
        out.append((got or text, kind))
    return out


def reasons():
    """(prefix, kind) pairs, kinds as in ocaml/dC12.ml: 1 protocol error / local reset, 2 remote reset,
    3 goaway, 4 lost, 5 closed"""
    global _REASONS
    if _REASONS is None:
        prev = logging.root.manager.disable
        logging.disable(logging.CRITICAL)
        try:
            _REASONS = calibrate_reasons()
        except Exception:
            _REASONS = list(DEFAULT_REASONS)
        finally:
            logging.disable(prev)
    return _REASONS


def reason_of(err):
    from grpclib.exceptions import StreamTerminatedError
    if err is None:
        return (0, 0)
    if isinstance(err, StreamTerminatedError):
        text = str(err)
        for prefix, k in reasons():
            if text.startswith(prefix):
                code = 0
                if k in (2, 3):
                    tail = text[len(prefix):]
                    try:
                        code = int(tail)
                    except ValueError:
                        try:
                            code = int(getattr(__import__('h2.errors').errors.ErrorCodes,
                                               tail.split('.')[-1]))
                        except Exception:
                            code = -1
                return (k, code)
    return (6, 0)


class Probe:
    """observes one protocol instance"""

    def __init__(self, end, proto, transport):
        self.end = end
        self.proto = proto
        self.transport = transport
        self.task_sid = {}
        self.cur = None
        self.batches = []        # one record per data_received call
        self.raises = []
        self.seen_resets = []
        self.seen_requests = []
        self.repeated_resets = 0
        self.discipline = []
        self.undelivered = 0
        self.fc_received = {}    # sid -> flow-controlled bytes of the DataReceived events h2 handed out
        self.fc_credited = {}    # sid -> bytes grpclib acknowledged (whoever called, whenever)
        self.proc, self.conn, self.handler, conn = find_parts(proto)
        self.h2c = conn
        self.blind = conn is MISSING       # h2's verdict cannot be observed: no model correspondence
        if self.blind:
            return
        orig_recv = conn.receive_data
        orig_ack = conn.acknowledge_received_data
        orig_rst = conn.reset_stream

        def receive_data(data):
            try:
                evs = orig_recv(data)
            except H2ProtocolError:
                if self.cur is not None:
                    self.cur['h2err'] = True
                raise
            except BaseException as e:
                if self.cur is not None:
                    self.cur['h2raise'] = type(e).__name__
                raise
            for ev in evs:
                if type(ev).__name__ == 'DataReceived':
                    self.fc_received[ev.stream_id] = self.fc_received.get(ev.stream_id, 0) + \
                        ev.flow_controlled_length
            if self.cur is not None:
                self.cur['events'] = list(evs)
            return evs

        def acknowledge_received_data(size, stream_id):
            self.fc_credited[stream_id] = self.fc_credited.get(stream_id, 0) + size
            if self.cur is not None:
                self.cur['credit'].append((stream_id, size))
            return orig_ack(size, stream_id)

        def reset_stream(stream_id, *a, **kw):
            if self.cur is not None:
                self.cur['rst'].append(stream_id)
            return orig_rst(stream_id, *a, **kw)

        conn.receive_data = receive_data
        conn.acknowledge_received_data = acknowledge_received_data
        conn.reset_stream = reset_stream

    # -- state of EventsProcessor / Handler / Streams, in the vocabulary of Model/Dispatch.v.
    # Everything that is not public is looked up by role and may be unobservable: such a field is None in
    # the snapshot and listed in 'unobs' (global fields) / 'unobs_rec' (positions in the stream records);
    # the comparison with the model leaves it out.  'blind' = the registry itself cannot be seen.
    REC_FIELDS = 12

    def handler_tables(self):
        """(dict Stream -> Task, set of cancelled Tasks) of a server handler, or (MISSING, MISSING)"""
        from grpclib import protocol as gp
        h = self.handler
        if h is MISSING:
            return MISSING, MISSING
        live = by_role(h, ['_tasks'], lambda v: isinstance(v, dict) and all(
            isinstance(k, gp.Stream) and isinstance(x, asyncio.Future) for k, x in v.items()))
        canc = by_role(h, ['_cancelled'], lambda v: isinstance(v, (set, frozenset)) and all(
            isinstance(x, asyncio.Future) for x in v))
        return live, canc

    def snap(self):
        from grpclib import protocol as gp
        proc, conn, h = self.proc, self.conn, self.handler
        unobs, unobs_rec = set(), set()

        def put(key, value):
            if value is None:
                unobs.add(key)
            s[key] = value
        s = {'role': 0 if self.end == 'client' else 1}
        reg = find_registry(proc)
        if reg is MISSING or self.blind:
            return {'blind': True}
        s['closed'] = not has_dispatch_table(proc)
        # Connection.close() lets go of the transport object
        put('tclosed', None if conn is MISSING else
            not any(v is self.transport for v in _try(lambda: list(vars(conn).values()), [])))
        tasks = []
        if self.end == 'client':
            put('hflag', _try(lambda: bool(h.connection_lost)))
        else:
            put('hflag', _try(lambda: bool(h.closing)))
            live_t, canc_t = self.handler_tables()
            if live_t is MISSING or canc_t is MISSING:
                unobs.add('tasks')
            else:
                for st, tk in live_t.items():
                    self.task_sid.setdefault(tk, st.id)
                for tk in canc_t:
                    # accepted and reset inside one data_received call: never seen in the live table; the
                    # stream is among the arguments of the not-yet-started handler coroutine
                    if tk not in self.task_sid and not tk.done():
                        fr_ = _try(lambda: tk.get_coro().cr_frame)
                        sts = [v for v in (_try(lambda: list(fr_.f_locals.values()), []) if fr_ else [])
                               if isinstance(v, gp.Stream)]
                        if sts:
                            self.task_sid[tk] = sts[0].id
                        else:
                            unobs.add('tasks')
                live = set(live_t.values())
                for tk, sid in self.task_sid.items():
                    if tk.done() or not (tk in live or tk in canc_t):
                        continue
                    tasks.append((sid, tk in live, tk in canc_t))
        s['tasks'] = sorted(tasks)
        put('drecv', _try(lambda: int(conn.data_received)))
        put('succ', _try(lambda: int(conn.streams_succeeded)))
        put('fail', _try(lambda: int(conn.streams_failed)))
        put('waiter', _try(lambda: bool(conn.stream_close_waiter.is_set())))

        def ping_armed():
            ph = conn._close_by_ping_handler
            return ph is not None and not ph.cancelled()
        put('ping', _try(ping_armed))
        recs = []
        for sid, st in reg.items():
            w = _try(lambda: st.wrapper, MISSING)
            if w is MISSING:
                rec = [sid, None, None, None]
            elif w is None:
                rec = [sid, False, 0, 0]
            else:
                err = wrapper_error(w)
                ck, cc = (None, None) if err is MISSING else reason_of(err)
                rec = [sid, True, ck, cc]
            buf = _try(lambda: st.buffer)
            queue = by_role(buf, ['_unacked'], lambda v: isinstance(v, asyncio.Queue)) if buf is not None \
                else MISSING
            rec += [_try(lambda: st.headers is not None), _try(lambda: st.trailers is not None),
                    _try(lambda: bool(st.headers_received.is_set())),
                    _try(lambda: bool(st.trailers_received.is_set())),
                    _try(lambda: bool(st.window_updated.is_set())),
                    None if queue is MISSING else queue.qsize(),
                    _try(lambda: bool(buf._eof)),
                    _try(lambda: int(st.data_received))]
            for i, v in enumerate(rec):
                if v is None:
                    unobs_rec.add(i)
            recs.append(tuple(rec))
        s['reg'] = sorted(recs, key=lambda r: r[0])
        s['unobs'] = sorted(unobs)
        s['unobs_rec'] = sorted(unobs_rec)
        return s

    def deliver(self, data, cutf=None):
        """what asyncio does with bytes from the socket: one data_received per chunk; nothing after
        transport.close(); an exception out of data_received is fatal for the transport"""
        n = len(data)
        cuts = sorted({max(1, min(n - 1, int(f * n))) for f in (cutf or [])}) if n > 1 else []
        pos = 0
        for c in cuts + [n]:
            if c <= pos:
                continue
            chunk = data[pos:c]
            pos = c
            tr = self.transport
            if tr.lost or tr.closing:
                self.undelivered += len(chunk)
                continue
            self.cur = {'pre': self.snap(), 'events': None, 'h2err': False, 'h2raise': None,
                        'credit': [], 'rst': [], 'raised': None, 'seen': list(self.seen_resets), 'nbytes': len(chunk)}
            try:
                self.proto.data_received(chunk)
            except BaseException as e:        # noqa -- this is the thing that must never happen
                self.cur['raised'] = type(e).__name__
                self.cur['post'] = self.snap()
                self.raises.append({'exc': type(e).__name__, 'text': str(e)[:120],
                                    'via': self.via(e), 'batch': len(self.batches)})
                self.finish_batch()
                tr.lose(e)                    # asyncio: _fatal_error -> connection_lost(exc)
                continue
            self.cur['post'] = self.snap()
            self.finish_batch()

    def via(self, e):
        if self.cur['h2raise']:
            return 'h2'
        evs = self.cur['events'] or []
        if self.end == 'client' and any(type(x).__name__ == 'RequestReceived' for x in evs):
            return 'RequestReceived'
        return 'process'

    def finish_batch(self):
        cur, self.cur = self.cur, None
        for ev in cur['events'] or []:
            n = type(ev).__name__
            if n == 'StreamReset':
                if ev.stream_id in self.seen_resets:
                    self.repeated_resets += 1       # tolerated since Handler.cancel pops with a default
                self.seen_resets.append(ev.stream_id)
            elif n == 'RequestReceived':
                if ev.stream_id in self.seen_requests:
                    self.discipline.append('second RequestReceived for stream %d' % ev.stream_id)
                self.seen_requests.append(ev.stream_id)
            elif n == 'DataReceived':
                if ev.stream_id <= 0 or ev.flow_controlled_length < 0:
                    self.discipline.append('DataReceived with stream %d length %d' % (
                        ev.stream_id, ev.flow_controlled_length))
        self.batches.append(cur)


def enc_event(ev):
    n = type(ev).__name__
    if n not in KIND:
        if n in H2_PRIVATE:
            return '17 %s 0 0' % ','.join(str(ord(c)) for c in n)
        raise RuntimeError('unknown h2 event class %s (fail closed)' % n)
    k = KIND[n]
    a = b = c = 0
    if n in ('RequestReceived', 'ResponseReceived', 'TrailersReceived', 'InformationalResponseReceived',
             'StreamEnded', 'PriorityUpdated'):
        a = ev.stream_id
    elif n == 'DataReceived':
        a, b, c = ev.stream_id, len(ev.data), ev.flow_controlled_length
    elif n == 'WindowUpdated':
        a, b = ev.stream_id, ev.delta or 0
    elif n == 'StreamReset':
        a, b, c = ev.stream_id, int(ev.error_code or 0), 1 if ev.remote_reset else 0
    elif n == 'RemoteSettingsChanged':
        a = 1 if SettingCodes.INITIAL_WINDOW_SIZE in ev.changed_settings else 0
        b = 1 if SettingCodes.MAX_CONCURRENT_STREAMS in ev.changed_settings else 0
    elif n == 'PushedStreamReceived':
        a, b = ev.parent_stream_id or 0, ev.pushed_stream_id or 0
    elif n == 'ConnectionTerminated':
        a = int(ev.error_code or 0)
    elif n == 'UnknownFrameReceived':
        a, b = getattr(ev.frame, 'type', 0) or 0, getattr(ev.frame, 'stream_id', 0) or 0
    return '%d %d %d %d' % (k, a, b, c)


def b2i(x):
    return 1 if x else 0


def enc_state(s):
    """unobservable fields (None) are given a neutral value; they are left out of the comparison"""
    def z(x):
        return 0 if x is None else x
    tclosed = s['closed'] if s['tclosed'] is None else s['tclosed']
    w = [s['role'], b2i(s['closed']), b2i(tclosed), b2i(s['hflag']), len(s['tasks'])]
    for sid, live, canc in s['tasks']:
        w += [sid, b2i(live), b2i(canc)]
    w += [z(s['drecv']), z(s['succ']), z(s['fail']), b2i(s['waiter']), b2i(s['ping']), len(s['reg'])]
    for r in s['reg']:
        w += [r[0], b2i(r[1]), z(r[2]), z(r[3])] + [b2i(x) for x in r[4:9]] + [z(r[9]), b2i(r[10]), z(r[11])]
    return ' '.join(str(x) for x in w)


def masked(state, unobs, unobs_rec):
    """a state (model's or real) without the fields the harness could not observe"""
    out = {k: v for k, v in state.items() if k not in unobs and k not in ('unobs', 'unobs_rec', 'reg')}
    out['reg'] = [tuple(None if i in unobs_rec else (bool(v) if isinstance(v, bool) else v)
                        for i, v in enumerate(r)) for r in state['reg']]
    return out


def model_line(b):
    if b['h2err']:
        batch = 'P'
    elif b['h2raise'] == 'UnicodeDecodeError':
        batch = 'U'
    else:
        evs = b['events'] or []
        batch = 'E %d %s' % (len(evs), ' '.join(enc_event(e) for e in evs))
    return 'B S %s X %s' % (enc_state(b['pre']), batch.strip())


def parse_model(ans):
    w = ans.split()
    out = {'inv': w[0] == '1', 'wf': w[1] == '1'}
    if w[2] == 'raises':
        out['raises'] = w[3]
        return out
    it = iter(w[3:])

    def nx():
        return int(next(it))
    s = {'role': nx(), 'closed': bool(nx()), 'tclosed': bool(nx()), 'hflag': bool(nx())}
    tasks = []
    for _ in range(nx()):
        tasks.append((nx(), bool(nx()), bool(nx())))
    s['tasks'] = sorted(tasks)
    s['drecv'], s['succ'], s['fail'] = nx(), nx(), nx()
    s['waiter'], s['ping'] = bool(nx()), bool(nx())
    reg = []
    for _ in range(nx()):
        reg.append((nx(), bool(nx()), nx(), nx(), bool(nx()), bool(nx()), bool(nx()), bool(nx()), bool(nx()),
                    nx(), bool(nx()), nx()))
    s['reg'] = sorted(reg)
    out['state'] = s
    assert next(it) == 'C'
    out['credit'] = [(nx(), nx()) for _ in range(nx())]
    assert next(it) == 'R'
    out['rst'] = [nx() for _ in range(nx())]
    assert next(it) == 'D'
    out['shut'] = next(it)
    return out


async def _handler(stream):
    msg = await stream.recv_message()
    await asyncio.sleep(0.25)
    await stream.send_message(b'R:' + (msg or b''))


async def _parked_handler(stream):
    """a handler that stays parked after its request (a subscription): only its deadline, a cancellation or
    the termination of its stream ends it"""
    await stream.recv_message()
    await asyncio.Event().wait()


def run_case(case):
    """returns the observation record of one case"""
    end = case['end']
    agg = case.get('kind') == 'agg'
    obs = {'end': end, 'raises': [], 'closed': False, 'h2err': False, 'outcomes': {}, 'pending': [],
           'leftover': [], 'batches': [], 'discipline': [], 'evclasses': [], 'undelivered': 0,
           'done_before_close': {}, 'late': {}, 'skipped': [], 'post_close_probe': None}
    # grpclib logs 'Application error' tracebacks for handlers fed garbage; keep the check's output clean
    prev = logging.root.manager.disable
    logging.disable(logging.CRITICAL)
    try:
        with vloop.session() as loop:
            if agg:
                _run_agg(loop, case, obs)
            elif end == 'client':
                _run_client(loop, case, obs)
            else:
                _run_server(loop, case, obs)
    finally:
        logging.disable(prev)
    return obs


def _resolve_inj(step):
    return b''.join(bytes.fromhex(f['hex']) for f in step['frames'])


def _post_close_probe(probe):
    """measurement only (ASSUMPTIONS[0]): what data_received does if bytes arrive after close()"""
    try:
        probe.proto.data_received(P.frame_bytes(0x6, 0, 0, b'12345678'))
        return 'ok'
    except BaseException as e:      # noqa
        return type(e).__name__


def _settle(loop, peer, send):
    """deliver what the scripted peer still has to say (e.g. the GOAWAY of its own h2 when the endpoint
    reset a stream the peer's h2 never knew) and give the endpoint 1 s after the LAST delivery"""
    for _ in range(6):
        send()
        loop.run_quiet(1.0)
        if not len(peer.h2._data_to_send):      # nothing more queued in the peer's h2
            break


def _run_client(loop, case, obs):
    from grpclib.client import UnaryUnaryMethod
    ids = IDS['client']
    ce = wire.ClientEnd(loop)
    m = UnaryUnaryMethod(ce.channel, '/v.S/M', bytes, bytes)
    tasks = {'F': loop.create_task(m(b'f', timeout=20))}
    loop.run_quiet(1)
    probe = Probe('client', ce.proto, ce.transport)
    peer = ce.peer

    def send(cutf=None):
        data = peer.h2.data_to_send()
        if data:
            probe.deliver(data, cutf)

    def say(fn, *a, **kw):
        try:
            fn(*a, **kw)
            return True
        except H2ProtocolError:
            return False
    peer.take_events()
    say(peer.h2.send_headers, ids['F'], P.RESP_HEADERS)
    say(peer.h2.send_data, ids['F'], P.grpc_frame(b'R:f'))
    say(peer.h2.send_headers, ids['F'], [('grpc-status', '0')], end_stream=True)
    send()
    loop.run_quiet(1)
    tasks['V'] = loop.create_task(m(b'v', timeout=20))
    loop.run_quiet(1)
    tasks['K'] = loop.create_task(m(b'k', timeout=20))
    loop.run_quiet(1)
    peer.take_events()
    reply = {'V': P.grpc_frame(b'R:v'), 'K': P.grpc_frame(b'R:k')}
    n_pre = len(probe.batches)
    for step in case['steps']:
        if step['op'] == 'inj':
            probe.deliver(_resolve_inj(step), step.get('cutf'))
        else:
            who, what = step['name'].split('.')
            sid = ids[who]
            pad = step.get('pad')
            if what == 'h':
                ok = say(peer.h2.send_headers, sid, P.RESP_HEADERS)
            elif what == 'd1':
                ok = say(peer.h2.send_data, sid, reply[who][:4], pad_length=pad)
            elif what == 'd2':
                ok = say(peer.h2.send_data, sid, reply[who][4:], pad_length=pad)
            elif what == 'd':
                ok = say(peer.h2.send_data, sid, reply[who], pad_length=pad)
            else:
                ok = say(peer.h2.send_headers, sid, [('grpc-status', '0')], end_stream=True)
            if not ok:
                obs['skipped'].append(step['name'])
            send(step.get('cutf'))
        if step.get('run') is not None:
            loop.run_quiet(step['run'])
            send()
    _settle(loop, peer, send)
    obs['closed'] = bool(ce.transport.closing or ce.transport.lost)
    obs['done_before_close'] = {k: t.done() for k, t in tasks.items()}
    obs['reset_on_wire'] = sorted({e.stream_id for e in peer.take_events() if type(e).__name__ == 'StreamReset'})
    obs['alive_after_settle'] = sorted(ids[k] for k, t in tasks.items() if not t.done())
    loop.run_quiet(60)
    for k, t in tasks.items():
        o = vloop.outcome(t)
        if o[0] == 'pending':
            obs['pending'].append(k)
            obs['outcomes'][k] = 'pending'
        elif o[0] == 'ok':
            obs['outcomes'][k] = 'ok' if o[1] == b'R:' + k.lower().encode() else 'ok-wrong:%r' % (o[1],)
        elif o[0] == 'cancelled':
            obs['outcomes'][k] = 'Cancelled'
        else:
            obs['outcomes'][k] = exc_name(o[1])
    _collect(probe, obs, n_pre)
    if obs['closed'] and not obs['raises']:
        obs['post_close_probe'] = _post_close_probe(probe)


def _run_server(loop, case, obs):
    ids = IDS['server']
    se = wire.ServerEnd(loop, [Service('v.S', {'M': (_handler, 'UU'), 'W': (_parked_handler, 'UU')})])
    loop.run_quiet(1)
    probe = Probe('server', se.proto, se.transport)
    peer = se.peer
    req = P.REQ_HEADERS + [('grpc-timeout', '20S')]
    # with case['park'] the call in flight V is a parked one (it ends with its 20 s deadline at the latest)
    req_v = [(k, '/v.S/W' if (k == ':path' and case.get('park')) else v) for k, v in req]

    def send(cutf=None):
        data = peer.h2.data_to_send()
        if data:
            probe.deliver(data, cutf)

    def say(fn, *a, **kw):
        try:
            fn(*a, **kw)
            return True
        except H2ProtocolError:
            return False
    peer.take_events()
    say(peer.h2.send_headers, ids['F'], req)
    say(peer.h2.send_data, ids['F'], P.grpc_frame(b'f'), end_stream=True)
    send()
    loop.run_quiet(1)
    msg = {'V': P.grpc_frame(b'v'), 'K': P.grpc_frame(b'k')}
    n_pre = len(probe.batches)
    for step in case['steps']:
        if step['op'] == 'inj':
            probe.deliver(_resolve_inj(step), step.get('cutf'))
        else:
            who, what = step['name'].split('.')
            sid = ids[who]
            pad = step.get('pad')
            if what == 'h':
                ok = say(peer.h2.send_headers, sid, req_v if who == 'V' else req)
            elif what == 'd1':
                ok = say(peer.h2.send_data, sid, msg[who][:3], pad_length=pad)
            elif what == 'd2':
                ok = say(peer.h2.send_data, sid, msg[who][3:], end_stream=True, pad_length=pad)
            else:
                ok = say(peer.h2.send_data, sid, msg[who], end_stream=True, pad_length=pad)
            if not ok:
                obs['skipped'].append(step['name'])
            send(step.get('cutf'))
        if step.get('run') is not None:
            loop.run_quiet(step['run'])
            send()
    _settle(loop, peer, send)
    obs['closed'] = bool(se.transport.closing or se.transport.lost)
    # on a server endpoint every task of the loop is a request handler (the harness creates none)
    obs['done_before_close'] = {'handlers': all(t.done() for t in asyncio.all_tasks(loop))}
    # streams the endpoint has reset on the wire (the peer got RST_STREAM) versus handlers still running
    early = peer.take_events()
    obs['reset_on_wire'] = sorted({e.stream_id for e in early if type(e).__name__ == 'StreamReset'})
    obs['alive_after_settle'] = sorted({s for s in (stream_id_of_task(t) for t in asyncio.all_tasks(loop)
                                                   if not t.done()) if s is not None})
    loop.run_quiet(60)
    send()
    loop.run_quiet(1)
    # what the scripted client saw per stream
    seen = {}
    for ev in early + peer.take_events():
        sid = getattr(ev, 'stream_id', None)
        if sid is None:
            continue
        d = seen.setdefault(sid, {'data': b'', 'status': None, 'reset': False, 'ended': False})
        n = type(ev).__name__
        if n == 'DataReceived':
            d['data'] += ev.data
        elif n in ('TrailersReceived', 'ResponseReceived'):
            st = dict(ev.headers).get('grpc-status')
            if st is not None:
                d['status'] = st
        elif n == 'StreamReset':
            d['reset'] = True
        elif n == 'StreamEnded':
            d['ended'] = True
    for k in ('F', 'V', 'K'):
        d = seen.get(ids[k])
        if d is None:
            obs['outcomes'][k] = 'nothing'
        elif d['status'] == '0' and d['data'] == P.grpc_frame(b'R:' + k.lower().encode()) and d['ended']:
            obs['outcomes'][k] = 'ok'
        elif d['status'] is not None:
            obs['outcomes'][k] = 'status:%s' % d['status']
        elif d['reset']:
            obs['outcomes'][k] = 'reset'
        else:
            obs['outcomes'][k] = 'partial'
    for t in asyncio.all_tasks(loop):
        # F, V and K carry a 20 s deadline and must be over by now; a stream the INJECTED frames opened
        # and never fed is legitimately still waiting for its request while the connection lives
        if t.done():
            continue
        sid = probe.task_sid.get(t)
        if sid is None:
            sid = stream_id_of_task(t)
        if sid in (ids['F'], ids['V'], ids['K']) or (sid is None and obs['closed']):
            obs['pending'].append('handler:%s' % sid)
    reg = find_registry(probe.proc)
    obs['leftover'] = sorted(reg) if reg is not MISSING else []
    _collect(probe, obs, n_pre)
    if obs['closed'] and not obs['raises']:
        obs['post_close_probe'] = _post_close_probe(probe)


def _collect(probe, obs, n_pre):
    obs['raises'] = probe.raises
    obs['batches'] = probe.batches
    obs['discipline'] = probe.discipline
    obs['repeated_resets'] = probe.repeated_resets
    obs['undelivered'] = probe.undelivered
    obs['h2err'] = any(b['h2err'] or b['h2raise'] == 'UnicodeDecodeError' for b in probe.batches)
    cls = set()
    for b in probe.batches[n_pre:]:
        for e in b['events'] or []:
            cls.add(type(e).__name__)
    obs['evclasses'] = sorted(cls)


# ---------------------------------------------------------------------------------------------------
# aggregate scenario: MANY rounds of tolerable traffic on one connection at the minimum windows, so that
# anything that is tolerated frame by frame but leaks (a registry entry, flow-control credit) bites

MIN_WINDOWS = {'http2_connection_window_size': 65535, 'http2_stream_window_size': 65535}


def gen_agg_burst(rng, end, mid):
    k = rng.choice(['stream', 'stream', 'raw', 'raw'] + (['pad_only', 'pad_only', 'empty'] if mid else []))
    if k == 'pad_only':
        return {'t': 'pad_only', 'pad': rng.choice([0, 1, 100, 255])}
    if k == 'empty':
        return {'t': 'empty'}
    if k == 'raw':
        kind = rng.choice(['unknown', 'ping', 'priority', 'altsvc', 'settings'])
        if kind == 'unknown':
            data = P.frame_bytes(rng.choice([0x0b, 0x0f, 0x4f, 0xff]), rng.randint(0, 255), 0,
                                 rand_bytes(rng, rng.choice([0, 8, 40])))
        elif kind == 'ping':
            data = P.frame_bytes(0x6, 0, 0, rand_bytes(rng, 8))
        elif kind == 'priority':
            data = P.frame_bytes(0x2, 0, 0x7ffffff1, struct.pack('>IB', 0, rng.randint(0, 255)))
        elif kind == 'altsvc':
            data = P.frame_bytes(0x0a, 0, 0, struct.pack('>H', 1) + b'x' + b'h2=":1"')
        else:
            data = P.frame_bytes(0x4, 0, 0, struct.pack('>HI', 0x99, rng.randint(0, 9)))
        return {'t': 'raw', 'hex': data.hex(), 'd': kind}
    if end == 'client':
        # a stream the server peer opens towards the client, with DATA, all in ONE read; refused
        return {'t': 'peer_stream', 'n': rng.choice([0, 100, 4000, 12000, 16000]),
                'pad': rng.choice([None, None, 0, 50, 255]), 'es': rng.random() < 0.3,
                'rst': rng.random() < 0.7, 'rst_code': rng.choice([0, 8])}
    # a request the server finishes at once (unknown method) while its body is already on the wire
    return {'t': 'early_reject', 'n': rng.choice([0, 100, 4000, 12000]), 'frames': rng.choice([1, 2, 4]),
            'pad': rng.choice([None, 0, 50, 255])}


def gen_agg_case(rng, end):
    rounds = []
    for _ in range(rng.choice([20, 28, 36])):
        bursts = []
        for _ in range(rng.choice([0, 1, 1, 2, 3])):
            at = rng.choice(['before', 'mid', 'after'])
            b = gen_agg_burst(rng, end, at == 'mid')
            b['at'] = at
            bursts.append(b)
        rounds.append({'size': rng.choice([5, 200, 3000, 12000]), 'frames': rng.choice([1, 2, 4, 8, 12]),
                       'pad': rng.choice([255, 255, 255, 100, 0, None]), 'bursts': bursts,
                       'cutf': [round(rng.random(), 4) for _ in range(rng.choice([0, 0, 1, 3]))]})
    return {'kind': 'agg', 'end': end, 'rounds': rounds, 'final': rng.choice([70000, 100000, 150000])}


class _OwnStreamsOnly:
    """the scripted server peer's real h2 did not open the even streams the script injects by hand, so it
    must not see what the client answers on them (it would call that a protocol error of the client)"""

    def __init__(self, sink):
        self.sink = sink
        self.buf = b''
        self.dropped = []

    def __call__(self, data):
        self.buf += data
        out = b''
        while len(self.buf) >= 9:
            n = int.from_bytes(self.buf[:3], 'big')
            if len(self.buf) < 9 + n:
                break
            frame, self.buf = self.buf[:9 + n], self.buf[9 + n:]
            sid = int.from_bytes(frame[5:9], 'big') & 0x7fffffff
            if sid and sid % 2 == 0:
                self.dropped.append((frame[3], sid))
            else:
                out += frame
        if out:
            self.sink(out)


async def _len_handler(stream):
    msg = await stream.recv_message()
    await stream.send_message(b'R:%d' % len(msg or b''))


def _pieces(data, k):
    if not data:
        return [b'']
    k = max(1, min(k, len(data)))
    step = (len(data) + k - 1) // k
    return [data[i:i + step] for i in range(0, len(data), step)]


def _run_agg(loop, case, obs):
    from grpclib.client import UnaryUnaryMethod
    from grpclib.config import Configuration
    end = case['end']
    cfg = Configuration(**MIN_WINDOWS)
    agg = {'rounds_ok': 0, 'round_failures': [], 'stalled': None, 'registry': [], 'ledger_bad': {},
           'final': None, 'refused': 0, 'received': 0, 'credited': 0}
    obs['agg'] = agg
    if end == 'client':
        ep = wire.ClientEnd(loop, config=cfg)
        m = UnaryUnaryMethod(ep.channel, '/v.S/L', bytes, bytes)
        warm = loop.create_task(m(b'w', timeout=30))
        loop.run_quiet(0.5)
        filt = _OwnStreamsOnly(ep.peer.receive)
        ep.transport.on_write = filt
    else:
        ep = wire.ServerEnd(loop, [Service('v.S', {'L': (_len_handler, 'UU')})], config=cfg)
        loop.run_quiet(0.5)
    probe = Probe(end, ep.proto, ep.transport)
    peer = ep.peer
    def req_for(path):
        return [(k, path if k == ':path' else v) for k, v in P.REQ_HEADERS] + [('grpc-timeout', '30S')]
    state = {'even': 2}

    def send(cutf=None):
        data = peer.h2.data_to_send()
        if data:
            probe.deliver(data, cutf)

    def alive():
        return not (ep.transport.closing or ep.transport.lost)

    def send_data(sid, data, pad=None, end_stream=False):
        """what a well-behaved peer does: wait for flow-control credit, never exceed it"""
        need = len(data) + (pad + 1 if pad is not None else 0)
        for _ in range(6):
            if not alive():
                return False
            try:
                if peer.h2.local_flow_control_window(sid) >= need:
                    peer.h2.send_data(sid, data, end_stream=end_stream, pad_length=pad)
                    return True
            except H2ProtocolError:
                return False
            send()
            loop.run_quiet(0.2)
        return None          # stalled: no credit although the endpoint had time to return it

    def burst(b, sid):
        if b['t'] == 'raw':
            probe.deliver(bytes.fromhex(b['hex']))
        elif b['t'] == 'pad_only':
            if sid is not None:
                return send_data(sid, b'', pad=b['pad'])
        elif b['t'] == 'empty':
            if sid is not None:
                return send_data(sid, b'')
        elif b['t'] == 'peer_stream':
            n2 = state['even']
            state['even'] += 2
            fc = b['n'] + (b['pad'] + 1 if b['pad'] is not None else 0)
            send()
            for _ in range(6):
                if peer.h2.outbound_flow_control_window >= fc:
                    break
                loop.run_quiet(0.2)
                send()
            else:
                return None
            peer.h2.outbound_flow_control_window -= fc      # the script's DATA uses the peer's connection credit
            data = headers_frame(n2, P.REQ_HEADERS)
            if b['n'] or b['pad'] is not None:
                data += P.data_frame(n2, b'p' * b['n'], end_stream=b['es'], pad=b['pad'])
            if b['rst']:
                data += P.frame_bytes(0x3, 0, n2, struct.pack('>I', b['rst_code']))
            probe.deliver(data)                              # ONE read
            agg['refused'] += 1
        elif b['t'] == 'early_reject':
            try:
                s2 = peer.h2.get_next_available_stream_id()
                peer.h2.send_headers(s2, req_for('/v.S/Nope'), end_stream=(b['n'] == 0 and b['pad'] is None))
            except H2ProtocolError:
                return False
            if b['n'] or b['pad'] is not None:
                parts = _pieces(b'n' * b['n'], b['frames']) or [b'']
                for i, part in enumerate(parts):
                    r = send_data(s2, part, pad=b['pad'], end_stream=(i == len(parts) - 1))
                    if r is not True:
                        return r
            send()                                           # ONE read: headers and body before the handler runs
        return True

    def run_bursts(rd, at, sid):
        for b in rd['bursts']:
            if b['at'] == at and agg['stalled'] is None:
                if burst(b, sid) is None:
                    agg['stalled'] = 'burst %s' % b['t']

    def one_call(size, frames, pad, rd, idx):
        """one well-behaved unary call; returns None (ok) or a description of what went wrong"""
        body = b'q' * size
        if end == 'client':
            task = loop.create_task(m(b'x', timeout=30))
            loop.run_quiet(0.2)
            rr = [e for e in peer.take_events() if type(e).__name__ == 'RequestReceived']
            if not rr:
                return 'request never reached the peer'
            sid = rr[-1].stream_id
            if rd:
                run_bursts(rd, 'before', None)
            try:
                peer.h2.send_headers(sid, P.RESP_HEADERS)
            except H2ProtocolError:
                return 'peer could not answer'
            parts = _pieces(P.grpc_frame(body), frames)
            for i, part in enumerate(parts):
                if rd and i == len(parts) // 2:
                    run_bursts(rd, 'mid', sid)
                r = send_data(sid, part, pad=pad)
                if r is None:
                    agg['stalled'] = 'call %s' % idx
                    return 'stalled'
                if r is False:
                    return 'peer could not send'
            try:
                peer.h2.send_headers(sid, [('grpc-status', '0')], end_stream=True)
            except H2ProtocolError:
                return 'peer could not finish'
            send(rd['cutf'] if rd else None)
            if rd:
                run_bursts(rd, 'after', None)
            loop.run_quiet(0.3)
            send()
            loop.run_quiet(0.3)
            o = vloop.outcome(task)
            if o[0] == 'ok' and o[1] == body:
                return None
            return 'call ended with %s' % (o[0] if o[0] != 'exc' else exc_name(o[1]))
        # server endpoint
        if rd:
            run_bursts(rd, 'before', None)
        try:
            sid = peer.h2.get_next_available_stream_id()
            peer.h2.send_headers(sid, req_for('/v.S/L'))
        except H2ProtocolError:
            return 'peer could not open a stream'
        parts = _pieces(P.grpc_frame(body), frames)
        for i, part in enumerate(parts):
            if rd and i == len(parts) // 2:
                run_bursts(rd, 'mid', sid)
            r = send_data(sid, part, pad=pad, end_stream=(i == len(parts) - 1))
            if r is None:
                agg['stalled'] = 'call %s' % idx
                return 'stalled'
            if r is False:
                return 'peer could not send'
        send(rd['cutf'] if rd else None)
        if rd:
            run_bursts(rd, 'after', None)
        loop.run_quiet(0.6)
        send()
        loop.run_quiet(0.3)
        got = {'data': b'', 'status': None}
        for ev in peer.take_events():
            if getattr(ev, 'stream_id', None) != sid:
                continue
            if type(ev).__name__ == 'DataReceived':
                got['data'] += ev.data
            elif type(ev).__name__ in ('TrailersReceived', 'ResponseReceived'):
                got['status'] = dict(ev.headers).get('grpc-status', got['status'])
        if got['status'] == '0' and got['data'] == P.grpc_frame(b'R:%d' % size):
            return None
        return 'call answered with status %s' % got['status']

    if end == 'client':
        # finish the warm-up call that opened the connection
        rr = [e for e in peer.take_events() if type(e).__name__ == 'RequestReceived']
        if rr:
            peer.h2.send_headers(rr[-1].stream_id, P.RESP_HEADERS)
            peer.h2.send_data(rr[-1].stream_id, P.grpc_frame(b'w'))
            peer.h2.send_headers(rr[-1].stream_id, [('grpc-status', '0')], end_stream=True)
            send()
            loop.run_quiet(0.3)
        del warm
    n_pre = len(probe.batches)
    for idx, rd in enumerate(case['rounds']):
        if agg['stalled'] is not None or not alive():
            break
        bad = one_call(rd['size'], rd['frames'], rd['pad'], rd, idx)
        if bad is None:
            agg['rounds_ok'] += 1
        else:
            agg['round_failures'].append((idx, bad))
            if len(agg['round_failures']) > 3:
                break
    send()
    loop.run_quiet(1.0)
    send()
    loop.run_quiet(35)            # every deadline (30 s) is over: all calls and handlers are done
    send()
    # (a) who is still registered although no call is alive
    reg = find_registry(probe.proc)
    agg['registry'] = sorted(reg) if reg is not MISSING else []
    agg['registry_observable'] = reg is not MISSING
    # (b) ledger at the h2 API boundary: flow-controlled bytes handed to grpclib vs bytes it credited back
    for sid, got in sorted(probe.fc_received.items()):
        cr = probe.fc_credited.get(sid, 0)
        agg['received'] += got
        agg['credited'] += cr
        if cr != got:
            agg['ledger_bad'][sid] = (got, cr)
    # (c) a well-behaved call with a payload larger than any window still completes
    if alive() and agg['stalled'] is None:
        bad = one_call(case['final'], max(1, case['final'] // 8000), None, None, 'final')
        agg['final'] = 'ok' if bad is None else bad
    obs['closed'] = not alive()
    if end == 'server':
        for tk in asyncio.all_tasks(loop):
            if not tk.done():
                obs['pending'].append('handler')
    _collect(probe, obs, n_pre)
    obs['outcomes'] = {'rounds_ok': str(agg['rounds_ok']), 'final': str(agg['final'])}


def oracle_agg(case, obs):
    end, agg = obs['end'], obs['agg']
    out = []
    for r in obs['raises']:
        out.append(('%s raised out of H2Protocol.data_received (%s)' % (r['exc'], r['text']),
                    {'kind': 'raise', 'exc': r['exc'], 'end': end, 'via': r['via']}))
    if obs['raises']:
        return out
    if obs['closed'] or obs['h2err']:
        out.append(('connection shut down during a long run of tolerable traffic',
                    {'kind': 'agg-closed', 'end': end, 'h2err': obs['h2err']}))
        return out
    if agg['stalled'] is not None:
        out.append(('a well-behaved peer ran out of flow-control credit (%s) although every byte it sent was '
                    'consumed or belonged to a finished stream' % agg['stalled'],
                    {'kind': 'agg-stalled', 'end': end}))
    for idx, bad in agg['round_failures'][:1]:
        if bad != 'stalled':
            out.append(('well-behaved call %s of a long tolerable run: %s' % (idx, bad),
                        {'kind': 'agg-call-broken', 'end': end}))
    if agg['registry']:
        out.append(('streams %r are still registered although every call is over' % agg['registry'],
                    {'kind': 'agg-registry-leak', 'end': end}))
    if agg['ledger_bad']:
        sid, (got, cr) = sorted(agg['ledger_bad'].items())[0]
        out.append(('flow-control credit not returned: stream %d received %d flow-controlled bytes, %d credited '
                    '(%d streams differ; total %d received, %d credited)' % (
                        sid, got, cr, len(agg['ledger_bad']), agg['received'], agg['credited']),
                    {'kind': 'agg-credit-leak', 'end': end, 'sign': 'under' if cr < got else 'over'}))
    if agg['final'] not in (None, 'ok'):
        out.append(('final call with a %d byte payload after the tolerable run: %s' % (case['final'], agg['final']),
                    {'kind': 'agg-final-call', 'end': end}))
    for k in obs['pending']:
        out.append(('%s still pending after every deadline' % k, {'kind': 'hang', 'end': end, 'closed': False}))
    return out


def _account_agg(res, case, obs):
    agg = obs['agg']
    res.count('agg:end:' + obs['end'])
    res.count('agg:rounds', len(case['rounds']))
    res.count('agg:calls ok', agg['rounds_ok'])
    res.count('agg:peer-opened streams refused', agg['refused'])
    res.count('agg:flow-controlled bytes received', agg['received'])
    res.count('agg:flow-controlled bytes credited', agg['credited'])
    res.count('agg:final call:' + str(agg['final']))
    res.signatures.add(('agg', obs['end'], len(case['rounds']), agg['rounds_ok'], agg['final']))
    if sum(1 for s in res.samples if isinstance(s, dict) and s.get('kind') == 'agg') < 1:
        res.sample({'kind': 'agg', 'end': obs['end'], 'rounds': len(case['rounds']),
                    'first_round': case['rounds'][0], 'final': case['final'],
                    'ledger': (agg['received'], agg['credited'])}, limit=8)
    for what, sig in oracle_agg(case, obs):
        res.oracle_failures.append({'case': slim(case), 'what': what, 'signature': sig,
                                    'observed': {'agg': {k: v for k, v in agg.items() if k != 'ledger_bad'},
                                                 'ledger_bad': dict(list(agg['ledger_bad'].items())[:5]),
                                                 'closed': obs['closed'], 'raises': obs['raises']}})
    for d in obs['discipline']:
        res.disagreements.append({'case': slim(case), 'model': 'event_wf / fresh request ids assumed of h2',
                                  'impl': d})


# ---------------------------------------------------------------------------------------------------
# direct oracle: the property statement, on observables only (no model)

def oracle(case, obs):
    """-> list of (what, signature)"""
    end = obs['end']
    out = []
    # 1. whatever bytes or frames a peer sends, processing them never raises out of the input path
    for r in obs['raises']:
        out.append(('%s raised out of H2Protocol.data_received (%s)' % (r['exc'], r['text']),
                    {'kind': 'raise', 'exc': r['exc'], 'end': end, 'via': r['via']}))
    # 2. no call is left hanging, whatever was sent (all calls carry a 20 s deadline)
    for k in obs['pending']:
        out.append(('call %s still pending at quiescence' % k,
                    {'kind': 'hang', 'end': end, 'closed': obs['closed']}))
    if obs['raises']:
        return out          # the connection was killed by the exception; the rest would be derivative
    # 2'. no call outlives its stream: once the endpoint has reset a stream on the wire (because the peer
    #     violated the protocol on it, or for any other reason) the call that owns it is over within 1 s
    for sid in sorted(set(obs.get('reset_on_wire') or []) & set(obs.get('alive_after_settle') or [])):
        out.append(('the endpoint sent RST_STREAM for stream %d but the call that owns it is still running 1 s later'
                    % sid, {'kind': 'call-outlives-reset-stream', 'end': end}))
    ok_after_close = ('ok', 'StreamTerminated') if end == 'client' else None
    if obs['closed']:
        # 3. violation / GOAWAY => orderly shutdown: every pending call is terminated, promptly
        if end == 'client':
            for k, done in obs['done_before_close'].items():
                if not done:
                    out.append(('call %s not terminated within 1 s of the shutdown' % k,
                                {'kind': 'not-terminated', 'end': end}))
            for k, o in obs['outcomes'].items():
                if k == 'V':
                    continue        # V was fed the injected frames; how it ends is C02's business
                if not (o in ok_after_close or o.startswith('GRPCError:')):
                    out.append(('call %s ended with %s after the shutdown' % (k, o),
                                {'kind': 'bad-termination', 'end': end, 'outcome': o.split(':')[0]}))
        else:
            if not obs['done_before_close'].get('handlers'):
                out.append(('handler tasks not finished within 1 s of the shutdown',
                            {'kind': 'not-terminated', 'end': end}))
            if obs['leftover']:
                out.append(('streams %r still registered after the shutdown' % obs['leftover'],
                            {'kind': 'leftover', 'end': end}))
    tol = case_tol(case)
    if tol:
        # 4. frames HTTP/2 requires an endpoint to ignore or tolerate leave the connection and its
        #    calls working
        if obs['closed'] or obs['h2err']:
            out.append(('connection shut down although only tolerable frames were injected',
                        {'kind': 'tolerable-closed', 'end': end, 'h2err': obs['h2err']}))
        else:
            for k in ('F', 'V', 'K'):
                want = 'status:4' if (k == 'V' and end == 'server' and case.get('park')) else 'ok'
                if obs['outcomes'].get(k) != want:
                    out.append(('call %s ended with %s although only tolerable frames were injected'
                                % (k, obs['outcomes'].get(k)),
                                {'kind': 'tolerable-broke-call', 'end': end, 'call': k,
                                 'outcome': str(obs['outcomes'].get(k)).split(':')[0]}))
    elif not obs['closed'] and case_framed(case):
        # 5. the well-behaved concurrent call (never addressed by a non-tolerable frame) and the
        #    finished call are unaffected as long as the connection lives (and the peer did not
        #    desynchronise its own framing with bytes that are not frames)
        for k in ('F', 'K'):
            if obs['outcomes'].get(k) != 'ok':
                out.append(('concurrent call %s ended with %s on a connection that stayed open'
                            % (k, obs['outcomes'].get(k)),
                            {'kind': 'innocent-call-broken', 'end': end, 'call': k,
                             'outcome': str(obs['outcomes'].get(k)).split(':')[0]}))
    return out


# ---------------------------------------------------------------------------------------------------
# correspondence of every observed data_received call with the model

def slim(case):
    if case.get('kind') == 'agg':
        return {k: v for k, v in case.items() if k != 'note'}
    out = {'end': case['end'], 'steps': case['steps']}
    if case.get('park'):
        out['park'] = True
    return out


def _queue_batches(res, case, obs, lines, refs):
    for bi, b in enumerate(obs['batches']):
        if b['pre'].get('blind') or b['post'].get('blind'):
            # the registry / h2's verdict could not be located: this call is judged by the oracle only
            res.count('correspondence degraded: state not observable')
            continue
        if b['h2raise'] and not (b['h2raise'] == 'UnicodeDecodeError' and b['raised'] is None):
            # h2 raised something that is neither a ProtocolError nor the UnicodeDecodeError that
            # data_received handles: below the model, judged by the oracle only
            res.count('batch:raise-below-the-model:' + b['h2raise'])
            continue
        if b['h2raise']:
            res.count('batch:h2-UnicodeDecodeError-handled')
        if obs['end'] == 'client' and b['raised'] is None:
            nreq = sum(1 for e in b['events'] or [] if type(e).__name__ == 'RequestReceived')
            if nreq:
                res.count('client:peer-opened stream refused with RST_STREAM', len(b['rst']))
                res.count('client:peer-opened stream refused silently (not closable)', nreq - len(b['rst']))
        lines.append(model_line(b))
        refs.append((case, obs, bi, b))


def check(ctx, res, cases):
    check_pinned()
    lines, refs = [], []
    all_obs = []
    for case in cases:
        obs = run_case(case)
        all_obs.append(obs)
        res.evaluations += 1
        if case.get('kind') == 'agg':
            _account_agg(res, case, obs)
            _queue_batches(res, case, obs, lines, refs)
            continue
        tol = case_tol(case)
        res.count('end:' + obs['end'])
        res.count('class:' + ('tolerable-only' if tol else 'mixed'))
        res.count('closed' if obs['closed'] else 'open')
        if obs['h2err']:
            res.count('h2:ProtocolError')
        for c in obs['evclasses']:
            res.count('h2event:' + c)
        for s in case['steps']:
            if s['op'] == 'inj':
                for f in s['frames']:
                    res.count('frames:' + ('tolerable' if f['tol'] else 'other'))
        for k, o in obs['outcomes'].items():
            res.count('outcome:%s:%s:%s' % (obs['end'], k, o.split(':')[0] if o.startswith('ok-wrong') else o))
        if obs['undelivered']:
            res.count('bytes not delivered after transport.close()', obs['undelivered'])
        if obs['post_close_probe'] is not None:
            res.count('probe:post_close_delivery:' + obs['post_close_probe'])
        res.signatures.add((obs['end'], tuple(obs['evclasses']), obs['h2err'], obs['closed'],
                            tuple(sorted(r['exc'] for r in obs['raises']))))
        if len(res.samples) < 6:
            res.sample({'end': case['end'],
                        'steps': [s['name'] if s['op'] == 'x' else [f['d'] for f in s['frames']]
                                  for s in case['steps']],
                        'h2_events': obs['evclasses'], 'closed': obs['closed'], 'outcomes': obs['outcomes']})
        for what, sig in oracle(case, obs):
            res.oracle_failures.append({'case': slim(case), 'what': what, 'signature': sig,
                                        'observed': {'outcomes': obs['outcomes'], 'closed': obs['closed'],
                                                     'raises': obs['raises'], 'h2_events': obs['evclasses']}})
        if obs.get('repeated_resets'):
            res.count('h2: repeated StreamReset for one stream (tolerated)', obs['repeated_resets'])
        for d in obs['discipline']:
            res.disagreements.append({'case': slim(case), 'model': 'event_wf / fresh request ids assumed of h2',
                                      'impl': d})
        _queue_batches(res, case, obs, lines, refs)
    if not ctx.model_ok or not lines:
        return all_obs
    answers = ctx.model(lines)
    for (case, obs, bi, b), ans in zip(refs, answers):
        res.traces += 1
        if ans.startswith('DRIVER-ERROR'):
            res.disagreements.append({'case': slim(case), 'model': ans, 'impl': 'batch %d' % bi})
            continue
        m = parse_model(ans)
        bad = None
        res.count('model:' + ('raises' if 'raises' in m else ('h2-protocol-error' if b['h2err'] else
                                                             'h2-unicode-error' if b['h2raise'] else
                                                             'events:%d' % min(len(b['events'] or []), 5))))
        if not m['inv']:
            bad = ('invariant of the totality theorems (inv_b) false in a real pre-state', m)
        elif not m['wf']:
            bad = ('event_wf false of a real h2 event', m)
        elif 'raises' in m:
            if b['raised'] != m['raises']:
                bad = ('model raises %s' % m['raises'], b['raised'])
        elif b['raised'] is not None:
            bad = ('model does not raise', b['raised'])
        else:
            un = set(b['pre']['unobs']) | set(b['post']['unobs'])
            unr = set(b['pre']['unobs_rec']) | set(b['post']['unobs_rec'])
            ms, ps = masked(m['state'], un, unr), masked(b['post'], un, unr)
            if un or unr:
                res.count('correspondence degraded: fields not observable', 1)
            if ms != ps:
                diff = {k: (ms[k], ps[k]) for k in ps if ms.get(k) != ps[k]}
                bad = ('post-state differs', diff)
            elif m['credit'] != b['credit']:
                bad = ('returned credit differs', (m['credit'], b['credit']))
            elif m['rst'] != b['rst']:
                bad = ('reset_stream calls differ (closable as modelled vs the real h2 state)',
                       (m['rst'], b['rst']))
            elif m['shut'] == '0':
                bad = ('model: closing batch did not shut everything down', m['state'])
        if bad:
            res.disagreements.append({'case': slim(case), 'model': {'what': bad[0], 'detail': bad[1]},
                                      'impl': {'batch': bi, 'events': [type(e).__name__ for e in b['events'] or []],
                                               'h2err': b['h2err'], 'raised': b['raised'], 'pre': b['pre'],
                                               'post': b['post'], 'credit': b['credit'], 'rst': b['rst']}})
    return all_obs


def replay_witnesses(res):
    """the Coq refutation witnesses on the real code.
    (a) the former client witnesses (RequestReceived on a client, alone / followed by GOAWAY or by a
        reset of the stream in the same chunk) no longer raise; they are corpus cases.
    (b) server_witness: a second StreamReset for the same stream -- h2 never emits it, so it is
        injected below h2, straight into the real EventsProcessor; it used to raise KeyError in
        server.Handler.cancel and is tolerated now (pop with a default), as the model says."""
    from h2.events import StreamReset
    with vloop.session() as loop:
        se = wire.ServerEnd(loop, [Service('v.S', {'M': (_handler, 'UU')})])
        loop.run_quiet(1)
        proc = find_parts(se.proto)[0]
        if proc is MISSING or not callable(getattr(proc, 'process', None)):
            res.count('witness:server double StreamReset below h2:not injectable (no EventsProcessor.process)')
            return
        got = []
        try:
            # the stream must exist in h2 for create_stream/handler: open it through the peer
            se.peer.h2.send_headers(1, P.REQ_HEADERS)
            se.peer.flush()
            ev = StreamReset(stream_id=1)
            ev.error_code = 8
            ev.remote_reset = True
            proc.process(ev)
            got.append('first:ok')
            proc.process(ev)
            got.append('second:ok')
        except BaseException as e:       # noqa
            got.append('raise:' + type(e).__name__)
        res.count('witness:server double StreamReset below h2:' + ','.join(got))
        if got != ['first:ok', 'second:ok']:
            res.disagreements.append({'case': {'witness': 'server_witness'},
                                      'model': 'the second StreamReset is tolerated',
                                      'impl': got})


RULE = ('per case: one connection (client or server endpoint) with a finished call F, a call V in flight and '
        'a concurrent call K; the 5-7 pieces of the normal exchange are interleaved (PRNG) with 1-4 injection '
        'points of 1-5 frames each; frames drawn from (a) the classes HTTP/2 says must be ignored/tolerated '
        '(unknown types 0x0b-0xff with any flags on ids {0,V,F,K,idle own/peer parity, 2^31-1/-2}, well-formed '
        'ALTSVC, PRIORITY, PING, PING ack with unknown payload, SETTINGS with unknown ids, empty SETTINGS, 1xx '
        'HEADERS (padded / with priority), WINDOW_UPDATE and RST_STREAM on the finished stream, empty and '
        'padding-only DATA; normal DATA padded 0/3/40) and (b) for half of the cases 1-3 frames of a catalogue '
        'of ~55 plausible-and-wrong frames of every type 0x00-0x0a plus random type/flags/id/length frames and '
        'raw random bytes, plus frame CLASSES with arbitrary legal field values: GOAWAY (any 32-bit error code x '
        'last_stream_id {0, highest seen, below an in-flight stream, 2^31-1} x opaque debug data {none, ASCII, '
        'UTF-8, ill-formed UTF-8, \\xff\\xfe\\x00\\x80..., all 256 byte values}), RST_STREAM with any error code, '
        'PING with opaque bytes, SETTINGS with unknown ids and any values, WINDOW_UPDATE with any legal increment; '
        'all bytes re-cut at 0-9 PRNG points; the loop runs 0/0.1/0.5 s or not at all between '
        'steps.  distinct = distinct (endpoint, set of h2 event classes produced after the prelude, h2 '
        'ProtocolError?, closed?, exception classes) tuples; every data_received call is one model trace.  '
        'AGGREGATE cases (8 quick / 200 thorough + 2 corpus): one connection at the minimum windows '
        '(65535/65535), 20-36 rounds of a well-behaved unary call whose DATA is split in 1-12 frames padded '
        '0/100/255, with 0-3 tolerable bursts per round (padding-only and empty DATA on the open stream, '
        'unknown/PING/PRIORITY/ALTSVC/SETTINGS frames; client: a stream the peer opens with up to 16000 bytes '
        'of padded DATA and RST_STREAM in ONE read; server: a request rejected at once with up to 12000 bytes '
        'of padded body already buffered), the scripted peer never exceeding the credit it was given; then '
        'a ledger at the h2 API boundary and a final call with a 70000-150000 byte payload.')


def run(ctx):
    res = Result()
    res.rule = RULE
    rng = ctx.rng
    cases = [c for c in ctx.corpus() if 'steps' in c]
    n = ctx.n(1200, 40000)
    for i in range(n):
        end = 'client' if i % 2 == 0 else 'server'
        cases.append(gen_case(rng, end, tol_only=(i % 4) < 2))
    cases += [c for c in ctx.corpus() if c.get('kind') == 'agg']
    for i in range(ctx.n(8, 200)):
        cases.append(gen_agg_case(rng, 'client' if i % 2 == 0 else 'server'))
    for c in getattr(ctx, 'hints', None) or []:
        if isinstance(c, dict) and ('steps' in c or c.get('kind') == 'agg'):
            cases.append(c)
    check(ctx, res, cases)
    replay_witnesses(res)
    res.extra['facts_checked'] = ['Gen.Facts.processors: 13 classes -> methods of their names, no entry for '
                                  'UnknownFrameReceived / AlternativeServiceAvailable / '
                                  'InformationalResponseReceived / PushedStreamReceived '
                                  '(C12_source_table, vm_compute); process_spec proved against that table']
    res.extra['theorem_status'] = THEOREM_STATUS
    return res


def replay(ctx, case):
    res = Result()
    res.rule = RULE
    if 'steps' in case or case.get('kind') == 'agg':
        check(ctx, res, [case])
    return res


THEOREM_STATUS = {
    'C12_source_table': 'full', 'C12_source_shape': 'full',
    'C12_endpoint_total': 'full from the event boundary (either endpoint, every history, every event kind; '
                          'only hypothesis: event_wf, checked on every real event)',
    'C12_server_total': 'full (no h2 discipline needed any more)', 'C12_client_total': 'full',
    'C12_batch_total': 'full (any state with inv_b)',
    'C12_late_reset_tolerated': 'full (was C12_server_total_without_h2_discipline_refuted)',
    'C12_closable_reset_cannot_raise': 'full (h2 model: GOAWAY / reset later in the batch = CLOSED)',
    'C12_client_request_refused': 'full',
    'C12_tolerated_ignored': 'full', 'C12_tolerated_anywhere': 'full', 'C12_ping_ack_only_timer': 'full',
    'C12_unregistered_stream_tolerated': 'full', 'C12_protocol_error_shuts_down': 'full',
    'C12_undecodable_headers_shut_down': 'full',
    'C12_connection_lost_shuts_down': 'full', 'C12_closing_batch_shuts_down': 'full',
    'C12_goaway_mid_batch': 'full', 'C12_closed_ignores_all': 'full',
}
