"""C09 implementation-side executor: runs one scripted scenario on the REAL grpclib server objects
(Server, Handler, H2Protocol, EventsProcessor, request_handler, Wrapper) on the virtual-time loop and
returns (effective model ops, snapshots, per-handler records, event log for the direct oracle).

Intents (JSON lists):
  ['start']                         Server.start() stand-in (see AsyncioServerStandIn)
  ['connect', lazy]                 a client connects; lazy=1: transport.close() does not report
                                    connection_lost by itself (asyncio with unflushed write buffer)
  ['open', c, i, beh, dl, prog]     HEADERS for a new stream; beh 'h<n>'|'sw'; dl=0 or k>=1 (the deadline
                                    fires in the middle of the k-th tick after the open); prog over RSWTX (X = trailers with a non-OK status)
  ['msg', c, i] ['credit', c, i] ['rst', c, i] ['goaway', c] ['protoerr', c]     peer frames
  ['batch', c, [intents...]]        peer frames of several intents delivered in ONE data_received
  ['lose', c]                       connection_lost
  ['srvclose'] ['wait'] ['tick'] ['settle']
The loop only runs inside 'settle' and 'tick'.
"""
import asyncio
import math
import struct

from grpclib.server import Server
from grpclib.const import Status
from h2.settings import SettingCodes

from harness import vloop
from harness.peer import Peer, grpc_frame, frame_bytes, REQ_HEADERS
from harness.svc import RawCodec, Service
from harness.wire import MemTransport

PAYLOAD = b'x' * 10
FRAME_LEN = 5 + len(PAYLOAD)


class AsyncioServerStandIn:
    """What grpclib.Server needs from asyncio.base_events.Server, with the Python 3.12.1 semantics of
    wait_closed(): returns once close() was called AND every accepted connection was detached
    (detach happens when the transport calls connection_lost)."""

    def __init__(self, loop):
        self.loop = loop
        self.closed = False
        self.active = 0
        self.waiters = []

    def attach(self):
        self.active += 1

    def detach(self):
        self.active -= 1
        if self.active == 0 and self.closed:
            self._wakeup()

    def _wakeup(self):
        ws, self.waiters = self.waiters, None
        for w in ws or []:
            if not w.done():
                w.set_result(None)

    def close(self):
        if self.closed:
            return
        self.closed = True
        if self.active == 0:
            self._wakeup()

    async def wait_closed(self):
        if self.waiters is None:
            return
        w = self.loop.create_future()
        self.waiters.append(w)
        await w


class Transport(MemTransport):
    def __init__(self, protocol, loop, on_write, lazy, standin):
        super().__init__(protocol, loop, on_write=on_write)
        self.lazy = lazy
        self.standin = standin
        self.on_lost = None
        self.implicit = False

    def close(self):
        if self.closing:
            return
        self.closing = True
        if not self.lazy:
            self.implicit = True         # connection_lost follows by itself, as the next callback of the loop
            self._loop.call_soon(self._call_connection_lost, None)

    def _call_connection_lost(self, exc):
        if not self.lost:
            self.lost = True
            if self.on_lost is not None:
                self.on_lost()
            try:
                self.protocol.connection_lost(exc)
            finally:
                if self.standin is not None:
                    self.standin.detach()


class Rec:
    def __init__(self, c, i, beh, dl, prog):
        self.c, self.i, self.beh, self.dl, self.prog = c, i, beh, dl, prog
        self.sid = None
        self.stream = None       # protocol.Stream
        self.task = None
        self.entered = False
        self.at = 0
        self.phase = 'main'
        self.left = 0
        self.ncancel = 0
        self.nhit = 0
        self.cleanup_done = False
        self.exc = None
        self.returned = False
        self.deliveries = []     # [(scenario clock, 'main'|'cleanup')]
        self.release_calls = 0   # calls of the release_stream callback handed to Handler.accept


class Scenario:
    def __init__(self, loop):
        self.loop = loop
        self.recs = {}           # (c, i) -> Rec
        self.order = []
        self.by_stream = {}      # (id(connection), sid) -> Rec
        self.conns = []          # [(proto, transport, peer)]
        self.standin = None
        self.ops = []            # effective model ops (tokens)
        self.snaps = []
        self.events = []         # for the oracle: (kind, detail, before, after)
        self.pending_lost = []
        self.deadlines = {}      # virtual instant -> [(c, i)]
        self.wait_task = None
        self.wait_log = []       # [(all handlers finished?, wait task done?)] at every snapshot
        self.crashed = set()
        self.errors = []
        self.serr = False
        self.teardown = False
        self.clock = 0
        self.causes = []         # [(clock, kind, {handler key: phase when the cause happened})]
        self.by_task = {}        # handler task -> Rec
        self.same_read = False   # micro scenario: a wake-up was queued before the GOAWAY of the same read
        # private containers of grpclib located by ROLE, never by name (None = not found so far):
        #   'tasks'      per Handler: the mapping whose values are handler tasks          (Handler._tasks)
        #   'cancelled'  per Handler: the non-mapping collection of handler tasks         (Handler._cancelled)
        #   'handlers'   of the Server: the collection holding the per-connection Handler  (Server._handlers)
        self.roles = {'tasks': None, 'cancelled': None, 'handlers': None}
        self.ambiguous = set()
        self.server = Server([Service('v.S', {'M': (self._handler, 'SS')})], codec=RawCodec())

    # ---- the instrumented user handler ------------------------------------------------------------
    async def _sleep_to_tick(self):
        now = self.loop.time()
        await asyncio.sleep(math.floor(now) + 1 - now)

    async def _await(self, stream, kind):
        if kind == 'R':
            await stream.recv_message()
        elif kind == 'S':
            await self._sleep_to_tick()
        elif kind == 'W':
            await stream.send_message(PAYLOAD)
        elif kind == 'T':
            await stream.send_trailing_metadata()
        elif kind == 'X':
            # non-OK trailers: the server closes the HTTP/2 stream itself (RST_STREAM) and the handler goes on
            await stream.send_trailing_metadata(status=Status.ABORTED)
        else:
            raise ValueError(kind)

    async def _handler(self, stream):
        rec = self.by_task[asyncio.current_task()]
        rec.entered = True
        k = 0
        try:
            while k < len(rec.prog):
                rec.at = k
                try:
                    await self._await(stream, rec.prog[k])
                except asyncio.CancelledError:
                    if self.teardown:
                        raise
                    rec.ncancel += 1
                    rec.deliveries.append((self.clock, 'main'))
                    if rec.beh == 'sw':
                        k += 1
                        continue
                    n = int(rec.beh[1:])
                    rec.phase = 'cleanup'
                    try:
                        while n > 0:
                            rec.left = n
                            await self._sleep_to_tick()
                            n -= 1
                        rec.cleanup_done = True
                    except asyncio.CancelledError:
                        if not self.teardown:
                            rec.ncancel += 1
                            rec.nhit += 1
                            rec.deliveries.append((self.clock, 'cleanup'))
                        raise
                    raise
                k += 1
            rec.returned = True
        except asyncio.CancelledError:
            raise
        except BaseException as e:
            rec.exc = type(e).__name__
            raise

    def cause(self, kind, scope, implicit=False):
        """record a cancellation cause and the unfinished handlers in its scope (for the oracle)"""
        self.clock += 1
        aff = {}
        for rec in self.order:
            if rec.task is not None and rec.task.done():
                continue
            if rec.task is None and rec.stream is not None:
                continue
            if scope[0] == 'stream' and (rec.c, rec.i) != (scope[1], scope[2]):
                continue
            if scope[0] == 'conn' and rec.c != scope[1]:
                continue
            aff['%d.%d' % (rec.c, rec.i)] = self._phase(rec) if rec.task is not None else 'C'
        self.causes.append((self.clock, kind, aff, bool(implicit) and not self.same_read))

    def _spy(self, proto):
        """Learn, at the AbstractHandler.accept interface (instance-level wrapper, /repo untouched), which
        task serves which stream (the task that exists after the call and did not before -- asyncio's public
        all_tasks) and when the release_stream callback handed to the handler is called."""
        handler, orig = proto.handler, proto.handler.accept

        def accept(stream, headers, release_stream):
            rec = self.by_stream.get((id(proto.connection), stream.id))

            def release():
                if rec is not None:
                    rec.release_calls += 1
                return release_stream()
            before = asyncio.all_tasks(self.loop)
            orig(stream, headers, release)
            new = [t for t in asyncio.all_tasks(self.loop) if t not in before]
            if rec is not None:
                rec.stream = stream
                rec.task = new[0] if len(new) == 1 else None
                if rec.task is not None:
                    self.by_task[rec.task] = rec
                else:
                    self.errors.append(('accept', rec.c, 'created %d tasks' % len(new)))
        handler.accept = accept

    # ---- private state, by role ---------------------------------------------------------------------
    def _discover(self):
        """find the role attributes once they hold something that identifies them"""
        tasks = set(self.by_task)
        handlers = [proto.handler for proto, _, _ in self.conns]
        for h in handlers:
            for name, val in list(vars(h).items()):
                try:
                    if isinstance(val, dict):
                        if any(v in tasks for v in val.values()):
                            self._role('tasks', name)
                    elif isinstance(val, (set, frozenset, list, tuple)):
                        if any(v in tasks for v in val):
                            self._role('cancelled', name)
                except TypeError:
                    pass
        for name, val in list(vars(self.server).items()):
            try:
                if isinstance(val, (set, frozenset, list, tuple, dict)) and any(h in val for h in handlers):
                    self._role('handlers', name)
            except TypeError:
                pass

    def _role(self, role, name):
        if self.roles[role] is None:
            self.roles[role] = name
        elif self.roles[role] != name:
            self.ambiguous.add(role)        # two candidates: do not guess, the observation is dropped

    def _container(self, obj, role):
        name = self.roles[role]
        if name is None or role in self.ambiguous:
            return ()
        val = getattr(obj, name, ())
        return val if val is not None else ()

    def available(self):
        """which internal observations this scenario can vouch for (the others are masked in the comparison)"""
        return {r: (self.roles[r] is not None and r not in self.ambiguous) for r in self.roles}

    # ---- execution of intents ---------------------------------------------------------------------
    def _peer_ok(self, c):
        if c >= len(self.conns):
            return False
        _, tr, _ = self.conns[c]
        return not (tr.closing or tr.lost)

    def _frames(self, it):
        """queue the peer frames of one intent (no flush); returns the effective op tokens or None"""
        kind = it[0]
        c = it[1]
        if not self._peer_ok(c):
            return None
        proto, tr, peer = self.conns[c]
        try:
            if kind == 'open':
                _, c, i, beh, dl, prog = it
                if (c, i) in self.recs:
                    return None
                sid = peer.next_stream_id()
                hs = list(REQ_HEADERS)
                if dl:
                    hs.append(('grpc-timeout', '%dm' % (dl * 1000 - 500)))
                peer.h2.send_headers(sid, hs)
                rec = Rec(c, i, beh, dl, prog)
                rec.sid = sid
                self.recs[(c, i)] = rec
                self.order.append(rec)
                self.by_stream[(id(proto.connection), sid)] = rec
                if dl:
                    self.deadlines.setdefault(self.loop.time() + dl - 0.5, []).append((c, i))
                return ['op', str(c), str(i), beh, '1' if dl else '0', prog or '-']
            rec = self.recs.get((c, it[2])) if len(it) > 2 else None
            if kind == 'msg':
                if rec is None or rec.beh == 'sw':
                    # handlers that swallow cancellation never get a message: reading one after the
                    # connection was closed is outside this model (see ASSUMPTIONS in drive_C09)
                    return None
                peer.h2.send_data(rec.sid, grpc_frame(b'abc'))
                return ['m', str(c), str(rec.i)]
            if kind == 'credit':
                if rec is None:
                    return None
                peer.h2.increment_flow_control_window(FRAME_LEN, stream_id=rec.sid)
                return ['cr', str(c), str(rec.i)]
            if kind == 'rst':
                if rec is None:
                    return None
                peer.h2.reset_stream(rec.sid, error_code=8)
                self.cause('rst', ('stream', c, rec.i))
                return ['rs', str(c), str(rec.i)]
            if kind == 'goaway':
                peer.h2.close_connection()
                self.cause('goaway', ('conn', c))
                return ['ga', str(c)]
        except Exception:
            return None          # the peer's own h2 refuses (stream closed on its side ...): nothing is sent
        raise ValueError(it)

    def _flush(self, c):
        proto, tr, peer = self.conns[c]
        try:
            peer.flush()
        except BaseException as e:                      # an exception escaped H2Protocol.data_received
            self.crashed.add(c)
            self.errors.append(('data_received', c, type(e).__name__))
            # asyncio: _fatal_error -> the transport is force-closed -> connection_lost(exc)
            tr.closing = True
            tr._call_connection_lost(e)
            self.ops += ['lo', str(c)]

    def _note_close(self, c):
        _, tr, _ = self.conns[c]
        if tr.closing and not tr.lost and not tr.lazy and c not in self.pending_lost:
            self.pending_lost.append(c)

    def do(self, it):
        kind = it[0]
        before = self.view()
        nops = len([t for t in self.ops if t != 'se'])
        if kind == 'start':
            if self.standin is None:
                self.standin = AsyncioServerStandIn(self.loop)
                self.factory = start_server(self.loop, self.server, self.standin)
                self.ops.append('st')
        elif kind == 'connect':
            if self.standin is not None and not self.standin.closed:
                proto = self.factory()
                peer = Peer(client_side=True, auto_ack=False, settings={SettingCodes.INITIAL_WINDOW_SIZE: 0})
                tr = Transport(proto, self.loop, peer.receive, bool(it[1]), self.standin)
                tr.on_lost = (lambda c=len(self.conns), tr=tr: self.cause('lost', ('conn', c), tr.implicit))
                peer.attach(tr)
                peer.start()
                self.standin.attach()
                proto.connection_made(tr)
                self._spy(proto)
                peer.flush()
                self.conns.append((proto, tr, peer))
                self.ops.append('cn')
        elif kind in ('open', 'msg', 'credit', 'rst', 'goaway'):
            if kind == 'goaway' and self._peer_ok(it[1]) and not self.conns[it[1]][1].lazy:
                self.settle()       # connection_lost must be the next callback of the loop
                before = self.view()
            toks = self._frames(it)
            if toks is not None:
                self.ops += toks
                self._flush(it[1])
                self._note_close(it[1])
        elif kind == 'batch':
            c, subs = it[1], it[2]
            if any(s[0] == 'goaway' for s in subs) and self._peer_ok(c) and not self.conns[c][1].lazy:
                self.settle()
                before = self.view()
            sent = False
            for s in subs:
                toks = self._frames(s)
                if toks is not None:
                    self.ops += toks
                    sent = True
            if sent:
                self._flush(c)
                self._note_close(c)
        elif kind == 'protoerr':
            c = it[1]
            if self._peer_ok(c):
                if not self.conns[c][1].lazy:
                    self.settle()
                    before = self.view()
                self.ops += ['ga', str(c)]
                self.cause('protoerr', ('conn', c))
                try:
                    # a DATA frame on stream 0 is a connection error for h2
                    self.conns[c][2].raw(frame_bytes(0x0, 0, 0, b'zz'))
                except BaseException as e:
                    self.crashed.add(c)
                    self.errors.append(('data_received', c, type(e).__name__))
                self._note_close(c)
        elif kind == 'lose':
            c = it[1]
            if c < len(self.conns) and not self.conns[c][1].lost:
                if c in self.pending_lost:
                    self.pending_lost.remove(c)
                self.conns[c][1].lose()
                self.ops += ['lo', str(c)]
        elif kind == 'srvclose':
            if self.standin is not None:
                self.cause('srvclose', ('all',))
            try:
                self.server.close()
            except RuntimeError:
                self.serr = True
            self.ops.append('sc')
        elif kind == 'wait':
            if self.wait_task is None:
                self.wait_task = self.loop.create_task(self.server.wait_closed())
                self.ops.append('wc')
        elif kind == 'settle':
            self.settle()
        elif kind == 'tick':
            self.settle()
            t = self.loop.time()
            due = self.deadlines.pop(t + 0.5, [])
            it = ['tick', ['%d.%d' % d for d in due]]
            for d in due:
                self.cause('deadline', ('stream', d[0], d[1]))
            self.loop.run_until(t + 0.5)
            for (c, i) in due:
                self.ops += ['dl', str(c), str(i)]
            self._snap()
            self.loop.run_until(t + 1.0)
            self.ops.append('tk')
            self._snap()
        else:
            raise ValueError(it)
        effective = len([t for t in self.ops if t != 'se']) > nops
        self.events.append((it, effective, before, self.view()))

    def settle(self):
        for c in self.pending_lost:
            self.ops += ['lo', str(c)]
        self.pending_lost = []
        self.loop.run_quiet(0.0)
        self._snap()

    # ---- observation ------------------------------------------------------------------------------
    def _phase(self, rec):
        if rec.task is not None and rec.task.done():
            return 'F'
        if rec.task is None:
            return 'F' if rec.stream is None else 'C'
        if not rec.entered:
            return 'C'
        if rec.phase == 'cleanup':
            return 'K%d' % rec.left
        return 'R%d' % (len(rec.prog) - rec.at - 1)

    def _flags(self, rec):
        proto = self.conns[rec.c][0]
        streams = getattr(getattr(proto, 'processor', None), 'streams', None)
        if isinstance(streams, dict):
            reg = rec.sid in streams
        else:                                   # registry not visible: what the handler side did
            reg = rec.stream is not None and rec.release_calls == 0
        h = proto.handler
        tasks = self._container(h, 'tasks')
        it = rec.task is not None and isinstance(tasks, dict) and any(t is rec.task for t in tasks.values())
        ic = rec.task is not None and any(t is rec.task for t in self._container(h, 'cancelled'))
        return reg, it, ic

    def view(self):
        """{(c,i): (phase, ncancel, nhit, cleanup_done, registered)} -- for the oracle"""
        out = {}
        for rec in self.order:
            if rec.stream is None and rec.task is None:
                continue
            reg, _, _ = self._flags(rec)
            out['%d.%d' % (rec.c, rec.i)] = (self._phase(rec), rec.ncancel, rec.nhit, rec.cleanup_done, reg,
                                            rec.entered, rec.exc)
        return out

    def wait_state(self):
        if self.wait_task is None:
            return 'none'
        if self.wait_task.done():
            return 'err' if (not self.wait_task.cancelled() and self.wait_task.exception()) else 'done'
        return 'pending'

    def _snap(self):
        self._discover()
        parts = []
        for rec in self.order:
            if rec.stream is None and rec.task is None:
                continue          # the open never reached the server
            reg, it, ic = self._flags(rec)
            wr = getattr(rec.stream, 'wrapper', None)
            w = wr is not None and getattr(wr, 'cancelled', None) is True     # public flag set by Wrapper.cancel
            parts.append('%d.%d:%s:%d:%d:%d:%d:%d:%d:%d' % (rec.c, rec.i, self._phase(rec), rec.ncancel, rec.nhit,
                                                           rec.cleanup_done, reg, it, ic, w))
        self.ops.append('se')
        allfin = all(r.task is None or r.task.done() for r in self.order)
        alllost = all(tr.lost for _, tr, _ in self.conns)
        self.wait_log.append((allfin, alllost, self.wait_state()))
        self.snaps.append(','.join(parts) + ';W' + self.wait_state() + ';X' +
                          ','.join(str(c) for c in sorted(self.crashed)) + ';E%d' % self.serr + ';H' +
                          ','.join(str(c) for c, (proto, _, _) in enumerate(self.conns)
                                   if proto.handler in self._container(self.server, 'handlers')))


def canon_model_snapshot(s, avail=None):
    """model snapshot -> the implementation's vocabulary (drop the ghost `late`, merge waiter stages);
    internal observations the scenario could not locate by role are masked with '?'"""
    avail = avail or {}
    tasks, w, x, e, h = s.split(';')
    out = []
    late_ok = True
    for t in tasks.split(','):
        if not t:
            continue
        f = t.split(':')
        if (f[8] == '1') != (f[3] != '0'):
            late_ok = False
        if not avail.get('tasks', True):
            f[6] = '?'
        if not avail.get('cancelled', True):
            f[7] = '?'
        out.append(':'.join(f[:8] + f[9:10]))
    ws = w[1:]
    if ws in ('latch', 'server', 'sub'):
        ws = 'pending'
    if not avail.get('handlers', True):
        h = 'H?'
    return ','.join(out) + ';W' + ws + ';' + x + ';' + e + ';' + h, late_ok


def mask_impl_snapshot(s, avail):
    tasks, w, x, e, h = s.split(';')
    out = []
    for t in tasks.split(','):
        if not t:
            continue
        f = t.split(':')
        if not avail.get('tasks', True):
            f[6] = '?'
        if not avail.get('cancelled', True):
            f[7] = '?'
        out.append(':'.join(f))
    if not avail.get('handlers', True):
        h = 'H?'
    return ';'.join([','.join(out), w, x, e, h])


def start_server(loop, server, standin):
    """Server.start() through its public API: the loop's create_server hands out the stand-in and tells us
    the protocol factory the server registered (no private attribute of Server is touched)."""
    got = {}

    async def create_server(factory, *a, **kw):
        got['factory'] = factory
        return standin
    loop.create_server = create_server
    try:
        t = loop.create_task(server.start('127.0.0.1', 0))
        loop.run_quiet(0.0)
        if not t.done() or t.exception() is not None:
            raise RuntimeError('Server.start() did not complete on the virtual loop: %r' % (t,))
    finally:
        del loop.create_server
    return got['factory']


def collect(sc, loop):
    """the observation record of one scenario (call inside the loop session, after the last settle)"""
    final = sc.view()
    unhandled = [str(c.get('message', ''))[:80] + ':' + type(c.get('exception')).__name__
                 for c in loop.unhandled]
    recs = [{'key': '%d.%d' % (r.c, r.i), 'beh': r.beh, 'dl': r.dl, 'prog': r.prog, 'entered': r.entered,
             'ncancel': r.ncancel, 'nhit': r.nhit, 'cleanup_done': r.cleanup_done, 'exc': r.exc,
             'phase': sc._phase(r), 'reached': r.stream is not None or r.task is not None,
             'deliveries': list(r.deliveries)} for r in sc.order]
    sc.teardown = True
    return {'ops': 'run ' + ' '.join(sc.ops), 'snaps': sc.snaps, 'events': sc.events, 'recs': recs,
            'errors': sc.errors, 'unhandled': unhandled, 'wait_log': sc.wait_log, 'final': final,
            'causes': sc.causes, 'avail': sc.available(), 'roles': dict(sc.roles), 'nconns': len(sc.conns), 'lost': [tr.lost for _, tr, _ in sc.conns],
            'started': sc.standin is not None, 'srvclosed': sc.standin is not None and sc.standin.closed}


def run_script(script):
    with vloop.session() as loop:
        sc = Scenario(loop)
        for it in script:
            sc.do(it)
        sc.settle()
        return collect(sc, loop)
