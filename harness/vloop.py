"""Deterministic virtual-time asyncio loop.

* `select(None)`  (no ready callback, no timer)  == the system is QUIESCENT: the loop stops.
  A task that is still pending then is blocked forever -- this decides hangs exactly.
* `select(t>0)`   (only timers left) advances the virtual clock to the next timer, unless that
  would cross the horizon of the current run, in which case the loop stops ('horizon').
* time.monotonic is redirected to the same clock while a session is active (grpclib reads it
  directly in Deadline, keepalive and the health checks).
Every run has a horizon; the server's default 7200 s keepalive re-arms itself forever.
"""
import asyncio
import contextlib
import selectors
import time


class _VSelector(selectors.BaseSelector):
    def __init__(self):
        self._map = {}
        self.loop = None

    def register(self, fileobj, events, data=None):
        fd = fileobj if isinstance(fileobj, int) else fileobj.fileno()
        k = selectors.SelectorKey(fileobj, fd, events, data)
        self._map[fd] = k
        return k

    def unregister(self, fileobj):
        fd = fileobj if isinstance(fileobj, int) else fileobj.fileno()
        return self._map.pop(fd)

    def modify(self, fileobj, events, data=None):
        self.unregister(fileobj)
        return self.register(fileobj, events, data)

    def select(self, timeout=None):
        loop = self.loop
        if timeout is None:
            loop._vstop = 'quiescent'
            loop.stop()
            return []
        if timeout > 0:
            when = loop._scheduled[0]._when if loop._scheduled else loop._vtime + timeout
            if when > loop._horizon:
                loop._vstop = 'horizon'
                loop.stop()
                return []
            if when > loop._vtime:
                loop._vtime = when
        return []

    def get_map(self):
        return self._map

    def close(self):
        pass


class VLoop(asyncio.SelectorEventLoop):
    def __init__(self):
        sel = _VSelector()
        super().__init__(selector=sel)
        sel.loop = self
        self._vtime = 0.0
        self._vstop = None
        self._horizon = float('inf')
        self.unhandled = []          # exceptions that reached the loop's exception handler
        self.set_exception_handler(self._on_exc)

    def _on_exc(self, loop, context):
        self.unhandled.append(context)

    def time(self):
        return self._vtime

    def run_quiet(self, span=100.0, max_iters=2000000):
        """Run until quiescent or until virtual time now+span.  Returns 'quiescent' | 'horizon' |
        'livelock' (more than max_iters loop iterations without reaching either: a zero-time busy loop,
        or timers that can no longer fire because the clock lost its 1 ns resolution)."""
        self._horizon = self._vtime + span
        self._vstop = None
        self._iters = 0
        self._max_iters = max_iters
        self.run_forever()
        return self._vstop

    def _run_once(self):
        self._iters = getattr(self, '_iters', 0) + 1
        if self._iters > getattr(self, '_max_iters', 2000000) and self._vstop is None:
            self._vstop = 'livelock'
            self.stop()
        super()._run_once()

    def run_until(self, t):
        """Run until quiescent or virtual instant t; then set the clock to t if it stopped early
        at the horizon (nothing can happen in between)."""
        r = self.run_quiet(max(0.0, t - self._vtime))
        if self._vtime < t:
            self._vtime = t
        return r

    def advance(self, dt):
        return self.run_until(self._vtime + dt)

    def pending_tasks(self):
        return [t for t in asyncio.all_tasks(self) if not t.done()]


@contextlib.contextmanager
def session():
    """Install a fresh virtual loop as the current loop and redirect time.monotonic to it."""
    loop = VLoop()
    old_mono = time.monotonic
    asyncio.set_event_loop(loop)
    time.monotonic = loop.time
    try:
        yield loop
    finally:
        time.monotonic = old_mono
        try:
            for t in asyncio.all_tasks(loop):
                t.cancel()
            # let cancellations unwind, bounded
            loop.run_quiet(0.0)
        except Exception:
            pass
        try:
            loop.close()
        except Exception:
            pass
        asyncio.set_event_loop(None)


def outcome(task):
    """('pending',) | ('ok', value) | ('exc', exception) | ('cancelled',)"""
    if not task.done():
        return ('pending',)
    if task.cancelled():
        return ('cancelled',)
    e = task.exception()
    if e is not None:
        return ('exc', e)
    return ('ok', task.result())
