"""C18 -- event listeners run once, in order, and their edits take effect.

Correspondence of Model/Events.v with grpclib.events (`_DispatchChannelEvents`, `_DispatchServerEvents`,
`listen`) on PRNG listener programs, end to end through real Channel / Server objects (scripted h2
peer on either side, and a real client/server pair), and a direct oracle that states the property on
the observed invocation logs and wire / peer-visible effects.

A case is one of
  {'kind': 'direct', 'side': 'C'|'S', 'ops': [...]}      operations on up to 4 dispatch objects
        ['A', obj, event class name, listener id, acts]    listen(target_obj, EventClass, listener)
        ['K', obj, method name, [pos values], [[kw name, value], ...]]   await obj.method(*pos, **kw)
     acts: ['i'] | ['s', field, value, guarded] | ['a', field, value, guarded]
     values: lists of small ints (tuples on the Python side)
  {'kind': 'e2e', 'mode': 'client'|'server'|'pair', ...}  one call of a given shape, listeners per event
"""
import inspect
import logging

from harness.core import Result
from harness import vloop, wire
from harness import peer as P
from harness.svc import RawCodec, Service, cps, exc_name

PROPERTY = 'C18'
THEOREM_FILES = ['Props/C18.v']
ALLOWED_AXIOMS = []
LABEL = ('full (dispatch, read-only rule, fast path and use-site def-use proved for all listener lists; '
         'the flow of the re-bound names into the wire writers is tied end to end only)')
TRUSTED = ['tools/facts_C18.py (fail-closed translator: hook methods probed from the imported package, dispatch class '
           'hierarchy and the hook call sites with their def-use tags -> coq/Gen/FactsC18.v)',
           'modelled, not verified: Python attribute lookup (instance __dict__ before class), __slots__ '
           'semantics of object.__setattr__, keyword/positional argument binding, defaultdict',
           'the expectation table of consumers per hook (Model/Events.v expected_consumers) is the '
           'reading of "metadata sent, message sent or returned, handler invoked"']
ASSUMPTIONS = ['listeners are coroutine functions that do not suspend and do not call add_listener '
               'while a dispatch is running',
               'listener statements are: assign a name, read-modify-write a name, interrupt(); names are '
               'event fields, "__interrupted__", or names the event object does not have (class '
               'attributes and methods of the event such as __payload__ are outside the model); a '
               'read-modify-write of "__interrupted__" is modelled only while that slot holds the bool '
               'stored by _Event itself',
               'a listener that lets an exception escape ends the hook call with that exception '
               '(modelled for AttributeError / TypeError raised by its own statements)']

# what the property statement lists (NOT read from the source): event types per side, mutable fields
CLIENT_EVENTS = ['SendRequest', 'SendMessage', 'RecvMessage', 'RecvInitialMetadata', 'RecvTrailingMetadata']
SERVER_EVENTS = ['RecvRequest', 'RecvMessage', 'SendMessage', 'SendInitialMetadata', 'SendTrailingMetadata']
SIDE_EVENTS = {'C': CLIENT_EVENTS, 'S': SERVER_EVENTS}
MUTABLE = {'SendRequest': ['metadata'], 'SendMessage': ['message'], 'RecvMessage': ['message'],
           'RecvInitialMetadata': ['metadata'], 'RecvTrailingMetadata': ['metadata'],
           'RecvRequest': ['metadata', 'method_func'], 'SendInitialMetadata': ['metadata'],
           'SendTrailingMetadata': ['metadata']}
ALL_EVENTS = sorted(MUTABLE)
UNKNOWN_NAMES = ['nope', 'extra_field']
FLAG = '__interrupted__'
MISSING = object()
FLAG_SLOT = [True]


# ---- what the implementation exposes (used to build well-formed calls; the model has its own copy,
# regenerated from the source by tools/facts_C18.py) --------------------------------------------

_DISPATCH_CLASS = {}


def dispatch_class(side):
    """the class of the object `listen()` registers on: type(<Channel|Server>().__dispatch__) -- found by
    role, not by the (private) name it has in grpclib.events"""
    if side not in _DISPATCH_CLASS:
        import asyncio
        from grpclib.client import Channel
        from grpclib.server import Server
        loop = asyncio.new_event_loop()
        try:
            asyncio.set_event_loop(loop)
            target = Channel() if side == 'C' else Server([])
            _DISPATCH_CLASS[side] = type(target.__dispatch__)
        finally:
            asyncio.set_event_loop(None)
            loop.close()
    return _DISPATCH_CLASS[side]


def flag_of(event):
    """the interruption flag of an event, None when this build keeps it somewhere else"""
    v = getattr(event, FLAG, None)
    return None if v is None else bool(v)


def has_flag_slot():
    from grpclib import events
    try:
        return hasattr(events.SendMessage(message=None), FLAG)
    except Exception:
        return False


def hooks_of(side):
    """{method name: (event class name, [positional names], [keyword-only names])}"""
    cls = dispatch_class(side)
    out = {}
    for ev, meth in cls.__dispatch_methods__.items():
        sig = inspect.signature(getattr(cls, meth))
        pos = [p.name for p in sig.parameters.values()
               if p.kind == p.POSITIONAL_OR_KEYWORD and p.name != 'self']
        kw = [p.name for p in sig.parameters.values() if p.kind == p.KEYWORD_ONLY]
        out[meth] = (ev.__name__, pos, kw)
    return out


def event_fields(name):
    from grpclib import events
    return list(getattr(events, name).__slots__)


# ---- instrumented listeners --------------------------------------------------------------------

class TupleValues:
    """direct cases: field values are tuples of ints"""

    def const(self, f, v):
        return tuple(v)

    def app(self, f, old, v):
        return old + tuple(v)


class Recorder:
    """invocation records grouped by occurrence (= event object) per event class"""

    def __init__(self):
        self.occ = {}            # key -> [ {'event': ev, 'inv': [rec, ...]} ]

    def enter(self, key, lid, event):
        lst = self.occ.setdefault(key, [])
        if not lst or lst[-1]['event'] is not event:
            lst.append({'event': event, 'inv': []})
        rec = {'lid': lid, 'interrupt': False, 'assigned': [], 'refused': [], 'ro_bad': [],
               'raised': None, 'flag_after': None}
        lst[-1]['inv'].append(rec)
        return rec

    def logs(self, key):
        return [[r['lid'] for r in o['inv']] for o in self.occ.get(key, [])]

    def errs(self, key):
        return [[(r['lid'], i) for r in o['inv'] for i in r['refused']] for o in self.occ.get(key, [])]


def make_listener(key, lid, acts, values, rec, mutable):
    """the callback handed to listen(); NOTHING else keeps a reference to it (the registry must keep its
    listeners alive), and its callable kind varies with the listener id: closure, functools.partial, bound
    method of a temporary object, temporary object with async __call__"""
    import functools
    body = _listener_body(key, lid, acts, values, rec, mutable)
    kind = lid % LISTENER_KINDS
    _kind('listener-callable-kind', kind)
    if kind == 0:
        return body
    if kind == 1:
        async def with_arg(_unused, event):
            await body(event)
        return functools.partial(with_arg, lid)

    class Subscriber:
        # distinct subscribers compare EQUAL (value objects): registrations are per call of listen(),
        # not per equivalence class of callbacks
        _is_subscriber = True

        def __eq__(self, other):
            return getattr(other, '_is_subscriber', False)

        def __hash__(self):
            return 7

        async def __call__(self, event):
            await body(event)

        async def on_event(self, event):
            await body(event)
    return Subscriber().on_event if kind == 2 else Subscriber()


def _listener_body(key, lid, acts, values, rec, mutable):
    async def listener(event):
        r = rec.enter(key, lid, event)
        try:
            for i, a in enumerate(acts):
                if a[0] == 'i':
                    event.interrupt()
                    r['interrupt'] = True
                    continue
                kind, f, v, guarded = a
                before = getattr(event, f, MISSING)
                try:
                    new = values.const(f, v) if kind == 's' else values.app(f, getattr(event, f), v)
                    setattr(event, f, new)
                    r['assigned'].append((f, new))
                    if f not in mutable and f != FLAG:
                        r['ro_bad'].append((f, 'accepted'))
                except AttributeError:
                    after = getattr(event, f, MISSING)
                    if after is not before:
                        r['ro_bad'].append((f, 'changed'))
                    if f in mutable:
                        r['ro_bad'].append((f, 'mutable-refused'))
                    if not guarded:
                        raise
                    r['refused'].append(i)
        except Exception as e:
            r['raised'] = type(e).__name__
            raise
        finally:
            r['flag_after'] = flag_of(event)
    return listener


def run_coro(coro):
    """the hooks never suspend when the listeners do not: drive the coroutine by hand"""
    try:
        coro.send(None)
    except StopIteration as e:
        return e.value
    coro.close()
    raise RuntimeError('hook suspended')


# ---- direct cases: implementation side ---------------------------------------------------------

class Target:
    def __init__(self, d):
        self.__dispatch__ = d


def impl_direct(case):
    """-> (answers, observations for the oracle)"""
    from grpclib import events
    side = case['side']
    hooks = hooks_of(side)
    objs = [Target(dispatch_class(side)()) for _ in range(4)]
    rec = Recorder()
    regs = {}                                  # (obj, event) -> [lid] accepted registrations
    answers, obs = [], []
    again, repeats = {}, {}
    for op in case['ops']:
        if op[0] == 'A':
            repeats[(op[1], op[2], op[3])] = repeats.get((op[1], op[2], op[3]), 0) + 1
    for n, op in enumerate(case['ops']):
        if op[0] == 'A':
            _, o, evname, lid, acts = op
            key = (o, evname)
            # an 'A' op repeating an earlier (obj, event, id) registers the SAME callback object again
            ck = (o, evname, lid)
            cb = again.get(ck) or make_listener(key, lid, acts, TupleValues(), rec, MUTABLE[evname])
            if repeats.get(ck, 0) > 1:
                again[ck] = cb            # held only for listeners that are registered more than once
            try:
                events.listen(objs[o], getattr(events, evname), cb)
                regs.setdefault(key, []).append(lid)
                answers.append(('ok',))
            except KeyError:
                answers.append(('KeyError',))
            except Exception as e:
                answers.append(('exc', type(e).__name__))
            obs.append({'op': 'A', 'obj': o, 'event': evname, 'answer': answers[-1][0]})
        else:
            _, o, meth, pos, kw = op
            fn = getattr(objs[o].__dispatch__, meth, None)
            if fn is None:
                answers.append(('nomethod',))
                obs.append({'op': 'K', 'skip': True})
                continue
            evname = hooks[meth][0]
            key = (o, evname)
            before = len(rec.occ.get(key, []))
            others = {k: len(v) for k, v in rec.occ.items() if k != key}
            args = [tuple(v) for v in pos]
            kwargs = {k: tuple(v) for k, v in kw}
            well_formed = (len(pos) == len(hooks[meth][1]) and sorted(kwargs) == sorted(hooks[meth][2]))
            ret = exc = None
            try:
                ret = run_coro(fn(*args, **kwargs))
            except TypeError as e:
                exc = e
            except Exception as e:
                exc = e
            occ = rec.occ.get(key, [])[before:]
            inv = occ[0]['inv'] if occ else []
            log = [r['lid'] for r in inv]
            errs = [(r['lid'], i) for r in inv for i in r['refused']]
            listener_raised = bool(inv) and inv[-1]['raised'] is not None
            if exc is None:
                ok_shape = isinstance(ret, tuple) and all(isinstance(x, tuple) for x in ret)
                answers.append(('ret', log, errs, [list(x) for x in ret]) if ok_shape
                               else ('badret', repr(ret)[:60]))
            elif isinstance(exc, TypeError) and not listener_raised:
                answers.append(('badcall',))
            else:
                nm = {'AttributeError': 'A', 'TypeError': 'T'}.get(type(exc).__name__, type(exc).__name__)
                answers.append(('exn', nm, log, errs))
            obs.append({'op': 'K', 'obj': o, 'event': evname, 'meth': meth, 'args': args,
                        'well_formed': well_formed, 'ret': ret, 'exc': exc, 'occ': occ,
                        'registered': list(regs.get(key, [])),
                        'leak': [k for k, v in rec.occ.items() if k != key and len(v) != others.get(k, 0)]})
    return answers, obs


# ---- direct cases: model side ------------------------------------------------------------------

def act_word(a):
    if a[0] == 'i':
        return 'i'
    return '%s%d:%s:%s' % (a[0], 1 if a[3] else 0, cps(a[1]), ','.join(str(x) for x in a[2]) or '-')


def val_word(v):
    return ','.join(str(x) for x in v) or '-'


def model_line(case):
    parts = [case['side']]
    for op in case['ops']:
        if op[0] == 'A':
            _, o, evname, lid, acts = op
            parts.append(' '.join(['A', str(o), cps(evname), str(lid), str(len(acts))] +
                                  [act_word(a) for a in acts]))
        else:
            _, o, meth, pos, kw = op
            parts.append(' '.join(['K', str(o), cps(meth), str(len(pos))] + [val_word(v) for v in pos] +
                                  [str(len(kw))] + [w for k, v in kw for w in (cps(k), val_word(v))]))
    return ' ; '.join(parts)


def parse_ids(w):
    return [] if w == '-' else [int(t) for t in w.split(',')]


def parse_errs(w):
    return [] if w == '-' else [tuple(int(x) for x in t.split('.')) for t in w.split(',')]


def parse_val(w):
    return [] if w == '-' else [int(t) for t in w.split(',')]


def parse_model(line):
    out = []
    for part in line.split(' ; '):
        w = part.split()
        if w[0] == 'ret':
            n = int(w[3])
            out.append(('ret', parse_ids(w[1]), parse_errs(w[2]), [parse_val(x) for x in w[4:4 + n]]))
        elif w[0] == 'exn':
            out.append(('exn', w[1], parse_ids(w[2]), parse_errs(w[3])))
        else:
            out.append((w[0],))
    return out


# ---- direct oracle on one hook call ------------------------------------------------------------

def oracle_call(side, ob):
    """the property statement on what was observed for one `await obj.hook(...)`; returns
    [(what, kind)]"""
    bad = []
    ev = ob['event']
    mutable = MUTABLE[ev]
    reg = ob['registered']
    occ = ob['occ']
    if len(occ) > 1:
        bad.append(('one hook call dispatched %d events' % len(occ), 'occurrences'))
    inv = occ[0]['inv'] if occ else []
    log = [r['lid'] for r in inv]
    if ob['leak']:
        bad.append(('listeners of another dispatch object / event ran: %r' % ob['leak'], 'leak'))
    if log != reg[:len(log)]:
        bad.append(('invoked %r is not a prefix of the registered %r (order / exactly once)' % (log, reg),
                    'order'))
        return bad
    if not ob['well_formed']:
        return bad                 # a call the library never makes (TypeError from argument binding)
    if reg and not log:
        bad.append(('registered listeners were not invoked', 'not-invoked'))
    def stopped(r):
        return (r['flag_after'] if r['flag_after'] is not None else r['interrupt']) or r['raised']
    for r in inv[:-1]:
        if stopped(r):
            bad.append(('listener %d ran after listener %d interrupted / raised' %
                        (inv[inv.index(r) + 1]['lid'], r['lid']), 'ran-after-interrupt'))
    if inv and len(log) < len(reg) and not stopped(inv[-1]):
        bad.append(('listener %d was skipped although nobody interrupted' % reg[len(log)], 'skipped'))
    for r in inv:
        for f, why in r['ro_bad']:
            kind = {'accepted': 'readonly-assigned', 'changed': 'refused-but-changed',
                    'mutable-refused': 'mutable-refused'}[why]
            bad.append(('field %s of %s: %s' % (f, ev, why), kind))
    raised = inv[-1]['raised'] if inv else None
    if raised:
        if ob['exc'] is None or type(ob['exc']).__name__ != raised:
            bad.append(('listener raised %s but the hook did not' % raised, 'raise-swallowed'))
        return bad
    if ob['exc'] is not None:
        bad.append(('hook raised %s' % type(ob['exc']).__name__, 'hook-raised'))
        return bad
    ret = ob['ret']
    if not isinstance(ret, tuple) or len(ret) != len(mutable):
        bad.append(('hook returned %r, expected one element per mutable field %r' % (ret, mutable),
                    'payload-shape'))
        return bad
    for j, f in enumerate(mutable):
        last = MISSING
        for r in inv:
            for g, val in r['assigned']:
                if g == f:
                    last = val
        want = ob['args'][j] if last is MISSING else last
        if ret[j] is not want and ret[j] != want:
            bad.append(('returned %s = %r, expected %r (%s)' % (
                f, ret[j], want, 'the value passed in' if last is MISSING else 'the last assignment'),
                'no-listener-not-identity' if not reg else ('edit-lost' if last is not MISSING
                                                            else 'unassigned-changed')))
    return bad


def canon(ans):
    if ans[0] == 'ret':
        return ('ret', list(ans[1]), [tuple(e) for e in ans[2]], [list(v) for v in ans[3]])
    if ans[0] == 'exn':
        return ('exn', ans[1], list(ans[2]), [tuple(e) for e in ans[3]])
    return tuple(ans)


def check_direct(ctx, res, cases):
    model = None
    if ctx.model_ok and cases:
        model = ctx.model([model_line(c) for c in cases] + ['C ; F'])
        if model[-1].strip() != '1':
            res.disagreements.append({'case': {'kind': 'tables'}, 'model': model[-1],
                                      'impl': 'generated hook / site tables are not well-formed'})
    for n, case in enumerate(cases):
        answers, obs = impl_direct(case)
        res.evaluations += 1
        side = case['side']
        for op, ans, ob in zip(case['ops'], answers, obs):
            if op[0] == 'A':
                res.count('direct:add:' + ans[0])
                want = 'ok' if op[2] in SIDE_EVENTS[side] else 'KeyError'
                if ans[0] != want:
                    res.oracle_failures.append({
                        'case': case, 'what': 'listen(%s target, %s) -> %s, expected %s' % (
                            side, op[2], ans[0], want),
                        'signature': {'kind': 'direct', 'what': 'registration', 'event': op[2]},
                        'observed': ans})
                continue
            res.count('direct:call:' + ans[0])
            if ob.get('skip'):
                continue
            nl = len(ob['registered'])
            res.count('direct:listeners:%d' % min(nl, 6))
            res.count('direct:event:%s:%s' % (side, ob['event']))
            inv = ob['occ'][0]['inv'] if ob['occ'] else []
            stop = 'raise' if (inv and inv[-1]['raised']) else (
                'interrupt' if (inv and inv[-1]['flag_after']) else 'none')
            res.count('direct:stop:' + stop)
            if any(r['refused'] for r in inv):
                res.count('direct:refused-assignment')
            res.signatures.add(('direct', side, ob['event'], nl, len(inv), stop,
                                tuple(sorted({g for r in inv for g, _ in r['assigned']})),
                                any(r['refused'] for r in inv)))
            for what, kind in oracle_call(side, ob):
                res.oracle_failures.append({
                    'case': case, 'what': what,
                    'signature': {'kind': 'direct', 'what': kind, 'event': ob['event'], 'side': side},
                    'observed': repr(ans)[:300]})
        res.sample({'case': case, 'impl': answers}, limit=4)
        if model is not None:
            res.traces += 1
            m = [canon(x) for x in parse_model(model[n])]
            a = [canon(x) for x in answers]
            if m != a:
                res.disagreements.append({'case': case, 'model': m, 'impl': a})


# ---- direct cases: generator -------------------------------------------------------------------

def gen_value(rng, maxlen=3):
    return [rng.randint(0, 9) for _ in range(rng.choice([0, 1, 1, 2, maxlen]))]


def gen_acts(rng, evname, wild=True, flag_kind='s'):
    fields = event_fields(evname)
    mutable = MUTABLE[evname]
    ro = [f for f in fields if f not in mutable]
    acts = []
    for _ in range(rng.choice([0, 1, 1, 2, 2, 3, 4])):
        r = rng.random()
        if r < 0.18:
            acts.append(['i'])
            continue
        kind = 's' if rng.random() < 0.6 else 'a'
        r = rng.random()
        if r < 0.55:
            f, guarded = rng.choice(mutable), rng.random() < 0.5
        elif r < 0.80 and ro:
            f, guarded = rng.choice(ro), rng.random() < (0.75 if wild else 1.0)
        elif r < 0.92 or not wild or not FLAG_SLOT[0]:
            f, guarded = rng.choice(UNKNOWN_NAMES), rng.random() < (0.75 if wild else 1.0)
        else:
            # `event.__interrupted__ += v` is modelled only while the slot still holds the bool that
            # _Event stored (TypeError); a case uses either plain assignments of the flag or these
            f, guarded, kind = FLAG, rng.random() < 0.5, flag_kind
        acts.append([kind, f, gen_value(rng), guarded])
    return acts


def gen_direct(rng, lid0=1):
    side = rng.choice('CS')
    hooks = hooks_of(side)
    meths = sorted(hooks)
    focus = rng.choice(meths)
    other_side = sorted(hooks_of('S' if side == 'C' else 'C'))
    ops = []
    lid = lid0
    flag_kind = 's' if rng.random() < 0.8 else 'a'
    nobj = rng.choice([1, 1, 2, 2, 3])
    for _ in range(rng.choice([2, 3, 4, 5, 6, 8, 10, 12])):
        o = rng.randrange(nobj)
        if rng.random() < 0.55:
            r = rng.random()
            if r < 0.75:
                evname = hooks[focus][0]
            elif r < 0.93:
                evname = hooks[rng.choice(meths)][0]
            else:
                evname = rng.choice(ALL_EVENTS)          # sometimes an event of the other side
            earlier = [x for x in ops if x[0] == 'A']
            if earlier and rng.random() < 0.12:
                ops.append(list(rng.choice(earlier)))        # the same callback registered once more
                continue
            ops.append(['A', o, evname, lid, gen_acts(rng, evname, flag_kind=flag_kind)])
            lid += 1
        else:
            r = rng.random()
            meth = focus if r < 0.8 else (rng.choice(meths) if r < 0.97 else rng.choice(other_side))
            if meth in hooks:
                _, pos, kw = hooks[meth]
            else:
                pos, kw = ['x'], []
            pvals = [gen_value(rng) for _ in pos]
            kws = [[k, [100 + i]] for i, k in enumerate(kw)]
            r = rng.random()
            if r < 0.02 and kws:
                kws.pop(rng.randrange(len(kws)))          # missing keyword (TypeError on the slow path)
            elif r < 0.04:
                pvals.append([7])                         # one positional too many
            elif r < 0.05:
                kws.append(['bogus', [1]])
            ops.append(['K', o, meth, pvals, kws])
    if not any(op[0] == 'K' for op in ops):
        _, pos, kw = hooks[focus]
        ops.append(['K', 0, focus, [gen_value(rng) for _ in pos], [[k, [100 + i]] for i, k in enumerate(kw)]])
    return {'kind': 'direct', 'side': side, 'ops': ops}


def exhaustive_small():
    """every event type x (0..2 listeners, each: nothing | assign each mutable field | interrupt |
    assign+interrupt | guarded read-only attempt), call before and after each registration"""
    cases = []
    for side in 'CS':
        hooks = hooks_of(side)
        for meth in sorted(hooks):
            evname, pos, kw = hooks[meth]
            mutable = MUTABLE.get(evname, [])
            ro = [f for f in event_fields(evname) if f not in mutable]
            progs = [[], [['i']]]
            for f in mutable:
                progs += [[['s', f, [5], False]], [['a', f, [6], False]], [['s', f, [7], False], ['i']],
                          [['i'], ['a', f, [8], True]]]
            if ro:
                progs.append([['s', ro[0], [9], True]])
                progs.append([['s', ro[-1], [9], False]])
            progs.append([['s', UNKNOWN_NAMES[0], [1], True]])
            call = ['K', 0, meth, [[1, j] for j, _ in enumerate(pos)], [[k, [100 + i]] for i, k in enumerate(kw)]]
            for p1 in progs:
                for p2 in progs:
                    cases.append({'kind': 'direct', 'side': side, 'ops': [
                        call, ['A', 0, evname, 1, p1], call, ['A', 0, evname, 2, p2], call,
                        ['K', 1, meth, call[3], call[4]]]})
    return cases


# ---- end to end ---------------------------------------------------------------------------------

def md_pairs(tags):
    return [('x-k%d' % (t % 3), str(t)) for t in tags]


def md_items(x):
    """the (key, value) pairs of anything grpclib accepts as metadata: a mapping or a collection of pairs"""
    return list(x.items()) if hasattr(x, 'items') else list(x)


def md_tags(items):
    return [int(v) for k, v in md_items(items) if k.startswith('x-k')]


def tag_of(fn):
    """the tag carried by a handler of any callable kind"""
    for o in (fn, getattr(fn, '__self__', None), getattr(fn, 'func', None)):
        t = getattr(o, '_tag', None)
        if t is not None:
            return tuple(t)
    raise AttributeError('handler without a tag: %r' % (fn,))


MD_KINDS = 5         # MultiDict, CIMultiDict, dict, list of pairs, tuple of pairs
MSG_KINDS = 2        # bytes, bytearray
HANDLER_KINDS = 6    # async def, functools.partial, object with async __call__, sync function returning the
#                      coroutine, bound coroutine method, sync function returning a non-coroutine awaitable
LISTENER_KINDS = 4   # closure, functools.partial, bound method of a temporary, object with async __call__


KIND_COUNTS = {}


def _kind(what, k):
    KIND_COUNTS[what + ':%d' % k] = KIND_COUNTS.get(what + ':%d' % k, 0) + 1


def make_metadata(tags, kind):
    from multidict import MultiDict, CIMultiDict
    pairs = md_pairs(tags)
    kind %= MD_KINDS
    _kind('assigned-metadata-kind', kind)
    if kind == 0:
        return MultiDict(pairs)
    if kind == 1:
        return CIMultiDict(pairs)
    if kind == 2:
        return {'%s-u%d' % (k, i): v for i, (k, v) in enumerate(pairs)}       # a plain dict: unique keys
    if kind == 3:
        return list(pairs)
    return tuple(pairs)


class WireValues:
    """e2e cases: metadata = tagged pairs, message = byte string, method_func = tagged handler.  Every value a
    listener assigns is taken in turn from the kinds the library accepts for that field: metadata as
    MultiDict / CIMultiDict / dict / list or tuple of pairs, messages as bytes / bytearray, handlers as
    coroutine function / partial / object with async __call__ / sync function returning the coroutine /
    bound coroutine method / sync function returning another awaitable."""

    def __init__(self, make_handler, rng_bits):
        self.make_handler = make_handler
        self.bits = rng_bits
        self.n = rng_bits

    def kind(self):
        self.n += 1
        return self.n

    def const(self, f, v):
        if f == 'metadata':
            return make_metadata(v, self.kind())
        if f == 'message':
            return bytes(v) if self.kind() % MSG_KINDS == 0 else bytearray(v)
        if f == 'method_func':
            return self.make_handler(tuple(v), self.kind())
        return tuple(v)

    def app(self, f, old, v):
        if f == 'metadata':
            self.bits = (self.bits * 5 + 3) % 64
            if self.bits & 1 and hasattr(old, 'add'):     # edit in place, then assign the same object
                for k, x in md_pairs(v):
                    old.add(k, x)
                return old
            return make_metadata(md_tags(old) + list(v), self.kind())
        if f == 'message':
            new = bytes(old) + bytes(v)
            return new if self.kind() % MSG_KINDS == 0 else bytearray(new)
        if f == 'method_func':
            return self.make_handler(tag_of(old) + tuple(v), self.kind())
        return tuple(v)


class _Later:
    """an awaitable that is not a coroutine"""

    def __init__(self, coro):
        self.coro = coro

    def __await__(self):
        return self.coro.__await__()


CLIENT_STAGE_METH = {'SendRequest': 'send_request', 'SendMessage': 'send_message',
                     'RecvMessage': 'recv_message', 'RecvInitialMetadata': 'recv_initial_metadata',
                     'RecvTrailingMetadata': 'recv_trailing_metadata'}
SERVER_STAGE_METH = {'RecvRequest': 'recv_request', 'RecvMessage': 'recv_message',
                     'SendMessage': 'send_message', 'SendInitialMetadata': 'send_initial_metadata',
                     'SendTrailingMetadata': 'send_trailing_metadata'}


def ref_stage(evname, listeners, payload_in):
    """the property, executed: listeners run in order until one interrupts; each mutable field ends
    up with the composition of the assignments made to it.  (Model-independent; e2e listeners only
    make guarded refused assignments, so nothing escapes.)"""
    vals = [list(v) for v in payload_in]
    mutable = MUTABLE[evname]
    log = []
    for lid, acts in listeners:
        log.append(lid)
        stop = False
        for a in acts:
            if a[0] == 'i':
                stop = True
            elif a[1] in mutable:
                j = mutable.index(a[1])
                vals[j] = list(a[2]) if a[0] == 's' else vals[j] + list(a[2])
        if stop:
            break
    return log, vals


LOOP_SLACK = 4      # every receive loop of the harness stops after (expected messages + LOOP_SLACK) rounds


class Call:
    """one RPC of the shape given by the case, on the given end points; records what each side sees"""

    def __init__(self, loop, case, rec, active):
        self.loop, self.case, self.rec, self.active = loop, case, rec, active
        self.seen = {}
        self.client = {'replies': []}
        self.gate = None

    # -- server application
    def make_handler(self, tag, kind=0):
        """a handler of the given callable kind; all of them run self.handle(stream, tag)"""
        import functools
        owner = self
        kind %= HANDLER_KINDS
        _kind('assigned-handler-kind', kind)

        async def handler(stream):
            await owner.handle(stream, tag)

        async def with_tag(t, stream):
            await owner.handle(stream, t)

        class Middleware:
            _tag = tag

            async def __call__(self, stream):
                await owner.handle(stream, tag)

            async def serve(self, stream):
                await owner.handle(stream, tag)
        if kind == 0:
            h = handler
        elif kind == 1:
            h = functools.partial(with_tag, tag)
        elif kind == 2:
            return Middleware()
        elif kind == 3:
            def h(stream):
                return owner.handle(stream, tag)
        elif kind == 4:
            return Middleware().serve
        else:
            def h(stream):
                return _Later(owner.handle(stream, tag))
        h._tag = tag
        return h

    async def handle(self, stream, tag):
        from grpclib.const import Status
        from grpclib.exceptions import GRPCError, ProtocolError
        c = self.case
        mid = c.get('mid')
        self.seen['handler'] = list(tag)
        self.seen['md'] = md_tags(stream.metadata)
        reqs = self.seen['reqs'] = []
        limit = len(c['reqs']) + LOOP_SLACK

        async def drain():
            # `async for message in stream`, bounded: a stream that never reports its end is an
            # observation (overrun), not a reason for the harness to spin
            it = stream.__aiter__()
            for _ in range(limit):
                try:
                    m = await it.__anext__()
                except StopAsyncIteration:
                    return
                reqs.append(list(m) if isinstance(m, (bytes, bytearray)) else repr(m))
            self.seen['overrun'] = True
        if mid:
            for _ in range(mid[0]):
                m = await stream.recv_message()
                if m is None:
                    break
                reqs.append(list(m))
            await stream.send_initial_metadata(metadata=md_pairs(c['im0']))
            for r in c['reps'][:mid[1]]:
                await stream.send_message(bytes(r))
            self.seen['at_gate'] = True
            await self.gate.wait()
            await drain()
            rest = c['reps'][mid[1]:]
        else:
            if c['card'][0] == 'S':
                await drain()
            else:
                m = await stream.recv_message()
                if m is not None:
                    reqs.append(list(m))
            if c['explicit_im']:
                await stream.send_initial_metadata(metadata=md_pairs(c['im0']))
            rest = c['reps']
        extra = (c.get('app') or {}).get('extra_s', [])
        sent = len(c['reps']) if c['status'] != 'early' else 0

        async def premature(op, fn, *a, **kw):
            try:
                await fn(*a, **kw)
                self.seen.setdefault('accepted', []).append(op)
            except ProtocolError:
                self.seen.setdefault('refused', []).append(op)
        if 'early_trailing' in extra and c['card'][1] == 'U':
            # OK trailers before the single reply of a unary response: refused, nothing goes out, and the
            # handler carries on (or ends: then __aexit__ sends the real trailers, once)
            await premature('early_trailing', stream.send_trailing_metadata, metadata=md_pairs([97]))
        if c['status'] != 'early':
            for r in rest:
                await stream.send_message(bytes(r))

        async def refused(op, fn, *a, **kw):
            # an operation the library must refuse before emitting anything; the handler copes and goes on
            try:
                await fn(*a, **kw)
                self.seen.setdefault('accepted', []).append(op)
            except ProtocolError:
                self.seen.setdefault('refused', []).append(op)
        if 'send_initial_metadata' in extra and (c['explicit_im'] or mid or sent):
            await refused('send_initial_metadata', stream.send_initial_metadata, metadata=md_pairs([98]))
        if 'send_message' in extra and c['card'][1] == 'U' and sent:
            await refused('send_message', stream.send_message, b'again')
        if c['status'] not in ('ok', 'reset'):
            if c['explicit_tm']:
                await stream.send_trailing_metadata(status=Status.INTERNAL, metadata=md_pairs(c['tm0']))
            else:
                raise GRPCError(Status.INTERNAL)
        elif c['explicit_tm']:
            await stream.send_trailing_metadata(metadata=md_pairs(c['tm0']))
        if 'send_trailing_metadata' in extra and c['explicit_tm']:
            await refused('send_trailing_metadata', stream.send_trailing_metadata, metadata=md_pairs([99]))

    # -- client application
    async def call(self, channel):
        from grpclib import client as gc
        from grpclib.exceptions import GRPCError
        c = self.case
        mid = c.get('mid')
        cls = {'UU': gc.UnaryUnaryMethod, 'US': gc.UnaryStreamMethod, 'SU': gc.StreamUnaryMethod,
               'SS': gc.StreamStreamMethod}[c['card']]
        m = cls(channel, '/v.S/M', bytes, bytes)
        out = self.client
        limit = len(c['reps']) + LOOP_SLACK

        async def drain(s):
            for _ in range(limit):
                msg = await s.recv_message()
                if msg is None:
                    return
                out['replies'].append(list(msg) if isinstance(msg, (bytes, bytearray)) else repr(msg))
                if c['card'][1] == 'U':
                    return
            out['overrun'] = True
        app = c.get('app') or {}
        style, catch = app.get('style', 'explicit'), app.get('catch', False)
        out['errors'] = []

        def tag(e):
            return e.status.name if isinstance(e, GRPCError) else exc_name(e)

        async def step(op, fn, *a, **kw):
            """one application operation; a `catching` application handles the error and carries on"""
            if not catch:
                await fn(*a, **kw)
                return
            try:
                await fn(*a, **kw)
            except Exception as e:
                out['errors'].append([op, tag(e)])
        ref = {}
        try:
            try:
                if style == 'stub' and not mid:
                    # the generated-stub entry points: await method(request[s])
                    msgs = [bytes(r) for r in c['reqs']]
                    out['no_metadata_view'] = out['no_replies_view'] = True
                    r = await m(msgs if c['card'][0] == 'S' else msgs[0], metadata=md_pairs(c['md0']))
                    for x in (r if c['card'][1] == 'S' else [r]):
                        out['replies'].append(list(x) if isinstance(x, (bytes, bytearray)) else repr(x))
                    del out['no_replies_view']
                else:
                    async with m.open(metadata=md_pairs(c['md0'])) as s:
                        ref['s'] = s
                        if mid:
                            await step('send_request', s.send_request)
                            for r in c['reqs'][:mid[0]]:
                                await step('send_message', s.send_message, bytes(r))
                            await step('recv_initial_metadata', s.recv_initial_metadata)
                            for _ in range(mid[1]):
                                msg = await s.recv_message()
                                if msg is None:
                                    break
                                out['replies'].append(list(msg))
                            out['at_gate'] = True
                            await self.gate.wait()
                            rest = c['reqs'][mid[0]:]
                            for i, r in enumerate(rest):
                                await step('send_message', s.send_message, bytes(r), end=(i == len(rest) - 1))
                            if not rest:
                                await step('end', s.end)
                        else:
                            if not c['reqs']:
                                await step('send_request', s.send_request, end=True)
                            for i, r in enumerate(c['reqs']):
                                await step('send_message', s.send_message, bytes(r),
                                           end=(i == len(c['reqs']) - 1))
                            if style == 'explicit':
                                await step('recv_initial_metadata', s.recv_initial_metadata)
                        await step('recv_message', drain, s)
                        if style == 'explicit' or app.get('explicit_tm'):
                            await step('recv_trailing_metadata', s.recv_trailing_metadata)
                        # operations the library must refuse (or that find nothing left to do): a careless
                        # application repeats them, handles the refusal and leaves the block normally
                        for op in app.get('extra_c', []):
                            try:
                                if op == 'send_message':
                                    await s.send_message(b'again')
                                elif op == 'recv_message':
                                    await drain(s)
                                else:
                                    await getattr(s, op)()
                            except Exception as e:
                                out.setdefault('refused', []).append([op, tag(e)])
                out['exit'] = 'OK'
            finally:
                st = ref.get('s')
                if st is not None and st.initial_metadata is not None:
                    out['im'] = md_tags(st.initial_metadata)
                if st is not None and st.trailing_metadata is not None:
                    out['tm'] = md_tags(st.trailing_metadata)
        except Exception as e:
            out['exit'] = tag(e)
        seen_tags = [t for op, t in out['errors']] + [t for op, t in out.get('refused', [])] + [out['exit']]
        real = [t for t in seen_tags if t not in ('OK', 'ProtocolError')]
        out['status'] = real[0] if real else ('OK' if out['exit'] in ('OK', 'ProtocolError') else out['exit'])


def register(case, side, target, rec, call, bits):
    from grpclib import events
    n = 0
    for key, ls in sorted(case['listeners'].items()):
        s, evname = key.split(':')
        if s != side:
            continue
        count = {}
        for lid, acts in ls:
            count[lid] = count.get(lid, 0) + 1
        held = {}
        for lid, acts in ls:
            cb = held.get(lid) or make_listener(key, lid, acts, WireValues(call.make_handler, bits + lid), rec,
                                                MUTABLE[evname])
            if count[lid] > 1:
                held[lid] = cb            # registered more than once: the same object each time
            events.listen(target, getattr(events, evname), cb)
            n += 1
    return n


def reply_shape(c):
    """(messages the server application sends, initial metadata is sent as its own block)"""
    nrep = len(c['reps']) if c['status'] != 'early' else 0
    has_im = c['explicit_im'] or nrep > 0
    return nrep, has_im


def run_e2e(case):
    """-> {'runs': [ {'active': bool, 'obs': {...}, 'logs': {...}} ]} ; runs: optional first call
    without listeners (late registration), the measured call, optional call on a second, fresh pair
    of end points that must not see the listeners"""
    from h2 import events as h2e
    runs = []
    with vloop.session() as loop:
        rec = Recorder()
        state = {'call': None}
        mode = case['mode']

        def base_handler():
            async def handler(stream):
                await state['call'].handle(stream, (0,))
            handler._tag = (0,)
            return handler

        def make_ends():
            ends = {}
            if mode == 'client':
                ends['ce'] = wire.ClientEnd(loop)
                ends['channel'] = ends['ce'].channel
            elif mode == 'server':
                ends['se'] = wire.ServerEnd(loop, [Service('v.S', {'M': (base_handler(), case['card'])})])
                ends['server'] = ends['se'].server
                loop.run_quiet(1)
                ends['se'].peer.take_events()
            else:
                from grpclib.testing import ChannelFor
                ends['cf'] = ChannelFor([Service('v.S', {'M': (base_handler(), case['card'])})],
                                        codec=RawCodec())
                t = loop.create_task(ends['cf'].__aenter__())
                loop.run_quiet(1)
                ends['channel'] = t.result()
                from grpclib.server import Server as _Server
                servers = [v for v in vars(ends['cf']).values() if isinstance(v, _Server)]
                if len(servers) != 1:
                    raise RuntimeError('ChannelFor does not hold exactly one Server')
                ends['server'] = servers[0]
            return ends

        def do_register(ends):
            if 'channel' in ends:
                register(case, 'c', ends['channel'], rec, Call(loop, case, rec, True), case.get('bits', 0))
            if 'server' in ends:
                # the handler factory used by listeners must create handlers bound to the current call
                proxy = Call(loop, case, rec, True)
                proxy.handle = lambda stream, tag: state['call'].handle(stream, tag)
                register(case, 's', ends['server'], rec, proxy, case.get('bits', 0))

        def one_call(ends, active, mid=None):
            """mid = (h, g): the listeners are registered while the call is open, after h request
            messages and g replies went through; everything later happens on the SAME Stream objects"""
            import asyncio
            c = case if mid or not case.get('mid') else dict(case, mid=None)
            call = Call(loop, c, rec, active)
            call.gate = asyncio.Event()
            state['call'] = call
            obs = {}
            mark = {k: len(v) for k, v in rec.occ.items()}
            nrep, has_im = reply_shape(c)

            def open_gate():
                obs['at_gate'] = [call.client.get('at_gate', False), call.seen.get('at_gate', False)]
                do_register(ends)
                call.gate.set()
            if mode == 'client':
                ce = ends['ce']
                t = loop.create_task(call.call(ends['channel']))
                loop.run_quiet(5)
                evs = ce.peer.take_events()
                reqs = [e for e in evs if isinstance(e, h2e.RequestReceived)]
                if reqs:
                    sid = reqs[-1].stream_id
                    obs['wire_md'] = md_tags(reqs[-1].headers)
                    status = '0' if c['status'] == 'ok' else '13'
                    if mid:
                        ce.peer.headers(sid, P.RESP_HEADERS + md_pairs(c['im0']))
                        for r in c['reps'][:mid[1]]:
                            ce.peer.data(sid, P.grpc_frame(bytes(r)))
                        loop.run_quiet(5)
                        open_gate()
                        loop.run_quiet(5)
                        evs += ce.peer.take_events()
                        for r in c['reps'][mid[1]:nrep]:
                            ce.peer.data(sid, P.grpc_frame(bytes(r)))
                        ce.peer.headers(sid, [('grpc-status', status)] + md_pairs(c['tm0']), end_stream=True)
                    elif not has_im:
                        ce.peer.headers(sid, P.RESP_HEADERS + [('grpc-status', status)] + md_pairs(c['tm0']),
                                        end_stream=True)
                    else:
                        ce.peer.headers(sid, P.RESP_HEADERS + md_pairs(c['im0']))
                        for r in c['reps'][:nrep]:
                            ce.peer.data(sid, P.grpc_frame(bytes(r)))
                        if c['status'] == 'reset':
                            loop.run_quiet(5)          # the application consumes every reply, then: RST_STREAM
                            ce.peer.reset(sid, 2)
                        else:
                            ce.peer.headers(sid, [('grpc-status', status)] + md_pairs(c['tm0']),
                                            end_stream=True)
                    data = b''.join(e.data for e in evs if isinstance(e, h2e.DataReceived)
                                    and e.stream_id == sid)
                    obs['wire_reqs'] = split_frames(data)
                    loop.run_quiet(5)
                obs['client'] = dict(call.client)
                obs['done'] = t.done()
            elif mode == 'server':
                se = ends['se']
                sid = se.peer.request(P.REQ_HEADERS + md_pairs(c['md0']), end_stream=False)
                first = c['reqs'][:mid[0]] if mid else []
                rest = c['reqs'][len(first):]
                for r in first:
                    se.peer.data(sid, P.grpc_frame(bytes(r)))
                if mid:
                    loop.run_quiet(5)
                    open_gate()
                for i, r in enumerate(rest):
                    se.peer.data(sid, P.grpc_frame(bytes(r)), end_stream=(i == len(rest) - 1))
                if not rest:
                    se.peer.end(sid)
                loop.run_quiet(5)
                evs = [e for e in se.peer.take_events() if getattr(e, 'stream_id', None) == sid]
                resp = [e for e in evs if isinstance(e, h2e.ResponseReceived)]
                trl = [e for e in evs if isinstance(e, h2e.TrailersReceived)]
                data = b''.join(e.data for e in evs if isinstance(e, h2e.DataReceived))
                obs['wire_reps'] = split_frames(data)
                if resp and 'grpc-status' in dict(resp[0].headers):
                    obs['wire_tm'] = md_tags(resp[0].headers)
                    obs['wire_status'] = dict(resp[0].headers)['grpc-status']
                else:
                    if resp:
                        obs['wire_im'] = md_tags(resp[0].headers)
                    if trl:
                        obs['wire_tm'] = md_tags(trl[0].headers)
                        obs['wire_status'] = dict(trl[0].headers).get('grpc-status')
                obs['seen'] = dict(call.seen)
            else:
                t = loop.create_task(call.call(ends['channel']))
                loop.run_quiet(10)
                if mid:
                    open_gate()
                    loop.run_quiet(10)
                obs['client'] = dict(call.client)
                obs['seen'] = dict(call.seen)
                obs['done'] = t.done()
            logs = {k: [[r['lid'] for r in o['inv']] for o in v[mark.get(k, 0):]]
                    for k, v in rec.occ.items() if len(v) > mark.get(k, 0)}
            bad = [(k, r['lid'], r['ro_bad']) for k, v in rec.occ.items() for o in v[mark.get(k, 0):]
                   for r in o['inv'] if r['ro_bad']]
            return {'active': active, 'obs': obs, 'logs': logs, 'ro_bad': bad, 'mid': bool(mid)}

        ends = make_ends()
        if case.get('mid'):
            runs.append(one_call(ends, True, mid=case['mid']))
        else:
            if case.get('late'):
                runs.append(one_call(ends, False))
            do_register(ends)
            runs.append(one_call(ends, True))
        if case.get('second'):
            runs.append(one_call(make_ends(), False))
    return {'runs': runs}


def split_frames(data):
    out = []
    while len(data) >= 5:
        n = int.from_bytes(data[1:5], 'big')
        out.append(list(data[5:5 + n]))
        data = data[5 + n:]
    return out


def stages_of(case, active):
    """the hook occurrences of the call, in causal order:
    (key, side, event, [payload in: literal abstract values or ('ref', stage index, position)], observe)
    `observe` names where the returned payload becomes visible."""
    c = case
    mode = c['mode']
    nrep, has_im = reply_shape(c)
    L = c['listeners'] if active else {}
    mid = c.get('mid') if active else None     # (h, g): registration after h requests and g replies
    st = []

    def add(key, payload, observe, before=False):
        """before: the occurrence precedes the mid-call registration (no listener exists yet)"""
        side, ev = key.split(':')
        st.append({'key': key, 'side': side.upper(), 'event': ev, 'in': payload, 'observe': observe,
                   'listeners': [] if (mid and before) else L.get(key, [])})
        return len(st) - 1
    if mode in ('client', 'pair'):
        i_sr = add('c:SendRequest', [c['md0']], 'wire_md', True)
        i_sm = [add('c:SendMessage', [r], ('wire_reqs', j), bool(mid) and j < mid[0])
                for j, r in enumerate(c['reqs'])]
    if mode in ('server', 'pair'):
        md_in = ('ref', i_sr, 0) if mode == 'pair' else c['md0']
        add('s:RecvRequest', [md_in, [0]], 'seen_request', True)
        for j, r in enumerate(c['reqs']):
            add('s:RecvMessage', [('ref', i_sm[j], 0) if mode == 'pair' else r], ('seen_reqs', j),
                bool(mid) and j < mid[0])
        i_im = add('s:SendInitialMetadata', [c['im0'] if c['explicit_im'] else []], 'wire_im', True) \
            if has_im else None
        i_rep = [add('s:SendMessage', [r], ('wire_reps', j), bool(mid) and j < mid[1])
                 for j, r in enumerate(c['reps'][:nrep])]
        i_tm = add('s:SendTrailingMetadata', [c['tm0'] if c['explicit_tm'] else []], 'wire_tm')
    if mode in ('client', 'pair'):
        if mode == 'pair':
            im_in = ('ref', i_im, 0) if has_im else []
            tm_in = ('ref', i_tm, 0)
            reps_in = [('ref', i, 0) for i in i_rep]
        else:
            im_in = c['im0'] if has_im else []
            tm_in = c['tm0']
            reps_in = c['reps'][:nrep]
        add('c:RecvInitialMetadata', [im_in], 'client_im', True)
        if c['card'][1] == 'U':
            reps_in = reps_in[:1]
        for j, r in enumerate(reps_in):
            add('c:RecvMessage', [r], ('client_replies', j), bool(mid) and j < mid[1])
        if c['status'] != 'reset':
            add('c:RecvTrailingMetadata', [tm_in], 'client_tm')
    return st


def observed_value(run, case, observe):
    obs = run['obs']
    cl, seen = obs.get('client', {}), obs.get('seen', {})
    if case['mode'] == 'pair' and observe in ('wire_md', 'wire_im', 'wire_tm') or (
            case['mode'] == 'pair' and isinstance(observe, tuple) and observe[0] in ('wire_reqs', 'wire_reps')):
        return None                       # between two real end points: seen through the next stage
    if observe == 'seen_request':
        return [seen.get('md'), seen.get('handler')]
    if observe in ('client_im', 'client_tm') and cl.get('no_metadata_view'):
        return None                       # the stub entry points do not expose the metadata received
    if observe == 'client_im':
        return [cl.get('im')]
    if observe == 'client_tm':
        return [cl.get('tm')]
    if observe in ('wire_md', 'wire_im', 'wire_tm'):
        return [obs.get(observe)]
    name, j = observe
    if name == 'client_replies' and cl.get('no_replies_view'):
        return None                       # the stub entry point raised: the replies it consumed are not visible
    src = {'wire_reqs': obs.get('wire_reqs'), 'wire_reps': obs.get('wire_reps'),
           'seen_reqs': seen.get('reqs'), 'client_replies': cl.get('replies')}[name]
    return [src[j] if src is not None and j < len(src) else None]


def resolve(stages, outs, i):
    vals = []
    for v in stages[i]['in']:
        if isinstance(v, tuple) and v[0] == 'ref':
            if outs[v[1]] is None:
                return None
            vals.append(outs[v[1]][1][v[2]])
        else:
            vals.append(list(v))
    return vals


def stage_line(side, ev, listeners, payload, kwnames):
    meth = (CLIENT_STAGE_METH if side == 'C' else SERVER_STAGE_METH)[ev]
    parts = [side]
    for lid, acts in listeners:
        parts.append(' '.join(['A', '0', cps(ev), str(lid), str(len(acts))] + [act_word(a) for a in acts]))
    parts.append(' '.join(['K', '0', cps(meth), str(len(payload))] + [val_word(v) for v in payload] +
                          [str(len(kwnames))] + [w for k in kwnames for w in (cps(k), '-')]))
    return ' ; '.join(parts)


def check_e2e(ctx, res, cases):
    results = []
    for case in cases:
        try:
            results.append(run_e2e(case))
        except Exception as e:           # the harness itself failed: the tie is broken, not the property
            results.append({'error': '%s: %s' % (type(e).__name__, str(e)[:200])})
    # model: evaluate every stage of every run, in dependency rounds
    plans = []
    for case, r in zip(cases, results):
        if 'error' in r:
            plans.append(None)
            continue
        plans.append([stages_of(case, run['active']) for run in r['runs']])
    kw = {s: {m: v[2] for m, v in hooks_of(s).items()} for s in 'CS'}
    model_outs = {}
    if ctx.model_ok:
        pending = [(ci, ri, si) for ci, p in enumerate(plans) if p for ri, st in enumerate(p)
                   for si in range(len(st))]
        for _round in range(3):
            batch, lines = [], []
            for ci, ri, si in pending:
                st = plans[ci][ri]
                outs = [model_outs.get((ci, ri, j)) for j in range(len(st))]
                vals = resolve(st, outs, si)
                if vals is None:
                    continue
                s = st[si]
                meth = (CLIENT_STAGE_METH if s['side'] == 'C' else SERVER_STAGE_METH)[s['event']]
                lines.append(stage_line(s['side'], s['event'], s['listeners'], vals, kw[s['side']][meth]))
                batch.append((ci, ri, si))
            if not batch:
                break
            for key, line in zip(batch, ctx.model(lines)):
                ans = parse_model(line)[-1]
                model_outs[key] = (ans[1], ans[3]) if ans[0] == 'ret' else None
            pending = [k for k in pending if k not in model_outs]
    for ci, (case, r) in enumerate(zip(cases, results)):
        res.evaluations += 1
        res.count('e2e:%s:%s' % (case['mode'], case['card']))
        if 'error' in r:
            res.disagreements.append({'case': case, 'model': None, 'impl': 'harness error: ' + r['error']})
            continue
        res.sample({'case': case, 'impl': [run['obs'] for run in r['runs']]}, limit=3)
        for ri, run in enumerate(r['runs']):
            st = plans[ci][ri]
            ref_outs = []
            for si, s in enumerate(st):
                vals = resolve(st, ref_outs, si)
                ref_outs.append(ref_stage(s['event'], s['listeners'], vals))
            which = 'measured' if run['active'] else ('no-listeners' if ri == 0 and case.get('late')
                                                      else 'other-endpoints')
            res.count('e2e:run:' + which)
            # observed logs per event: every occurrence must show the same invocation list
            by_key = {}
            for si, s in enumerate(st):
                by_key.setdefault(s['key'], []).append(si)
            fails, diffs = [], []
            for key, idxs in by_key.items():
                want = [ref_outs[si][0] for si in idxs if ref_outs[si][0]]
                got = run['logs'].get(key, [])
                if len(got) != len(want) and key in ('s:RecvMessage', 'c:RecvMessage', 's:SendMessage',
                                                       'c:SendMessage'):
                    # one listener run per message: count the messages the application really got / sent
                    # while the listeners were registered (handlers and callers drain to end-of-stream)
                    o = run['obs']
                    n_app = {'s:RecvMessage': len(o.get('seen', {}).get('reqs', [])),
                             'c:RecvMessage': len(o.get('client', {}).get('replies', [])),
                             's:SendMessage': len(case['reps']), 'c:SendMessage': len(case['reqs'])}[key]
                    fails.append(('%s: the listeners ran for %d occurrence(s) %r but %d message(s) went through '
                                  'while they were registered (%d in all)' % (
                                      key, len(got), got, len(want), n_app), 'e2e-count', key))
                elif got != want:
                    fails.append(('%s: listeners invoked %r per occurrence, expected %r' % (key, got, want),
                                  'e2e-log', key))
                if ctx.model_ok:
                    mw = [model_outs[(ci, ri, si)][0] for si in idxs
                          if model_outs.get((ci, ri, si)) and model_outs[(ci, ri, si)][0]]
                    if got != mw:
                        diffs.append((key, 'log', mw, got))
            for key in run['logs']:
                if key not in by_key:
                    fails.append(('%s: listeners ran for an event the call shape does not emit: %r' %
                                  (key, run['logs'][key]), 'e2e-log', key))
            for si, s in enumerate(st):
                got = observed_value(run, case, s['observe'])
                if got is None:
                    continue
                want = ref_outs[si][1]
                res.count('e2e:stage:%s' % s['key'])
                if s['listeners']:
                    res.signatures.add(('e2e', case['mode'], s['key'], len(s['listeners']),
                                        len(ref_outs[si][0]), want != resolve(st, ref_outs, si)))
                if got != want:
                    fails.append(('%s: %s shows %r, expected %r (listeners %r)' % (
                        s['key'], s['observe'], got, want, s['listeners']),
                        'e2e-effect' if s['listeners'] else 'e2e-identity', s['key']))
                mo = model_outs.get((ci, ri, si))
                if ctx.model_ok and (mo is None or mo[1] != got):
                    diffs.append((s['key'], s['observe'], mo and mo[1], got))
            for key, lid, rb in run['ro_bad']:
                fails.append(('%s listener %d: %r' % (key, lid, rb), 'e2e-readonly', key))
            for who in ('seen', 'client'):
                if run['obs'].get(who, {}).get('overrun'):
                    fails.insert(0, ('%s: recv_message kept returning messages after the peer ended the '
                                     'stream (receive loop stopped by the harness after %d rounds)' % (
                                         'server handler' if who == 'seen' else 'client', LOOP_SLACK +
                                         len(case['reqs'] if who == 'seen' else case['reps'])),
                                     'e2e-overrun', 's:RecvMessage' if who == 'seen' else 'c:RecvMessage'))
            if run['obs'].get('seen', {}).get('accepted'):
                fails.append(('the server accepted %r, which repeats an operation already done' %
                              run['obs']['seen']['accepted'], 'e2e-refusal', 'call'))
            app = case.get('app') or {}
            res.count('e2e:app:%s%s%s' % (app.get('style', 'explicit'), '+catch' if app.get('catch') else '',
                                          '+repeats' if app.get('extra_c') or app.get('extra_s') else ''))
            if not run['obs'].get('done', True):
                fails.append(('the client application did not finish', 'e2e-status', 'call'))
            if run.get('mid'):
                res.count('e2e:run:mid-call-registration')
                gates = run['obs'].get('at_gate', [False, False])
                need = {'client': gates[0], 'server': gates[1], 'pair': gates[0] and gates[1]}[case['mode']]
                if not need:
                    fails.append(('the call did not reach the registration point', 'e2e-status', 'call'))
            # the call itself must have completed the way its shape says
            obs = run['obs']
            want_status = {'ok': 'OK', 'reset': 'StreamTerminated'}.get(case['status'], 'INTERNAL')
            if 'client' in obs and obs['client'].get('status') != want_status:
                fails.append(('client call ended with %r, expected %s' % (obs['client'].get('status'),
                                                                         want_status), 'e2e-status', 'call'))
            if 'wire_status' in obs or case['mode'] == 'server':
                if obs.get('wire_status') != ('0' if case['status'] == 'ok' else '13'):
                    fails.append(('server answered grpc-status %r' % obs.get('wire_status'), 'e2e-status',
                                  'call'))
            if ctx.model_ok:
                res.traces += 1
            for what, kind, key in fails[:6]:
                res.oracle_failures.append({
                    'case': case, 'what': '[%s run] %s' % (which, what),
                    'signature': {'kind': 'e2e', 'what': kind, 'mode': case['mode'], 'event': key},
                    'observed': obs})
            if diffs:
                res.disagreements.append({'case': case, 'model': [d[:3] for d in diffs[:4]],
                                          'impl': [(d[0], d[1], d[3]) for d in diffs[:4]]})


def gen_e2e_acts(rng, evname):
    acts = gen_acts(rng, evname, wild=False)
    out = []
    for a in acts:
        if a[0] != 'i':
            if a[1] == 'message':
                a[2] = [rng.randint(0, 255) for _ in range(rng.choice([0, 1, 2, 5]))]
            elif a[1] in ('metadata', 'method_func'):
                a[2] = [rng.randint(1, 99) for _ in range(rng.choice([0, 1, 2]))]
            if a[1] not in MUTABLE[evname]:
                a[3] = True
        out.append(a)
    return out


def gen_e2e(rng, mode=None):
    mode = mode or rng.choice(['client', 'server', 'pair'])
    card = rng.choice(['UU', 'US', 'SU', 'SS'])
    nreq = 1 if card[0] == 'U' else rng.choice([0, 1, 2, 3])
    status = rng.choice(['ok', 'ok', 'ok', 'early', 'late'])
    nrep = 1 if card[1] == 'U' else rng.choice([0, 1, 2, 3])

    def msg():
        return [rng.randint(0, 255) for _ in range(rng.choice([0, 1, 3, 8]))]

    def tags():
        return [rng.randint(1, 99) for _ in range(rng.choice([0, 1, 2]))]
    mid = None
    if rng.random() < 0.3:
        # a long-lived streaming call: messages both ways, THEN listen(), then more on the same call
        card, status = 'SS', rng.choice(['ok', 'ok', 'late'])
        nreq, nrep = rng.choice([1, 2, 3, 3]), rng.choice([1, 2, 3, 3])
        mid = [rng.choice([0, nreq]) if rng.random() < 0.2 else rng.randint(1, max(1, nreq - 1)),
               rng.choice([0, nrep]) if rng.random() < 0.2 else rng.randint(1, max(1, nrep - 1))]
    case = {'kind': 'e2e', 'mode': mode, 'card': card, 'status': status,
            'explicit_im': rng.random() < 0.5, 'explicit_tm': rng.random() < 0.5,
            'md0': tags(), 'im0': tags(), 'tm0': tags(),
            'reqs': [msg() for _ in range(nreq)], 'reps': [msg() for _ in range(nrep)],
            'late': rng.random() < 0.35, 'second': rng.random() < 0.25, 'bits': rng.randrange(64),
            'listeners': {}}
    # the application programs: explicit / implicit receive steps / stub entry point; errors handled
    # inside the `async with` block (then the block is left normally); operations repeated after they are done
    case['app'] = {
        'style': rng.choice(['explicit', 'explicit', 'implicit', 'implicit', 'stub']),
        'catch': rng.random() < 0.45, 'explicit_tm': rng.random() < 0.5,
        'extra_c': [op for op in ('send_request', 'send_message', 'recv_initial_metadata',
                                  'recv_trailing_metadata', 'end') if rng.random() < 0.15],
        'extra_s': [op for op in ('send_initial_metadata', 'send_message', 'send_trailing_metadata',
                                  'early_trailing') if rng.random() < 0.2]}
    if mode == 'client' and not mid and rng.random() < 0.15:
        case['status'] = 'reset'                 # the scripted server resets the stream after its replies
    if mid:
        case['mid'] = mid
        case['explicit_im'] = True
        case['late'] = False
        if case['app']['style'] == 'stub':
            case['app']['style'] = 'explicit'
    if mode == 'client':
        # the scripted server always states im0 / tm0
        case['explicit_im'] = case['explicit_tm'] = True
    lid = 1
    keys = (['c:' + e for e in CLIENT_EVENTS] if mode != 'server' else []) + \
           (['s:' + e for e in SERVER_EVENTS] if mode != 'client' else [])
    for key in keys:
        if rng.random() < 0.3:
            continue
        ls = []
        for _ in range(rng.choice([1, 1, 2, 3])):
            ls.append([lid, gen_e2e_acts(rng, key.split(':')[1])])
            lid += 1
        if rng.random() < 0.15:
            ls.append(list(rng.choice(ls)))                  # one listener registered a second time
        case['listeners'][key] = ls
    return case


# ---- driver -------------------------------------------------------------------------------------

def normalise(case):
    """undo JSON: tuples became lists already; nothing binary in C18 cases"""
    return case


def run(ctx):
    res = Result()
    rng = ctx.rng
    res.rule = ('direct: PRNG operation sequences (listen / hook call, 2..12 ops) on up to 3 real '
                '_DispatchChannelEvents / _DispatchServerEvents objects, 0..7 listeners per event, statements '
                'drawn from {assign / read-modify-write a payload field, a read-only field, an unknown name, '
                '__interrupted__; interrupt()}, guarded or not; plus the full small matrix of 0..2 listeners x '
                'statement templates for all 10 event types; e2e: one RPC (UU/US/SU/SS, 0..3 messages each '
                'way, explicit/implicit metadata, OK / early error / late error) on a real Channel against a '
                'scripted h2 server, a real Server against a scripted h2 client, and a real pair '
                '(ChannelFor), 0..3 listeners on each of the events of the side(s), optionally registered '
                'after a first call, or registered in the middle of an open streaming call (after h requests and '
                'g replies went through the same Stream objects), optionally followed by the same call on fresh '
                'end points; every receive loop is bounded; distinct = '
                '(event, listeners registered, listeners invoked, how the loop ended, fields assigned)')
    old = logging.root.manager.disable
    logging.disable(logging.CRITICAL)
    FLAG_SLOT[0] = has_flag_slot()
    dispatch_class('C'), dispatch_class('S')
    try:
        corpus = [normalise(c) for c in ctx.corpus()]
        direct = [c for c in corpus if c.get('kind') == 'direct']
        e2e = [c for c in corpus if c.get('kind') == 'e2e']
        small = exhaustive_small()
        if ctx.tier != 'thorough' and not ctx.search:
            small = [c for i, c in enumerate(small) if i % 3 == 0]
        direct += small
        res.extra['small_matrix_cases'] = len(small)
        for _ in range(ctx.n(5000, 60000)):
            direct.append(gen_direct(rng))
        for mode in ('client', 'server', 'pair'):
            for _ in range(ctx.n(300, 4000)):
                e2e.append(gen_e2e(rng, mode))
        KIND_COUNTS.clear()
        check_direct(ctx, res, direct)
        check_e2e(ctx, res, e2e)
        for k, v in sorted(KIND_COUNTS.items()):
            res.count('kinds:' + k, v)
    finally:
        logging.disable(old)
    return res


def replay(ctx, case):
    res = Result()
    case = normalise(case)
    dispatch_class('C'), dispatch_class('S')
    old = logging.root.manager.disable
    logging.disable(logging.CRITICAL)
    try:
        if case.get('kind') == 'direct':
            check_direct(ctx, res, [case])
        elif case.get('kind') == 'e2e':
            check_e2e(ctx, res, [case])
    finally:
        logging.disable(old)
    return res
