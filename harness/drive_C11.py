"""C11 -- multiplexed calls are isolated: correspondence of Model/Mux.v with the real demultiplexer
(EventsProcessor + Handler + Wrapper) watched from outside, and the direct oracle "every call's result
equals the result of the same call executed alone on a fresh connection, and the connection still works
afterwards", on three set-ups of the virtual loop:
  client -- real Channel, scripted server peer interleaving the response frames of 2..5 calls,
  server -- real Server, scripted client peer interleaving the request frames, handlers logging,
  link   -- real client <-> real server through a byte re-cutter.
A scenario is a plain JSON document (no PRNG at execution time), so every case replays exactly."""
import asyncio
import json
import logging

import h2.events as E
from h2.settings import SettingCodes

from harness import vloop, wire, peer as P
from harness.core import Result
from harness.svc import RawCodec, Service, CARDS, exc_name
from harness.c11_util import Recorder, drop_eof_marks, mask_wu, parse_mux, mask_like, h2_of, connect_link

PROPERTY = 'C11'
THEOREM_FILES = ['Props/C11.v']
ALLOWED_AXIOMS = []
LABEL = ('full on the model (non-interference for all states, all event lists, all interleavings, all '
         'failure subsets); the model starts at the h2-event boundary: coupling through HTTP/2 itself '
         '(shared connection window, HPACK state) is exercised by the runs only')
TRUSTED = ['modelled, not verified: hyper-h2 (which events it emits), asyncio task/Event semantics below the wrapper '
           'error slot; the recorder harness/c11_util.py reads grpclib attributes from outside '
           '(processor.streams, Stream.headers/trailers/events; a Buffer\'s queue and end flag, a Wrapper\'s '
           'error and the Handler\'s task table are located by role, and masked on both sides when they cannot be)']
ASSUMPTIONS = ['payloads stay far below the 65535-byte connection window, so calls do not compete for '
               'flow-control credit (that coupling is HTTP/2 semantics, see C07/C08)',
               'no bytes are delivered to data_received after the connection was closed (asyncio '
               'transports guarantee it)']

TICK = 0.0
PATHS = {'UU': '/v.S/UU', 'US': '/v.S/US', 'SU': '/v.S/SU', 'SS': '/v.S/SS'}
CLIENT_STRIKES = ['rst', 'task-cancel', 'stream-cancel', 'deadline', 'bad-ct', 'no-status', 'bad-status',
                  'http-503']
SERVER_STRIKES = ['rst', 'handler-exc', 'deadline', 'bad-ct', 'no-te', 'no-method']
LINK_STRIKES = ['task-cancel', 'stream-cancel', 'deadline', 'handler-exc']
RST_CODES = [0, 1, 2, 7, 8, 11, 99]
STATUS_NAMES = {0: 'OK', 1: 'CANCELLED', 2: 'UNKNOWN', 3: 'INVALID_ARGUMENT', 4: 'DEADLINE_EXCEEDED',
                5: 'NOT_FOUND', 7: 'PERMISSION_DENIED', 9: 'FAILED_PRECONDITION', 13: 'INTERNAL',
                14: 'UNAVAILABLE'}


# ---- generators ---------------------------------------------------------------------------------------

def payload(rng, tag, kind, j):
    n = rng.choice([0, 1, 5, 5, 40, 300])
    return ('%s-%s%d-' % (tag, kind, j)).encode() + bytes(rng.randint(0, 255) for _ in range(n))


def cut_body(rng, body):
    """re-cut a byte string into 1..4 DATA chunks at PRNG offsets (not aligned with messages)"""
    if not body:
        return []
    n = rng.choice([1, 1, 2, 3, 4])
    cuts = sorted(set(rng.randint(0, len(body)) for _ in range(n - 1)))
    out, pos = [], 0
    for c in cuts + [len(body)]:
        if c > pos:
            out.append(body[pos:c])
            pos = c
    if rng.random() < 0.08:
        out.insert(rng.randint(0, len(out)), b'')          # an empty DATA frame (D1)
    return out


def gen_call_common(rng, i, strikes, p_strike):
    card = rng.choice(['UU', 'US', 'SU', 'SS'])
    tag = 'c%d' % i
    nreq = 1 if card[0] == 'U' else rng.choice([0, 1, 2, 3])
    nresp = 1 if card[1] == 'U' else rng.choice([0, 1, 2, 4])
    c = {
        'tag': tag, 'card': card, 'path': PATHS[card],
        'md': [['x-call', tag], ['x-req', 'request of %s' % tag]] + ([['x-shared', 'same']] if rng.random() < 0.5 else []),
        'req': [payload(rng, tag, 'q', j).hex() for j in range(nreq)],
        'resp': [payload(rng, tag, 'r', j).hex() for j in range(nresp)],
        'im': [['x-im', 'initial of %s' % tag]] + ([['x-shared', 'same']] if rng.random() < 0.5 else []),
        'tm': [['x-tm', 'trailing of %s' % tag]],
        'status': 0, 'timeout': rng.choice([None, None, 1000.0]), 'strike': None,
    }
    if rng.random() < 0.15:
        c['status'] = rng.choice([3, 5, 7, 9, 13])           # the call's own, legitimate failure
    if rng.random() < p_strike:
        c['strike'] = {'kind': rng.choice(strikes)}
    return c


def frame(msg):
    return P.grpc_frame(msg)


def client_strand(rng, c):
    """the response frames of one call, as the scripted server sends them"""
    k = c['strike']['kind'] if c['strike'] else None
    hs = [[':status', '503' if k == 'http-503' else '200'],
          ['content-type', 'text/plain' if k == 'bad-ct' else 'application/grpc']] + c['im']
    trl = [] if k == 'no-status' else [['grpc-status', 'xyz' if k == 'bad-status' else str(c['status'])]]
    if c['status']:
        trl.append(['grpc-message', 'failed %s' % c['tag']])
    trl += c['tm']
    if c['status'] and rng.random() < 0.5 and k is None:
        c['trailers_only'] = True
        return [['H', hs[:2] + trl, True]]
    c['trailers_only'] = False
    body = b''.join(frame(bytes.fromhex(m)) for m in c['resp'])
    return [['H', hs, False]] + [['D', ch.hex(), False] for ch in cut_body(rng, body)] + [['H', trl, True]]


def place_strike(rng, c, frames, t_short=2.0, dt=5.0):
    """turn a call's own frame list into its strand: frame indices and strike actions, in order"""
    strand = [['f', i] for i in range(len(frames))]
    s = c['strike']
    if not s:
        return strand
    k = s['kind']
    p = rng.randint(0, len(frames))
    if k == 'rst':
        s['code'] = rng.choice(RST_CODES)
        strand = strand[:p] + [['rst', s['code']]]
    elif k == 'task-cancel':
        strand = strand[:p] + [['cancel']] + strand[p:]
    elif k == 'deadline':
        c['timeout'] = t_short
        strand = strand[:p] + [['advance', dt]] + strand[p:]
    elif k == 'stream-cancel':
        s['after'] = rng.randint(0, max(0, len(c['resp'])))
    return strand


CONN_STEPS = [['ping'], ['ping'], ['unk', 0x0b, 0, -1, 'abc'.encode().hex()], ['unk', 0x4f, 0xff, -2, ''],
              ['unk', 0x0a, 0, -1, b'\x00\x03foobar'.hex()], ['wu0', 1000], ['set_iw', 70000],
              ['set_iw', 65535], ['prio', -2], ['set_mcs', 100]]


def merge_schedule(rng, strands, p_conn=0.25, p_join=0.5, allow_pause=True):
    """PRNG interleaving of the strands (each keeps its order) with connection-level frames sprinkled in,
    then grouped into reads; actions (cancel / advance / pause / resume) stand between reads"""
    pos = [0] * len(strands)
    steps = []
    paused = False
    while any(pos[i] < len(strands[i]) for i in range(len(strands))):
        if rng.random() < p_conn:
            st = list(rng.choice(CONN_STEPS))
            if st[0] in ('unk', 'prio') and st[-2 if st[0] == 'unk' else -1] == -2:
                st[-2 if st[0] == 'unk' else -1] = rng.randrange(len(strands))     # on a live stream
            steps.append(st)
        if allow_pause and rng.random() < 0.03:
            steps.append(['resume'] if paused else ['pause'])
            paused = not paused
        i = rng.choice([j for j in range(len(strands)) if pos[j] < len(strands[j])])
        st = strands[i][pos[i]]
        pos[i] += 1
        steps.append([st[0], i] + st[1:])
    if paused:
        steps.append(['resume'])
    sched, cur = [], []
    for st in steps:
        if st[0] in ('cancel', 'advance', 'pause', 'resume'):
            if cur:
                sched.append({'read': cur, 'cuts': [rng.randint(0, 4000) for _ in range(rng.choice([0, 0, 1, 3]))]})
                cur = []
            sched.append({'act': st})
        else:
            cur.append(st)
            if rng.random() > p_join:
                sched.append({'read': cur, 'cuts': [rng.randint(0, 4000) for _ in range(rng.choice([0, 0, 1, 3]))]})
                cur = []
    if cur:
        sched.append({'read': cur, 'cuts': []})
    return sched


def gen_client(rng):
    k = rng.choice([2, 2, 3, 3, 4, 5])
    calls = [gen_call_common(rng, i, CLIENT_STRIKES, 0.45) for i in range(k)]
    strands = []
    for c in calls:
        c['frames'] = client_strand(rng, c)
        strands.append(place_strike(rng, c, c['frames']))
    sched = merge_schedule(rng, strands)
    if rng.random() < 0.15:
        # D21 (repaired): the peer opens a stream towards the client; it must be refused without touching anybody
        reads = [it for it in sched if 'read' in it]
        if reads:
            it = rng.choice(reads)
            it['read'].insert(rng.randint(0, len(it['read'])), ['evenhdr', 2])
    return {'end': 'client', 'calls': calls, 'sched': sched}


def server_strand(rng, c):
    k = c['strike']['kind'] if c['strike'] else None
    hs = [[':method', 'GET' if k == 'no-method' else 'POST'], [':scheme', 'http'], [':path', c['path']],
          [':authority', 'x']]
    if k != 'no-te':
        hs.append(['te', 'trailers'])
    hs.append(['content-type', 'text/plain' if k == 'bad-ct' else 'application/grpc'])
    if c.get('timeout_hdr'):
        hs.append(['grpc-timeout', c['timeout_hdr']])
    hs += c['md']
    body = b''.join(frame(bytes.fromhex(m)) for m in c['req'])
    chunks = cut_body(rng, body)
    if not chunks or rng.random() < 0.3:
        return [['H', hs, False]] + [['D', ch.hex(), False] for ch in chunks] + [['D', '', True]]
    return [['H', hs, False]] + [['D', ch.hex(), False] for ch in chunks[:-1]] + [['D', chunks[-1].hex(), True]]


def gen_server(rng):
    k = rng.choice([2, 2, 3, 3, 4, 5])
    calls = [gen_call_common(rng, i, SERVER_STRIKES, 0.45) for i in range(k)]
    strands = []
    for c in calls:
        c['timeout_hdr'] = '1000S' if c['timeout'] else None
        c['raise'] = None
        s = c['strike']
        if s and s['kind'] == 'handler-exc':
            c['raise'] = rng.choice(['ValueError', 'GRPCError:5', 'KeyError'])
            c['raise_after'] = rng.randint(0, len(c['req']))
        if s and s['kind'] == 'deadline':
            c['timeout_hdr'] = '2S'
        c['frames'] = server_strand(rng, c)
        strand = place_strike(rng, c, c['frames'])
        if s and s['kind'] == 'deadline':
            # the deadline must strike while the handler still waits: the advance goes before the last frame
            strand = [x for x in strand if x[0] != 'advance']
            p = rng.randint(1, len(strand) - 1)
            strand = strand[:p] + [['advance', 5.0]] + strand[p:]
        strands.append(strand)
    return {'end': 'server', 'calls': calls, 'sched': merge_schedule(rng, strands, allow_pause=False)}


DELAYS = [0, 0, 0.125, 0.25, 0.5, 1.0]


def gen_link(rng):
    k = rng.choice([2, 3, 3, 4, 5])
    calls = [gen_call_common(rng, i, LINK_STRIKES, 0.4) for i in range(k)]
    for c in calls:
        c['raise'] = None
        c['req_delays'] = [rng.choice(DELAYS) for _ in c['req']]
        c['resp_delays'] = [rng.choice(DELAYS) for _ in c['resp']]
        c['start'] = rng.choice(DELAYS)
        s = c['strike']
        if s:
            if s['kind'] == 'handler-exc':
                c['raise'] = rng.choice(['ValueError', 'GRPCError:5', 'KeyError'])
                c['raise_after'] = rng.randint(0, len(c['req']))
            elif s['kind'] == 'deadline':
                c['timeout'] = 2.0
                c['resp_delays'] = [8.0] + c['resp_delays'][1:] if c['resp_delays'] else []
                c['final_delay'] = 8.0
            elif s['kind'] == 'task-cancel':
                s['at'] = rng.choice([0, 0.125, 0.25, 0.5, 1.0, 2.0, 4.0])
            elif s['kind'] == 'stream-cancel':
                s['after'] = rng.randint(0, len(c['resp']))
    return {'end': 'link', 'calls': calls, 'cut_seed': rng.randint(0, 10 ** 9),
            'cut_mode': rng.choice(['none', 'small', 'mixed'])}


# ---- the real calls -----------------------------------------------------------------------------------

def items(md):
    return [[k, v if isinstance(v, str) else v.hex()] for k, v in md.items()] if md is not None else None


async def client_call(channel, spec, rec, md_obj=None):
    card = CARDS[spec['card']]
    msgs = [bytes.fromhex(h) for h in spec['req']]
    s = spec.get('strike') or {}
    st = None
    try:
        if spec.get('start'):
            await asyncio.sleep(spec['start'])
        async with channel.request(spec['path'], card, bytes, bytes, timeout=spec.get('timeout'),
                                   metadata=(md_obj if md_obj is not None
                                             else [tuple(x) for x in spec['md']])) as st:
            delays = spec.get('req_delays') or [0] * len(msgs)
            if card.client_streaming:
                if not msgs:
                    await st.send_request(end=True)
                for j, m in enumerate(msgs):
                    if delays[j]:
                        await asyncio.sleep(delays[j])
                    await st.send_message(m, end=(j == len(msgs) - 1))
            else:
                await st.send_message(msgs[0], end=True)
            await st.recv_initial_metadata()
            rec['im'] = items(st.initial_metadata)
            n, cancelled = 0, False
            while True:
                if s.get('kind') == 'stream-cancel' and n >= s['after']:
                    await st.cancel()
                    cancelled = True
                    break
                m = await st.recv_message()
                if m is None:
                    break
                rec['msgs'].append(m.hex())
                n += 1
                if not card.server_streaming:
                    break
            if not cancelled:
                await st.recv_trailing_metadata()
    except BaseException as e:                      # noqa: the class is the observation
        rec['exc'] = exc_name(e)
    finally:
        if st is not None:
            if rec['im'] is None and st.initial_metadata is not None:
                rec['im'] = items(st.initial_metadata)
            rec['tm'] = items(st.trailing_metadata)
    rec['done'] = True


def new_rec():
    return {'exc': 'ok', 'im': None, 'msgs': [], 'tm': None, 'done': False}


def make_service(specs, logs):
    """handlers that log what they received and answer as the spec of their call says"""
    from grpclib.const import Status
    from grpclib.exceptions import GRPCError

    def boom(kind):
        if kind == 'ValueError':
            return ValueError('handler failed')
        if kind == 'KeyError':
            return KeyError('handler failed')
        return GRPCError(Status(int(kind.split(':')[1])), 'handler says no')

    async def handle(stream):
        tag = stream.metadata.get('x-call')
        spec = specs.get(tag)
        log = logs.setdefault(tag, {'md': None, 'msgs': [], 'exc': None, 'runs': 0})
        log['runs'] += 1
        log['md'] = items(stream.metadata)
        if spec is None:                                      # the fresh call after the scenario
            await stream.recv_message()
            await stream.send_message(b'fresh-reply')
            return
        try:
            n = 0
            if spec.get('raise') and spec['raise_after'] <= n:
                raise boom(spec['raise'])
            while True:
                m = await stream.recv_message()
                if m is None:
                    break
                log['msgs'].append(m.hex())
                n += 1
                if spec.get('raise') and spec['raise_after'] <= n:
                    raise boom(spec['raise'])
                if spec['card'][0] == 'U':
                    break
            await stream.send_initial_metadata(metadata=[tuple(x) for x in spec['im']])
            delays = spec.get('resp_delays') or [0] * len(spec['resp'])
            for j, r in enumerate(spec['resp']):
                if delays[j]:
                    await asyncio.sleep(delays[j])
                await stream.send_message(bytes.fromhex(r))
            if spec.get('final_delay'):
                await asyncio.sleep(spec['final_delay'])
            await stream.send_trailing_metadata(
                status=Status(spec['status']),
                status_message=('failed %s' % tag) if spec['status'] else None,
                metadata=[tuple(x) for x in spec['tm']])
        except BaseException as e:                  # noqa
            log['exc'] = exc_name(e)
            raise

    return Service('v.S', {'UU': (handle, 'UU'), 'US': (handle, 'US'), 'SU': (handle, 'SU'),
                           'SS': (handle, 'SS'), 'Fresh': (handle, 'UU')})


# ---- frames of the scripted peers ---------------------------------------------------------------------

def conn_step_bytes(peer, st, sid_of):
    """bytes of one connection-level step (h2-made or raw)"""
    k = st[0]
    if k == 'ping':
        peer.h2.ping(b'12345678')
        return peer.h2.data_to_send()
    if k == 'wu0':
        peer.h2.increment_flow_control_window(st[1])
        return peer.h2.data_to_send()
    if k == 'set_iw':
        peer.h2.update_settings({SettingCodes.INITIAL_WINDOW_SIZE: st[1]})
        return peer.h2.data_to_send()
    if k == 'set_mcs':
        peer.h2.update_settings({SettingCodes.MAX_CONCURRENT_STREAMS: st[1]})
        return peer.h2.data_to_send()
    if k == 'unk':
        sid = 0 if st[3] < 0 else sid_of(st[3])
        if sid is None:
            return b''
        return P.frame_bytes(st[1], st[2], sid, bytes.fromhex(st[4]))
    if k == 'evenhdr':
        # HEADERS that open a peer-initiated (even) stream towards a client: h2 accepts them (D21, repaired)
        from hpack import Encoder, NeverIndexedHeaderTuple
        block = Encoder().encode([NeverIndexedHeaderTuple(a, b) for a, b in
                                  [(':method', 'POST'), (':scheme', 'http'), (':path', '/v.S/UU'),
                                   (':authority', 'x'), ('te', 'trailers'),
                                   ('content-type', 'application/grpc')]], huffman=False)
        return P.frame_bytes(0x01, 0x04, st[1], block)
    if k == 'prio':
        sid = sid_of(st[1]) if st[1] >= 0 else None
        if sid is None:
            return b''
        return P.frame_bytes(0x02, 0, sid, b'\x00\x00\x00\x00\x10')
    return b''


def step_visible(st, only):
    """does this step belong to the solo run of call `only`"""
    k = st[0]
    if k in ('f', 'rst', 'cancel'):
        return st[1] == only
    if k == 'unk':
        return st[3] < 0 or st[3] == only
    if k == 'prio':
        return st[1] == only
    return True                                     # connection-level frames, advance, pause, resume


def feed_cut(transport, data, cuts):
    if data:
        transport.feed(data, sorted(set(c % (len(data) + 1) for c in cuts)))


def attach_recorder(ce, recs, side):
    """a Recorder on every connection the ClientEnd makes (ClientEnd.attempt is the harness's own hook at the
    asyncio boundary)"""
    orig = ce.attempt

    async def attempt(factory):
        p = await orig(factory)
        recs.append(Recorder(p, side))
        return p
    ce.attempt = attempt


# ---- client end ------------------------------------------------------------------------------------------

def run_client(scn, only=None):
    calls = scn['calls']
    idxs = [only] if only is not None else list(range(len(calls)))
    out = {'calls': {}, 'fresh': None, 'connects': None, 'rec': None, 'peer_req': {}, 'skipped': 0,
           'violations': 0}
    with vloop.session() as loop:
        ce = wire.ClientEnd(loop)
        recs = []
        attach_recorder(ce, recs, 'C')
        rr = {i: new_rec() for i in idxs}
        tasks = {i: loop.create_task(client_call(ce.channel, calls[i], rr[i])) for i in idxs}
        loop.run_quiet(TICK)
        peer = ce.peer
        sid = {}

        def absorb():
            for ev in peer.take_events():
                if isinstance(ev, E.RequestReceived):
                    tag = dict(ev.headers).get('x-call')
                    for i in idxs:
                        if calls[i]['tag'] == tag:
                            sid[i] = ev.stream_id
                    out['peer_req'][ev.stream_id] = {
                        'md': [[k, v] for k, v in ev.headers if k.startswith('x-')], 'data': b''}
                elif isinstance(ev, E.DataReceived) and ev.stream_id in out['peer_req']:
                    out['peer_req'][ev.stream_id]['data'] += ev.data
        absorb()
        for item in scn['sched']:
            if 'act' in item:
                st = item['act']
                if not step_visible(st, only) and only is not None:
                    continue
                if st[0] == 'cancel':
                    tasks[st[1]].cancel()
                elif st[0] == 'advance':
                    loop.advance(st[2] if len(st) > 2 else st[1])
                elif st[0] == 'pause':
                    ce.transport.pause()
                elif st[0] == 'resume':
                    ce.transport.resume()
            else:
                buf = b''
                for st in item['read']:
                    if only is not None and not step_visible(st, only):
                        continue
                    try:
                        if st[0] == 'f':
                            fr = calls[st[1]]['frames'][st[2]]
                            if fr[0] == 'H':
                                peer.h2.send_headers(sid[st[1]], [tuple(x) for x in fr[1]], end_stream=fr[2])
                            else:
                                peer.h2.send_data(sid[st[1]], bytes.fromhex(fr[1]), end_stream=fr[2])
                            buf += peer.h2.data_to_send()
                        elif st[0] == 'rst':
                            peer.h2.reset_stream(sid[st[1]], error_code=st[2])
                            buf += peer.h2.data_to_send()
                        else:
                            buf += conn_step_bytes(peer, st, lambda i: sid.get(i))
                    except Exception:               # the scripted peer's own h2 refuses (stream closed by the client's RST)
                        out['skipped'] += 1
                        buf += peer.h2.data_to_send()
                feed_cut(ce.transport, buf, item.get('cuts') or [])
            loop.run_quiet(TICK)
            absorb()
        loop.run_quiet(TICK)
        loop.advance(30)
        absorb()
        for i in idxs:
            r = rr[i]
            if not r['done']:
                r['exc'] = 'PENDING'
            out['calls'][i] = {'exc': r['exc'], 'im': r['im'], 'msgs': r['msgs'], 'tm': r['tm'],
                               'peer_md': None, 'peer_data': None}
            if i in sid:
                out['calls'][i]['peer_md'] = out['peer_req'][sid[i]]['md']
                out['calls'][i]['peer_data'] = out['peer_req'][sid[i]]['data'].hex()
        # the connection still works: a fresh call on the same channel
        from grpclib.client import UnaryUnaryMethod
        m = UnaryUnaryMethod(ce.channel, '/v.S/Fresh', bytes, bytes)
        ft = loop.create_task(m(b'fresh', metadata=[('x-call', 'fresh')]))
        loop.run_quiet(TICK)
        fs = None
        for ev in ce.peer.take_events():
            if isinstance(ev, E.RequestReceived) and dict(ev.headers).get('x-call') == 'fresh':
                fs = ev.stream_id
        if fs is not None:
            p2 = ce.peer
            p2.headers(fs, P.RESP_HEADERS, flush=False)
            p2.data(fs, P.grpc_frame(b'fresh-reply'), flush=False)
            p2.headers(fs, [('grpc-status', '0')], end_stream=True)
        loop.run_quiet(TICK)
        loop.advance(5)
        o = vloop.outcome(ft)
        out['fresh'] = 'ok' if o == ('ok', b'fresh-reply') else (exc_name(o[1]) if o[0] == 'exc' else o[0])
        out['connects'] = ce.connects
        out['violations'] = sum(len(c[2].violations) for c in ce.conns)
        out['rec'] = recs[0] if recs else None
        out['final'] = recs[0].final() if recs else None
    return out


# ---- server end ------------------------------------------------------------------------------------------

def collect_wire(events, sid):
    w = {'resp': None, 'data': b'', 'trl': None, 'ended': False, 'reset': None}
    for ev in events:
        if getattr(ev, 'stream_id', None) != sid:
            continue
        if isinstance(ev, E.ResponseReceived):
            w['resp'] = [[k, v] for k, v in ev.headers]
        elif isinstance(ev, E.DataReceived):
            w['data'] += ev.data
        elif isinstance(ev, E.TrailersReceived):
            w['trl'] = [[k, v] for k, v in ev.headers]
        elif isinstance(ev, E.StreamEnded):
            w['ended'] = True
        elif isinstance(ev, E.StreamReset):
            w['reset'] = int(ev.error_code)
    w['data'] = w['data'].hex()
    return w


def run_server(scn, only=None):
    calls = scn['calls']
    idxs = [only] if only is not None else list(range(len(calls)))
    out = {'calls': {}, 'fresh': None, 'rec': None, 'skipped': 0, 'violations': 0}
    specs = {calls[i]['tag']: calls[i] for i in idxs}
    logs = {}
    with vloop.session() as loop:
        se = wire.ServerEnd(loop, [make_service(specs, logs)])
        rec = Recorder(se.proto, 'S')
        loop.run_quiet(TICK)
        peer = se.peer
        peer.take_events()
        sid = {}
        events = []
        for item in scn['sched']:
            if 'act' in item:
                st = item['act']
                if st[0] == 'advance':
                    loop.advance(st[2] if len(st) > 2 else st[1])
            else:
                buf = b''
                for st in item['read']:
                    if only is not None and not step_visible(st, only):
                        continue
                    try:
                        if st[0] == 'f':
                            i = st[1]
                            fr = calls[i]['frames'][st[2]]
                            if fr[0] == 'H':
                                sid[i] = peer.next_stream_id()
                                peer.h2.send_headers(sid[i], [tuple(x) for x in fr[1]], end_stream=fr[2])
                            else:
                                peer.h2.send_data(sid[i], bytes.fromhex(fr[1]), end_stream=fr[2])
                            buf += peer.h2.data_to_send()
                        elif st[0] == 'rst':
                            if st[1] in sid:
                                peer.h2.reset_stream(sid[st[1]], error_code=st[2])
                                buf += peer.h2.data_to_send()
                        else:
                            buf += conn_step_bytes(peer, st, lambda i: sid.get(i))
                    except Exception:
                        out['skipped'] += 1
                        buf += peer.h2.data_to_send()
                feed_cut(se.transport, buf, item.get('cuts') or [])
            loop.run_quiet(TICK)
            events += peer.take_events()
        loop.run_quiet(TICK)
        loop.advance(30)
        events += peer.take_events()
        for i in idxs:
            log = logs.get(calls[i]['tag']) or {'md': None, 'msgs': [], 'exc': None, 'runs': 0}
            out['calls'][i] = {'handler': log, 'wire': collect_wire(events, sid.get(i))}
        # a fresh request on the same connection
        fs = peer.next_stream_id()
        peer.h2.send_headers(fs, [(':method', 'POST'), (':scheme', 'http'), (':path', '/v.S/Fresh'),
                                  (':authority', 'x'), ('te', 'trailers'),
                                  ('content-type', 'application/grpc'), ('x-call', 'fresh')])
        peer.h2.send_data(fs, P.grpc_frame(b'fresh'), end_stream=True)
        peer.flush()
        loop.run_quiet(TICK)
        loop.advance(5)
        w = collect_wire(peer.take_events(), fs)
        ok = (w['data'] == P.grpc_frame(b'fresh-reply').hex() and w['trl'] is not None and
              dict(map(tuple, w['trl'])).get('grpc-status') == '0' and w['ended'])
        out['fresh'] = 'ok' if ok else json.dumps(w)
        out['violations'] = len(peer.violations)
        out['rec'] = rec
        out['final'] = rec.final()
        out['leftover'] = sorted(se.proto.processor.streams)
    return out


# ---- real client <-> real server -------------------------------------------------------------------------

def run_link(scn, only=None):
    import random
    from grpclib.client import Channel, UnaryUnaryMethod
    from grpclib.server import Server
    calls = scn['calls']
    idxs = [only] if only is not None else list(range(len(calls)))
    out = {'calls': {}, 'fresh': None, 'rec': None}
    specs = {calls[i]['tag']: calls[i] for i in idxs}
    logs = {}
    crng = random.Random(scn['cut_seed'])

    def cutter(data):
        mode = scn['cut_mode']
        if mode == 'none' or len(data) < 2:
            return None
        if mode == 'small':
            return list(range(1, len(data), crng.choice([1, 2, 3, 7])))
        return [crng.randint(1, len(data) - 1) for _ in range(crng.choice([0, 1, 2, 5]))]

    with vloop.session() as loop:
        server = Server([make_service(specs, logs)], codec=RawCodec())
        channel = Channel(codec=RawCodec())
        state = {'connects': 0, 'recs': []}
        connect_link(loop, channel, server, cutter, state)
        rr = {i: new_rec() for i in idxs}
        tasks = {i: loop.create_task(client_call(channel, calls[i], rr[i])) for i in idxs}
        for i in idxs:
            s = calls[i].get('strike')
            if s and s['kind'] == 'task-cancel':
                loop.call_later(s['at'], tasks[i].cancel)
        loop.run_quiet(100)
        for i in idxs:
            r = rr[i]
            if not r['done']:
                r['exc'] = 'PENDING'
            log = logs.get(calls[i]['tag']) or {'md': None, 'msgs': [], 'exc': None, 'runs': 0}
            out['calls'][i] = {'exc': r['exc'], 'im': r['im'], 'msgs': r['msgs'], 'tm': r['tm'], 'handler': log}
        m = UnaryUnaryMethod(channel, '/v.S/Fresh', bytes, bytes)
        ft = loop.create_task(m(b'fresh', metadata=[('x-call', 'fresh')]))
        loop.run_quiet(20)
        o = vloop.outcome(ft)
        out['fresh'] = 'ok' if o == ('ok', b'fresh-reply') else (exc_name(o[1]) if o[0] == 'exc' else o[0])
        out['connects'] = state['connects']
        out['recs'] = state['recs']
        out['finals'] = [r.final() for r in state['recs']]
        try:
            channel.close()
        except Exception:
            pass
        loop.run_quiet(1)
    return out



# ---- spurious wake-ups of a blocked sender -----------------------------------------------------------------

def gen_spurious(rng):
    iw = rng.choice([16, 64, 1000])
    steps = []
    for _ in range(rng.choice([2, 4, 7])):
        steps.append(rng.choice([['wu0', rng.choice([1, 1000, 70000])], ['set_iw', iw], ['ping'],
                                 ['unk', 0x0b, 0, -1, '00'], ['pause'], ['resume'], ['set_mcs', 50],
                                 ['wus', rng.choice([1, 7, 100])], ['wus', 20000]]))
    return {'end': 'spurious', 'iw': iw, 'len': rng.choice([100, 3000, 20000, 40000]), 'steps': steps,
            'blen': rng.choice([0, 3, 10])}


def run_spurious(scn):
    """call A is blocked in send_data on its exhausted stream window; connection-level events wake it;
    every wake is put to the model's sender_wake with the values h2 reports at that moment"""
    from grpclib.client import UnaryUnaryMethod
    out = {'wakes': [], 'b': None, 'a_ok': None, 'a_intact': None}
    with vloop.session() as loop:
        ce = wire.ClientEnd(loop)
        ct = loop.create_task(ce.channel.__connect__())
        loop.run_quiet(TICK)
        assert ct.done()
        peer = ce.peer
        peer.settings({SettingCodes.INITIAL_WINDOW_SIZE: scn['iw']})
        loop.run_quiet(TICK)
        peer.take_events()
        m = UnaryUnaryMethod(ce.channel, '/v.S/UU', bytes, bytes)
        amsg = bytes((i * 7 + 3) % 256 for i in range(scn['len']))
        ta = loop.create_task(m(amsg, metadata=[('x-call', 'a')]))
        loop.run_quiet(TICK)
        got = {}
        sids = {}

        def absorb():
            first = {}
            for ev in peer.take_events():
                if isinstance(ev, E.RequestReceived):
                    sids[dict(ev.headers).get('x-call')] = ev.stream_id
                elif isinstance(ev, E.DataReceived):
                    got[ev.stream_id] = got.get(ev.stream_id, b'') + ev.data
                    first.setdefault(ev.stream_id, len(ev.data))
            return first
        absorb()
        sa = sids['a']
        total = len(amsg) + 5
        h2c = h2_of(ce.proto.connection)          # located by type; None: the window cannot be read
        # call B runs while A is blocked
        tb = loop.create_task(m(b'b' * scn['blen'], metadata=[('x-call', 'b')]))
        loop.run_quiet(TICK)
        absorb()
        sb = sids.get('b')
        if sb is not None:
            peer.headers(sb, P.RESP_HEADERS, flush=False)
            peer.data(sb, P.grpc_frame(b'reply-b'), flush=False)
            peer.headers(sb, [('grpc-status', '0')], end_stream=True)
        loop.run_quiet(TICK)
        absorb()
        o = vloop.outcome(tb)
        out['b'] = 'ok' if o == ('ok', b'reply-b') and got.get(sb) == P.grpc_frame(b'b' * scn['blen']) else repr(o)[:80]
        for st in list(scn['steps']) + [['resume'], ['wus', 100000], ['wu0', 100000]]:
            stream = ce.proto.processor.streams.get(sa)
            if stream is None or ta.done():
                break
            before = len(got.get(sa, b''))
            was_blocked_on = ('wr' if not ce.proto.connection.write_ready.is_set() else 'win')
            if st[0] == 'pause':
                ce.transport.pause()
            elif st[0] == 'resume':
                ce.transport.resume()
            elif st[0] == 'wus':
                try:
                    peer.h2.increment_flow_control_window(st[1], stream_id=sa)
                except Exception:
                    continue
                feed_cut(ce.transport, peer.h2.data_to_send(), [])
            else:
                feed_cut(ce.transport, conn_step_bytes(peer, st, lambda i: None), [])
            # what the sender will find when it runs
            woken = stream.window_updated.is_set() or (was_blocked_on == 'wr' and st[0] == 'resume')
            wr = ce.proto.connection.write_ready.is_set()
            window = h2c.local_flow_control_window(sa) if h2c is not None else None
            mf = h2c.max_outbound_frame_size if h2c is not None else None
            wu = stream.window_updated.is_set()
            loop.run_quiet(TICK)
            first = absorb()
            out['wakes'].append({
                'step': st, 'woken': bool(woken), 'blocked_on': was_blocked_on, 'wr': wr, 'window': window,
                'mf': mf, 'rem': total - before, 'wu': wu,
                'emitted': len(got.get(sa, b'')) - before, 'first': first.get(sa, 0),
                'wu_after': stream.window_updated.is_set() if not ta.done() else None})
        absorb()
        if not ta.done():
            peer.headers(sa, P.RESP_HEADERS, flush=False)
            peer.data(sa, P.grpc_frame(b'reply-a'), flush=False)
            peer.headers(sa, [('grpc-status', '0')], end_stream=True)
            loop.run_quiet(TICK)
            loop.advance(5)
        absorb()
        out['a_ok'] = vloop.outcome(ta) == ('ok', b'reply-a')
        out['a_intact'] = got.get(sa) == P.grpc_frame(amsg)
        out['violations'] = len(peer.violations)
    return out


def check_spurious(ctx, res, scn, pending):
    o = run_spurious(scn)
    res.evaluations += 1
    res.count('spurious:iw=%d' % scn['iw'])
    res.signatures.add(('spurious', scn['iw'], scn['len'], tuple(s[0] for s in scn['steps'])))

    def fail(what, kind, observed=None):
        res.oracle_failures.append({'case': scn, 'what': what, 'signature': {'end': 'spurious', 'kind': kind},
                                    'observed': observed})
    if o['b'] != 'ok':
        fail('a call next to a blocked sender did not complete with its own data: %s' % o['b'], 'neighbour', o['b'])
    if not o['a_ok'] or not o['a_intact']:
        fail('the blocked sender did not finish intact once credit arrived', 'not-resumed', o)
    if o.get('violations'):
        fail('flow-control violation towards the peer', 'h2-violation', o['violations'])
    for w in o['wakes']:
        if w['window'] is None:
            res.count('unobservable:sender window')
            continue
        spurious = w['window'] <= 0 or not w['wr']
        res.count('spurious:%s' % ('not-woken' if not w['woken'] else 'spurious' if spurious else 'real'))
        if spurious and w['emitted']:
            fail('a sender with no credit / a paused transport emitted %d bytes after %s' % (w['emitted'], w['step']),
                 'emitted-without-credit', w)
        if w['woken'] and w['blocked_on'] == 'win' or (w['blocked_on'] == 'wr' and w['step'][0] == 'resume'):
            pending.append((scn, 'wake', w, 'wake %d %d %d %d %d' % (w['wr'], w['window'], w['mf'], w['rem'],
                                                                   1 if w['wu'] else 0), None))


def compare_wake(w, answer):
    act, wu = answer.split(' ')
    if act.startswith('send:'):
        ok = w['first'] == int(act[5:])
    elif act == 'wait_win':
        ok = w['emitted'] == 0 and w['wu_after'] is False
    else:
        ok = w['emitted'] == 0
    return None if ok else (answer, w)


# ---- calls competing for stream slots and for connection-level credit ----------------------------------

SLOT_STRIKES = ['rst', 'rst', 'task-cancel', 'stream-cancel', 'deadline', 'http-503', 'bad-status']


def gen_slots(rng):
    """the peer allows only `mcs` concurrent streams, so some calls wait in send_request for a slot that a
    finished or struck call must free; windows are at their minimum (65535) and struck calls are sent
    bursts of DATA (also padded) they never read, whose connection-level credit the later calls need"""
    k = rng.choice([3, 3, 4, 5, 6])
    mcs = rng.choice([1, 1, 2, 3])
    calls = []
    strands = []
    for i in range(k):
        c = gen_call_common(rng, i, SLOT_STRIKES, 0.55)
        tag = c['tag']
        s = c['strike']
        bulk = bool(s) and s['kind'] in ('rst', 'task-cancel', 'deadline') and rng.random() < 0.7
        if bulk:
            n = 1 if c['card'][1] == 'U' else rng.choice([1, 2, 3])
            c['resp'] = [(('%s-r%d-' % (tag, j)).encode() + bytes([rng.randint(0, 255)]) * rng.choice([9000, 15000, 22000])).hex()
                         for j in range(n)]
        elif not s and rng.random() < 0.6:
            n = len(c['resp'])
            c['resp'] = [(('%s-r%d-' % (tag, j)).encode() + bytes([rng.randint(0, 255)]) * rng.choice([3000, 9000, 14000])).hex()
                         for j in range(n)]
        frames = client_strand(rng, c)
        out = []
        for fr in frames:                         # frames of at most 12000 bytes, some of them padded
            if fr[0] == 'D' and len(fr[1]) > 24000:
                b = bytes.fromhex(fr[1])
                for o in range(0, len(b), 12000):
                    out.append(['D', b[o:o + 12000].hex(), False])
            else:
                out.append(fr)
        for fr in out:
            if fr[0] == 'D':
                fr.append(rng.choice([None, None, 0, 7, 200]))
        c['frames'] = out
        strand = place_strike(rng, c, out)
        c['burst'] = bulk                          # the frames before the strike and the strike: one read
        if bulk and s['kind'] in ('rst', 'task-cancel'):
            # strike late, so that there is unread data when it lands
            body = [x for x in strand if x[0] == 'f']
            p = rng.randint(max(1, len(body) - 1), len(body)) if s['kind'] == 'task-cancel' else \
                rng.randint(max(1, len(out) - 1), len(out) - 1)
            strike = ['rst', s['code']] if s['kind'] == 'rst' else ['cancel']
            strand = body[:p] + [strike] + ([] if s['kind'] == 'rst' else body[p:])
        calls.append(c)
        strands.append(strand)
    order = [i for i, st in enumerate(strands) for _ in st]
    rng.shuffle(order)
    for c, st in zip(calls, strands):
        c['strand'] = st
    return {'end': 'slots', 'mcs': mcs, 'calls': calls, 'order': order,
            'cuts': [rng.randint(0, 30000) for _ in range(3)] if rng.random() < 0.5 else []}


def run_slots(scn, only=None):
    from grpclib.config import Configuration
    calls = scn['calls']
    idxs = [only] if only is not None else list(range(len(calls)))
    out = {'calls': {}, 'fresh': None, 'connects': None, 'rec': None, 'skipped': 0, 'violations': 0,
           'stuck': None}
    with vloop.session() as loop:
        ce = wire.ClientEnd(loop, config=Configuration(http2_connection_window_size=65535,
                                                       http2_stream_window_size=65535))
        recs = []
        attach_recorder(ce, recs, 'C')
        ct = loop.create_task(ce.channel.__connect__())
        loop.run_quiet(TICK)
        assert ct.done()
        peer = ce.peer
        peer.settings({SettingCodes.MAX_CONCURRENT_STREAMS: scn['mcs']})
        loop.run_quiet(TICK)
        rr = {i: new_rec() for i in idxs}
        tasks = {}
        for i in idxs:                             # started one after the other: admission order is fixed
            tasks[i] = loop.create_task(client_call(ce.channel, calls[i], rr[i]))
            loop.run_quiet(TICK)
        sid, preq = {}, {}

        def absorb():
            for ev in peer.take_events():
                if isinstance(ev, E.RequestReceived):
                    tag = dict(ev.headers).get('x-call')
                    for i in idxs:
                        if calls[i]['tag'] == tag:
                            sid[i] = ev.stream_id
                    preq[ev.stream_id] = {'md': [[k, v] for k, v in ev.headers if k.startswith('x-')], 'data': b''}
                elif isinstance(ev, E.DataReceived) and ev.stream_id in preq:
                    preq[ev.stream_id]['data'] += ev.data
        absorb()
        pos = {i: 0 for i in idxs}
        order = [i for i in scn['order'] if i in pos]

        def frame_ready(i, st):
            """can the scripted server put this step on the wire now"""
            if st[0] in ('cancel', 'advance'):
                return True
            if i not in sid:
                return False                       # the call still waits for a stream slot
            if st[0] == 'rst':
                return True
            fr = calls[i]['frames'][st[1]]
            if fr[0] != 'D':
                return True
            need = len(fr[1]) // 2 + ((fr[3] + 1) if len(fr) > 3 and fr[3] is not None else 0)
            try:
                return peer.h2.local_flow_control_window(sid[i]) >= need
            except Exception:
                return True                        # stream already closed on the peer's side: send fails, skipped

        def put(i, st):
            try:
                if st[0] == 'rst':
                    peer.h2.reset_stream(sid[i], error_code=st[1])
                else:
                    fr = calls[i]['frames'][st[1]]
                    if fr[0] == 'H':
                        peer.h2.send_headers(sid[i], [tuple(x) for x in fr[1]], end_stream=fr[2])
                    else:
                        peer.h2.send_data(sid[i], bytes.fromhex(fr[1]), end_stream=fr[2],
                                          pad_length=fr[3] if len(fr) > 3 else None)
            except Exception:
                out['skipped'] += 1
            return peer.h2.data_to_send()

        while order:
            pick = None
            for n, i in enumerate(order):
                st = calls[i]['strand'][pos[i]]
                if frame_ready(i, st):
                    pick = n
                    break
            if pick is None:
                out['stuck'] = sorted(set(order))  # nothing the server may send: these calls never proceed
                break
            i = order.pop(pick)
            strand = calls[i]['strand']
            st = strand[pos[i]]
            pos[i] += 1
            if st[0] == 'cancel':
                tasks[i].cancel()
            elif st[0] == 'advance':
                loop.advance(st[1])
            else:
                buf = put(i, st)
                # a burst: the following frames of this call up to and including its strike, in one read
                while calls[i].get('burst') and st[0] == 'f' and pos[i] < len(strand) and \
                        any(x[0] in ('rst', 'cancel') for x in strand[pos[i]:]) and \
                        frame_ready(i, strand[pos[i]]):
                    nx = strand[pos[i]]
                    pos[i] += 1
                    order.remove(i)
                    if nx[0] == 'cancel':
                        feed_cut(ce.transport, buf, scn.get('cuts') or [])
                        buf = b''
                        tasks[i].cancel()
                        break
                    buf += put(i, nx)
                    if nx[0] == 'rst':
                        break
                feed_cut(ce.transport, buf, scn.get('cuts') or [])
            loop.run_quiet(TICK)
            absorb()
        loop.run_quiet(TICK)
        loop.advance(30)
        absorb()
        for i in idxs:
            r = rr[i]
            if not r['done']:
                r['exc'] = 'PENDING'
            out['calls'][i] = {'exc': r['exc'], 'im': r['im'], 'msgs': r['msgs'], 'tm': r['tm'],
                               'peer_md': preq[sid[i]]['md'] if i in sid else None,
                               'peer_data': preq[sid[i]]['data'].hex() if i in sid else None}
        from grpclib.client import UnaryUnaryMethod
        m = UnaryUnaryMethod(ce.channel, '/v.S/Fresh', bytes, bytes)
        ft = loop.create_task(m(b'fresh', metadata=[('x-call', 'fresh')]))
        loop.run_quiet(TICK)
        fs = None
        for ev in peer.take_events():
            if isinstance(ev, E.RequestReceived) and dict(ev.headers).get('x-call') == 'fresh':
                fs = ev.stream_id
        if fs is not None:
            peer.headers(fs, P.RESP_HEADERS, flush=False)
            peer.data(fs, P.grpc_frame(b'fresh-reply'), flush=False)
            peer.headers(fs, [('grpc-status', '0')], end_stream=True)
        loop.run_quiet(TICK)
        loop.advance(5)
        o = vloop.outcome(ft)
        out['fresh'] = 'ok' if o == ('ok', b'fresh-reply') else (exc_name(o[1]) if o[0] == 'exc' else o[0])
        out['connects'] = ce.connects
        out['violations'] = sum(len(c[2].violations) for c in ce.conns)
        out['conn_window'] = peer.h2.outbound_flow_control_window
        out['rec'] = recs[0] if recs else None
        out['final'] = recs[0].final() if recs else None
    return out


# ---- calls created from ONE shared metadata object, with listeners that edit event.metadata -------------

SHARED_KINDS = ['dict', 'pairs', 'multidict', 'cimultidict']


def gen_shared(rng):
    k = rng.choice([2, 3, 3, 4, 5])
    calls = []
    for i in range(k):
        c = gen_call_common(rng, i, ['task-cancel', 'handler-exc'], 0.15)
        tag = c['tag']
        if not c['req']:
            c['req'] = [payload(rng, tag, 'q', 0).hex()]
        c['status'] = 0
        c['timeout'] = None
        c['raise'] = None
        if c['strike'] and c['strike']['kind'] == 'handler-exc':
            c['raise'] = 'ValueError'
            c['raise_after'] = 1
        if c['strike'] and c['strike']['kind'] == 'task-cancel':
            c['strike']['at'] = rng.choice([0, 0.125, 0.5, 1.0])
        c['start'] = rng.choice([0, 0, 0, 0.125])
        # how long each listener awaits between editing event.metadata and returning
        c['d_req'] = rng.choice([0, 0.125, 0.25, 0.5])
        c['d_im'] = rng.choice([0, 0.125, 0.25, 0.5])
        c['d_tm'] = rng.choice([0, 0.125, 0.25, 0.5])
        # what each side must see for this call, and nothing of anybody else
        c['md'] = [['x-app', 'default'], ['x-call-id', tag], ['x-seen', tag]]
        c['im'] = [['x-app-im', 'default'], ['x-im-id', tag]]
        c['tm'] = [['x-app-tm', 'default'], ['x-tm-id', tag]]
        calls.append(c)
    return {'end': 'shared', 'calls': calls, 'kind': rng.choice(SHARED_KINDS),
            'server_kind': rng.choice(SHARED_KINDS), 'cut_seed': rng.randint(0, 10 ** 9),
            'cut_mode': rng.choice(['none', 'mixed'])}


def shared_object(kind, pairs):
    from multidict import MultiDict, CIMultiDict
    if kind == 'dict':
        return dict(pairs)
    if kind == 'pairs':
        return list(pairs)
    return (MultiDict if kind == 'multidict' else CIMultiDict)(pairs)


def frozen(obj):
    return repr(sorted(obj.items()) if hasattr(obj, 'items') else list(obj)), type(obj).__name__


def run_shared(scn, only=None):
    import random
    from grpclib.client import Channel, UnaryUnaryMethod
    from grpclib.server import Server
    from grpclib.events import listen, SendRequest, SendInitialMetadata, SendTrailingMetadata
    from grpclib.const import Status
    calls = scn['calls']
    idxs = [only] if only is not None else list(range(len(calls)))
    by_tag = {calls[i]['tag']: calls[i] for i in idxs}
    out = {'calls': {}, 'fresh': None, 'changed': []}
    logs = {}
    crng = random.Random(scn['cut_seed'])
    # the application-wide defaults every call is created from
    req_md = shared_object(scn['kind'], [('x-app', 'default'), ('x-call-id', 'unset')])
    im_md = shared_object(scn['server_kind'], [('x-app-im', 'default'), ('x-im-id', 'unset')])
    tm_md = shared_object(scn['server_kind'], [('x-app-tm', 'default'), ('x-tm-id', 'unset')])
    before = [frozen(o) for o in (req_md, im_md, tm_md)]
    ctag, htag = {}, {}                         # task -> tag, on either side

    def cutter(data):
        if scn['cut_mode'] == 'none' or len(data) < 2:
            return None
        return [crng.randint(1, len(data) - 1) for _ in range(crng.choice([0, 1, 2, 5]))]

    async def on_send_request(event):
        tag = ctag.get(asyncio.current_task())
        if tag is None:
            return
        event.metadata['x-call-id'] = tag
        if by_tag[tag]['d_req']:
            await asyncio.sleep(by_tag[tag]['d_req'])

    async def on_send_request_2(event):
        tag = ctag.get(asyncio.current_task())
        if tag is not None:
            event.metadata.add('x-seen', tag)

    def server_listener(key, delay_key):
        async def cb(event):
            tag = htag.get(asyncio.current_task())
            if tag is None:
                return
            event.metadata[key] = tag
            if by_tag[tag][delay_key]:
                await asyncio.sleep(by_tag[tag][delay_key])
        return cb

    async def handle(stream):
        first = await stream.recv_message()
        tag = first.split(b'-', 1)[0].decode() if first else None
        spec = by_tag.get(tag)
        log = logs.setdefault(tag, {'md': None, 'msgs': [], 'exc': None, 'runs': 0})
        log['runs'] += 1
        log['md'] = items(stream.metadata)
        if spec is None:
            await stream.send_message(b'fresh-reply')
            return
        htag[asyncio.current_task()] = tag
        try:
            log['msgs'].append(first.hex())
            if spec['card'][0] == 'S':
                async for m in stream:
                    log['msgs'].append(m.hex())
            if spec.get('raise'):
                raise ValueError('handler failed')
            await stream.send_initial_metadata(metadata=im_md)
            for r in spec['resp']:
                await stream.send_message(bytes.fromhex(r))
            await stream.send_trailing_metadata(status=Status.OK, metadata=tm_md)
        except BaseException as e:              # noqa
            log['exc'] = exc_name(e)
            raise

    svc = Service('v.S', {'UU': (handle, 'UU'), 'US': (handle, 'US'), 'SU': (handle, 'SU'),
                          'SS': (handle, 'SS'), 'Fresh': (handle, 'UU')})
    with vloop.session() as loop:
        server = Server([svc], codec=RawCodec())
        channel = Channel(codec=RawCodec())
        listen(channel, SendRequest, on_send_request)
        listen(channel, SendRequest, on_send_request_2)
        listen(server, SendInitialMetadata, server_listener('x-im-id', 'd_im'))
        listen(server, SendTrailingMetadata, server_listener('x-tm-id', 'd_tm'))
        state = {'connects': 0, 'recs': []}
        connect_link(loop, channel, server, cutter, state)
        rr = {i: new_rec() for i in idxs}
        tasks = {}
        for i in idxs:
            tasks[i] = loop.create_task(client_call(channel, calls[i], rr[i], md_obj=req_md))
            ctag[tasks[i]] = calls[i]['tag']
            s = calls[i].get('strike')
            if s and s['kind'] == 'task-cancel':
                loop.call_later(s['at'], tasks[i].cancel)
        loop.run_quiet(100)
        for i in idxs:
            r = rr[i]
            if not r['done']:
                r['exc'] = 'PENDING'
            log = logs.get(calls[i]['tag']) or {'md': None, 'msgs': [], 'exc': None, 'runs': 0}
            out['calls'][i] = {'exc': r['exc'], 'im': r['im'], 'msgs': r['msgs'], 'tm': r['tm'], 'handler': log}
        for name, o, b in zip(('request metadata', 'initial metadata', 'trailing metadata'),
                              (req_md, im_md, tm_md), before):
            if frozen(o) != b:
                out['changed'].append(name)
        m = UnaryUnaryMethod(channel, '/v.S/Fresh', bytes, bytes)
        ft = loop.create_task(m(b'fresh', metadata=[('x-call', 'fresh')]))
        loop.run_quiet(20)
        o = vloop.outcome(ft)
        out['fresh'] = 'ok' if o == ('ok', b'fresh-reply') else (exc_name(o[1]) if o[0] == 'exc' else o[0])
        out['connects'] = state['connects']
        out['recs'] = state['recs']
        out['finals'] = [r.final() for r in state['recs']]
        try:
            channel.close()
        except Exception:
            pass
        loop.run_quiet(1)
    return out


# ---- senders competing for the peer's connection window (client end) -----------------------------------------

def gen_upload(rng):
    """one call uploads most of the peer's 65535-byte connection window to a server that does not read it and
    is then struck; bystanders with their own requests must get the credit the struck call gives back (a
    connection-level WINDOW_UPDATE only) and complete.  Optionally everything starts on a paused transport."""
    nb = rng.choice([1, 1, 2, 3])
    calls = []
    hog = gen_call_common(rng, 0, ['task-cancel', 'deadline', 'rst'], 1.0)
    hog['card'] = rng.choice(['UU', 'SU', 'SS', 'US'])
    hog['path'] = PATHS[hog['card']]
    hog['req'] = [(b'c0-q0-' + bytes([rng.randint(0, 255)]) * rng.choice([48000, 56000, 62000, 70000])).hex()]
    hog['status'] = 0
    if hog['strike']['kind'] == 'deadline':
        hog['timeout'] = 2.0
    elif hog['strike']['kind'] == 'rst':
        hog['strike']['code'] = rng.choice(RST_CODES)
    calls.append(hog)
    for i in range(1, nb + 1):
        c = gen_call_common(rng, i, [], 0.0)
        c['status'] = 0
        n = 1 if c['card'][0] == 'U' else rng.choice([1, 2])
        c['req'] = [(('c%d-q%d-' % (i, j)).encode() + bytes([rng.randint(0, 255)]) * rng.choice([3000, 9000, 14000, 20000])).hex()
                    for j in range(n)]
        calls.append(c)
    order = list(range(len(calls)))
    if rng.random() < 0.3:
        rng.shuffle(order)
    mode = rng.choice(['', 'start', 'mid', 'mid'])
    if mode == 'mid':
        # every call has opened its stream and sent a small first message when the transport pauses; the big
        # messages are all attempted while it is paused and go out together when it resumes
        for c in calls:
            c['card'] = rng.choice(['SU', 'SS'])
            c['path'] = PATHS[c['card']]
            if c['card'] == 'SU':
                c['resp'] = c['resp'][:1] or [payload(rng, c['tag'], 'r', 0).hex()]
            c['req'] = [('%s-q0-hello' % c['tag']).encode().hex(), c['req'][0]]
            c['req_delays'] = [0, 0.125]
    return {'end': 'upload', 'calls': calls, 'start_order': order, 'paused_start': mode == 'start',
            'paused_mid': mode == 'mid', 'settle_between': rng.random() < 0.5}


def run_upload(scn, only=None):
    calls = scn['calls']
    idxs = [i for i in scn['start_order'] if only is None or i == only]
    out = {'calls': {}, 'fresh': None, 'connects': None, 'rec': None, 'violations': 0}
    with vloop.session() as loop:
        ce = wire.ClientEnd(loop)
        recs = []
        attach_recorder(ce, recs, 'C')
        ct = loop.create_task(ce.channel.__connect__())
        loop.run_quiet(TICK)
        assert ct.done()
        peer = ce.peer
        peer.auto_ack = False                      # the scripted server decides what it reads
        if scn['paused_start']:
            ce.transport.pause()
        rr = {i: new_rec() for i in idxs}
        tasks = {}
        for i in idxs:
            tasks[i] = loop.create_task(client_call(ce.channel, calls[i], rr[i]))
            if scn['settle_between'] and not scn['paused_start']:
                loop.run_quiet(TICK)
        loop.run_quiet(TICK)
        if scn['paused_start']:
            ce.transport.resume()
            loop.run_quiet(TICK)
        if scn.get('paused_mid'):
            ce.transport.pause()
            loop.advance(0.25)
            ce.transport.resume()
            loop.run_quiet(TICK)
        sid, preq, ended, unread = {}, {}, set(), {}
        struck_done = False

        def serve():
            """one round of the scripted server: read the bystanders' data (credit it), answer finished requests,
            leave the hog's data unread"""
            progressed = False
            for ev in peer.take_events():
                progressed = True
                if isinstance(ev, E.RequestReceived):
                    tag = dict(ev.headers).get('x-call')
                    for i in idxs:
                        if calls[i]['tag'] == tag:
                            sid[i] = ev.stream_id
                    preq[ev.stream_id] = {'md': [[k, v] for k, v in ev.headers if k.startswith('x-')], 'data': b''}
                elif isinstance(ev, E.DataReceived) and ev.stream_id in preq:
                    preq[ev.stream_id]['data'] += ev.data
                    if ev.stream_id == sid.get(0) and calls[0]['strike']:
                        unread[ev.stream_id] = unread.get(ev.stream_id, 0) + ev.flow_controlled_length
                    elif ev.flow_controlled_length:
                        try:
                            peer.h2.acknowledge_received_data(ev.flow_controlled_length, ev.stream_id)
                        except Exception:
                            pass
                elif isinstance(ev, E.StreamEnded):
                    ended.add(ev.stream_id)
                    i = next((j for j in idxs if sid.get(j) == ev.stream_id), None)
                    if i is not None and not (i == 0 and calls[0]['strike']):
                        for fr in client_strand(__import__('random').Random(i), dict(calls[i], strike=None)):
                            try:
                                if fr[0] == 'H':
                                    peer.h2.send_headers(ev.stream_id, [tuple(x) for x in fr[1]], end_stream=fr[2])
                                else:
                                    peer.h2.send_data(ev.stream_id, bytes.fromhex(fr[1]), end_stream=fr[2])
                            except Exception:
                                out['skipped'] = out.get('skipped', 0) + 1
            peer.flush()
            return progressed

        for _ in range(50):
            loop.run_quiet(TICK)
            if not serve():
                break
        # strike the hog; the server's release_stream gives the unread bytes back at connection level
        if 0 in idxs:
            k = calls[0]['strike']['kind']
            if k == 'task-cancel':
                tasks[0].cancel()
            elif k == 'deadline':
                loop.advance(5.0)
            elif k == 'rst' and 0 in sid:
                try:
                    peer.h2.reset_stream(sid[0], error_code=calls[0]['strike']['code'])
                except Exception:
                    pass
                peer.flush()
            loop.run_quiet(TICK)
            for ev in list(peer.events):
                if isinstance(ev, E.DataReceived) and ev.stream_id == sid.get(0):
                    pass
            serve()
            for s_, n in unread.items():
                try:
                    peer.h2.acknowledge_received_data(n, s_)
                except Exception:
                    pass
            peer.flush()
        for _ in range(50):
            loop.run_quiet(TICK)
            if not serve():
                break
        loop.advance(30)
        serve()
        loop.run_quiet(TICK)
        for i in idxs:
            r = rr[i]
            if not r['done']:
                r['exc'] = 'PENDING'
            out['calls'][i] = {'exc': r['exc'], 'im': r['im'], 'msgs': r['msgs'], 'tm': r['tm'],
                               'peer_md': preq[sid[i]]['md'] if i in sid else None,
                               'peer_data': preq[sid[i]]['data'].hex() if i in sid else None}
        peer.auto_ack = True
        from grpclib.client import UnaryUnaryMethod
        m = UnaryUnaryMethod(ce.channel, '/v.S/Fresh', bytes, bytes)
        ft = loop.create_task(m(b'fresh', metadata=[('x-call', 'fresh')]))
        loop.run_quiet(TICK)
        fs = None
        for ev in peer.take_events():
            if isinstance(ev, E.RequestReceived) and dict(ev.headers).get('x-call') == 'fresh':
                fs = ev.stream_id
        if fs is not None:
            peer.headers(fs, P.RESP_HEADERS, flush=False)
            peer.data(fs, P.grpc_frame(b'fresh-reply'), flush=False)
            peer.headers(fs, [('grpc-status', '0')], end_stream=True)
        loop.run_quiet(TICK)
        loop.advance(5)
        o = vloop.outcome(ft)
        out['fresh'] = 'ok' if o == ('ok', b'fresh-reply') else (exc_name(o[1]) if o[0] == 'exc' else o[0])
        out['connects'] = ce.connects
        out['violations'] = sum(len(c[2].violations) for c in ce.conns)
        out['rec'] = recs[0] if recs else None
    return out


# ---- padded bursts nobody reads, on the server end ----------------------------------------------------------------

def gen_sbulk(rng):
    """several calls upload a burst of small messages in PADDED DATA frames within one read; their handler fails
    after the first message, so the rest is never read and release_stream must give all of it back -- a victim
    call then needs the connection window for a 20 KB request"""
    nf = rng.choice([4, 8, 10, 12, 14])
    calls = []
    for i in range(nf):
        c = gen_call_common(rng, i, ['handler-exc'], 1.0)
        c['card'] = rng.choice(['SU', 'SS'])
        c['path'] = PATHS[c['card']]
        c['req'] = [('c%d-q%d-' % (i, j)).encode().hex() for j in range(rng.choice([20, 30, 30]))]
        c['raise'] = rng.choice(['ValueError', 'GRPCError:3'])
        c['raise_after'] = 1
        c['pad'] = rng.choice([255, 255, 255, 255, 100, 0])
        c['timeout_hdr'] = None
        calls.append(c)
    v = gen_call_common(rng, nf, [], 0.0)
    v['status'] = 0
    v['req'] = [(('c%d-q0-' % nf).encode() + bytes([rng.randint(0, 255)]) * rng.choice([20000, 30000, 40000])).hex()]
    if v['card'][0] == 'S':
        v['req'].append(('c%d-q1-tail' % nf).encode().hex())
    v['raise'] = None
    v['timeout_hdr'] = None
    calls.append(v)
    return {'end': 'sbulk', 'calls': calls}


def run_sbulk(scn, only=None):
    from grpclib.config import Configuration
    calls = scn['calls']
    idxs = [only] if only is not None else list(range(len(calls)))
    out = {'calls': {}, 'fresh': None, 'rec': None, 'violations': 0}
    specs = {calls[i]['tag']: calls[i] for i in idxs}
    logs = {}
    with vloop.session() as loop:
        se = wire.ServerEnd(loop, [make_service(specs, logs)],
                            config=Configuration(http2_connection_window_size=65535, http2_stream_window_size=65535))
        rec = Recorder(se.proto, 'S')
        loop.run_quiet(TICK)
        peer = se.peer
        peer.take_events()
        sid, events = {}, []

        def req_headers(c):
            return [(':method', 'POST'), (':scheme', 'http'), (':path', c['path']), (':authority', 'x'),
                    ('te', 'trailers'), ('content-type', 'application/grpc')] + [tuple(x) for x in c['md']]
        for i in idxs:
            c = calls[i]
            sid[i] = peer.next_stream_id()
            peer.h2.send_headers(sid[i], req_headers(c))
            msgs = [bytes.fromhex(m) for m in c['req']]
            if c.get('strike'):
                # the whole burst in one read: one padded DATA frame per message, END_STREAM on the last
                buf = peer.h2.data_to_send()
                for j, m in enumerate(msgs):
                    try:
                        peer.h2.send_data(sid[i], P.grpc_frame(m), end_stream=(j == len(msgs) - 1),
                                          pad_length=c['pad'] or None)
                    except Exception:
                        out['skipped'] = out.get('skipped', 0) + 1       # no window left: a real client would wait
                        break
                    buf += peer.h2.data_to_send()
                feed_cut(se.transport, buf, [])
                loop.run_quiet(TICK)
            else:
                # the victim: a client that honours flow control, sending what the window allows
                body = b''.join(P.grpc_frame(m) for m in msgs)
                pos = 0
                peer.flush()
                for _ in range(200):
                    loop.run_quiet(TICK)
                    events += peer.take_events()
                    if pos >= len(body):
                        break
                    w = min(peer.h2.local_flow_control_window(sid[i]), 16384, len(body) - pos)
                    if w <= 0:
                        break                                   # starved: nothing will ever come back
                    peer.h2.send_data(sid[i], body[pos:pos + w], end_stream=(pos + w == len(body)))
                    pos += w
                    peer.flush()
                out['victim_sent'] = pos == len(body)
            events += peer.take_events()
        loop.run_quiet(TICK)
        loop.advance(30)
        events += peer.take_events()
        for i in idxs:
            log = logs.get(calls[i]['tag']) or {'md': None, 'msgs': [], 'exc': None, 'runs': 0}
            out['calls'][i] = {'handler': log, 'wire': collect_wire(events, sid.get(i))}
        fs = peer.next_stream_id()
        try:
            peer.h2.send_headers(fs, req_headers({'path': '/v.S/Fresh', 'md': [['x-call', 'fresh']]}))
            peer.h2.send_data(fs, P.grpc_frame(b'fresh'), end_stream=True)
        except Exception:
            pass
        peer.flush()
        loop.run_quiet(TICK)
        loop.advance(5)
        w = collect_wire(peer.take_events(), fs)
        ok = (w['data'] == P.grpc_frame(b'fresh-reply').hex() and w['trl'] is not None and
              dict(map(tuple, w['trl'])).get('grpc-status') == '0' and w['ended'])
        out['fresh'] = 'ok' if ok else json.dumps(w)
        out['violations'] = len(peer.violations)
        out['rec'] = rec
        out['leftover'] = sorted(getattr(se.proto.processor, 'streams', {}))
    return out


# ---- one application task making SEQUENTIAL calls; earlier, already failed calls still have a strike pending -----

def gen_seq(rng):
    n = rng.choice([2, 2, 3, 4])
    calls = []
    for i in range(n):
        last = i == n - 1
        c = gen_call_common(rng, i, ['rst', 'bad-status', 'http-503', 'no-status'], 0.0 if last else 0.8)
        c['status'] = 0 if last else c['status']
        if c['strike']:
            c['timeout'] = rng.choice([1.0, 2.0, 3.0])          # its deadline timer is still armed when it fails
        else:
            c['timeout'] = rng.choice([None, 1000.0])
        c['frames'] = client_strand(rng, c)
        c['strand'] = place_strike(rng, c, c['frames'])
        c['catch_inside'] = rng.random() < 0.7                  # the app handles the failure inside the async-with
        c['nest'] = rng.random() < 0.6                          # ... and makes the following calls from in there
        # virtual time that passes before this call is answered (the earlier calls' timers fire in it)
        c['gap'] = rng.choice([0, 0, 0, 0.5]) if c['strike'] else rng.choice([0, 1.5, 5.0, 5.0])
        calls.append(c)
    return {'end': 'seq', 'calls': calls}


async def seq_app(channel, calls, idxs, rr, k=0):
    """call idxs[k], then the rest: after it -- or, when its failure is handled inside its own async-with and the
    spec says `nest`, from inside that handler (a fallback call made while the failed call is still open)"""
    from grpclib.exceptions import StreamTerminatedError, GRPCError
    if k >= len(idxs):
        return
    nested = False
    for i in idxs[k:k + 1]:
        spec, rec = calls[i], rr[i]
        card = CARDS[spec['card']]
        msgs = [bytes.fromhex(h) for h in spec['req']]
        st = None
        try:
            async with channel.request(spec['path'], card, bytes, bytes, timeout=spec.get('timeout'),
                                       metadata=[tuple(x) for x in spec['md']]) as st:
                try:
                    if card.client_streaming:
                        if not msgs:
                            await st.send_request(end=True)
                        for j, m in enumerate(msgs):
                            await st.send_message(m, end=(j == len(msgs) - 1))
                    else:
                        await st.send_message(msgs[0], end=True)
                    await st.recv_initial_metadata()
                    rec['im'] = items(st.initial_metadata)
                    while True:
                        m = await st.recv_message()
                        if m is None:
                            break
                        rec['msgs'].append(m.hex())
                        if not card.server_streaming:
                            break
                    await st.recv_trailing_metadata()
                except (StreamTerminatedError, GRPCError) as e:
                    if not spec.get('catch_inside'):
                        raise
                    rec['exc'] = exc_name(e)                  # handled by the application; the block ends normally
                    if spec.get('nest'):
                        nested = True
                        await seq_app(channel, calls, idxs, rr, k + 1)
        except BaseException as e:                              # noqa
            if rec['exc'] == 'ok':
                rec['exc'] = exc_name(e)
        finally:
            if st is not None:
                if rec['im'] is None and st.initial_metadata is not None:
                    rec['im'] = items(st.initial_metadata)
                rec['tm'] = items(st.trailing_metadata)
        rec['done'] = True
    if not nested:
        await seq_app(channel, calls, idxs, rr, k + 1)


def run_seq(scn, only=None):
    calls = scn['calls']
    idxs = [only] if only is not None else list(range(len(calls)))
    out = {'calls': {}, 'fresh': None, 'connects': None, 'rec': None, 'violations': 0, 'skipped': 0}
    with vloop.session() as loop:
        ce = wire.ClientEnd(loop)
        recs = []
        attach_recorder(ce, recs, 'C')
        rr = {i: new_rec() for i in idxs}
        task = loop.create_task(seq_app(ce.channel, calls, idxs, rr))
        loop.run_quiet(TICK)
        preq, seen = {}, {}

        def absorb():
            for ev in ce.peer.take_events():
                if isinstance(ev, E.RequestReceived):
                    tag = dict(ev.headers).get('x-call')
                    seen[tag] = ev.stream_id
                    preq[ev.stream_id] = {'md': [[k, v] for k, v in ev.headers if k.startswith('x-')], 'data': b''}
                elif isinstance(ev, E.DataReceived) and ev.stream_id in preq:
                    preq[ev.stream_id]['data'] += ev.data
        for i in idxs:
            c = calls[i]
            absorb()
            sid = seen.get(c['tag'])
            if sid is None:
                break                                           # the application never got this far
            if c['gap']:
                loop.advance(c['gap'])                          # earlier calls' deadline timers fire in here
            peer = ce.peer
            for st in c['strand']:
                try:
                    if st[0] == 'f':
                        fr = c['frames'][st[1]]
                        if fr[0] == 'H':
                            peer.h2.send_headers(sid, [tuple(x) for x in fr[1]], end_stream=fr[2])
                        else:
                            peer.h2.send_data(sid, bytes.fromhex(fr[1]), end_stream=fr[2])
                    elif st[0] == 'rst':
                        peer.h2.reset_stream(sid, error_code=st[1])
                except Exception:
                    out['skipped'] += 1
                peer.flush()
                loop.run_quiet(TICK)
            loop.run_quiet(TICK)
        loop.run_quiet(TICK)
        loop.advance(30)
        absorb()
        for i in idxs:
            r = rr[i]
            if not r['done']:
                r['exc'] = 'PENDING'
            sid = seen.get(calls[i]['tag'])
            out['calls'][i] = {'exc': r['exc'], 'im': r['im'], 'msgs': r['msgs'], 'tm': r['tm'],
                               'peer_md': preq[sid]['md'] if sid in preq else None,
                               'peer_data': preq[sid]['data'].hex() if sid in preq else None}
        from grpclib.client import UnaryUnaryMethod
        m = UnaryUnaryMethod(ce.channel, '/v.S/Fresh', bytes, bytes)
        ft = loop.create_task(m(b'fresh', metadata=[('x-call', 'fresh')]))
        loop.run_quiet(TICK)
        fs = None
        for ev in ce.peer.take_events():
            if isinstance(ev, E.RequestReceived) and dict(ev.headers).get('x-call') == 'fresh':
                fs = ev.stream_id
        if fs is not None:
            ce.peer.headers(fs, P.RESP_HEADERS, flush=False)
            ce.peer.data(fs, P.grpc_frame(b'fresh-reply'), flush=False)
            ce.peer.headers(fs, [('grpc-status', '0')], end_stream=True)
        loop.run_quiet(TICK)
        loop.advance(5)
        o = vloop.outcome(ft)
        out['fresh'] = 'ok' if o == ('ok', b'fresh-reply') else (exc_name(o[1]) if o[0] == 'exc' else o[0])
        out['connects'] = ce.connects
        out['violations'] = sum(len(c[2].violations) for c in ce.conns)
        out['rec'] = recs[0] if recs else None
    return out


RUNNERS = {'client': run_client, 'server': run_server, 'link': run_link, 'slots': run_slots,
           'shared': run_shared, 'upload': run_upload, 'sbulk': run_sbulk,
           'seq': run_seq}


# ---- expectations: "each receives exactly its own metadata, messages and status" ---------------------

def user_md(pairs):
    return [[k, v] for k, v in (pairs or []) if k.startswith('x-')]


def expect_client_side(c, got):
    """for a call nobody struck: what the public client API must have delivered"""
    bad = []
    if c['status'] == 0:
        if got['exc'] != 'ok':
            bad.append('exc=%s' % got['exc'])
        if got['im'] != c['im']:
            bad.append('initial metadata')
        if got['msgs'] != c['resp']:
            bad.append('messages')
        if got['tm'] != c['tm']:
            bad.append('trailing metadata')
    else:
        if got['exc'] != 'GRPCError:%s' % STATUS_NAMES[c['status']]:
            bad.append('exc=%s' % got['exc'])
        if got['tm'] != c['tm']:
            bad.append('trailing metadata')
        if not c.get('trailers_only') and got['msgs'] != c['resp'][:len(got['msgs'])]:
            bad.append('messages')
    return bad


def expect_server_side(c, got):
    """for a call nobody struck: what the handler must have seen and the peer must have got back"""
    bad = []
    h, w = got['handler'], got.get('wire')
    if h['runs'] != 1:
        bad.append('handler runs=%d' % h['runs'])
    if h['md'] != c['md']:
        bad.append('request metadata')
    if h['msgs'] != c['req'][:1 if c['card'][0] == 'U' else None]:
        bad.append('request messages')
    if w is not None:
        if w['reset'] is not None and c['status'] == 0:
            bad.append('reset')
        trl = dict(map(tuple, w['trl'] or w['resp'] or []))
        if trl.get('grpc-status') != str(c['status']):
            bad.append('grpc-status=%r' % trl.get('grpc-status'))
        if user_md(w['trl'] if w['trl'] is not None else w['resp']) != (c['tm'] if w['trl'] is not None else c['tm']) \
                and w['trl'] is not None:
            bad.append('trailing metadata')
        body = b''.join(P.grpc_frame(bytes.fromhex(m)) for m in c['resp']).hex()
        if w['trl'] is not None and w['data'] != body:
            bad.append('response messages')
        if w['trl'] is not None and user_md(w['resp']) != c['im']:
            bad.append('initial metadata')
    return bad


# ---- one scenario through the three steps ---------------------------------------------------------------

def strike_kinds(scn):
    return sorted(set(c['strike']['kind'] for c in scn['calls'] if c.get('strike')))


def model_lines(rec, side):
    """the questions put to the model for one recorder: the whole connection, and every call alone"""
    final = rec.final()                 # (also masks the earlier snapshots with what proved unobservable)
    lines = [('mux', None, 'mux %s %s' % (side, rec.words()))]
    for pos, sid, snap in rec.release_snaps:
        lines.append(('solo', (sid, snap), 'solo %d %s %s' % (sid, side, rec.words(pos))))
        if not any(t[0] in ('GOAWAY', 'PERR', 'LOST', 'CLOSE') for t in rec.tokens[:pos]):
            lines.append(('alone', (sid, snap), 'alone %d %s %s' % (sid, side, rec.words(pos))))
    for snap in final['reg']:
        sid = int(snap.split('/')[0])
        lines.append(('solo', (sid, snap), 'solo %d %s %s' % (sid, side, rec.words())))
        if not rec.has_fatal():
            lines.append(('alone', (sid, snap), 'alone %d %s %s' % (sid, side, rec.words())))
    return lines, final


def compare_model(kind, info, answer, final):
    """None when model and implementation agree, else (model, impl)"""
    if kind == 'mux':
        m = parse_mux(answer)
        if final['acks'] == '?':
            m['acks'] = '?'
        if final['closed'] == '?':
            m['closed'] = '?'
        if len(m['reg']) == len(final['reg']):
            m['reg'] = [mask_like(x, y) for x, y in zip(m['reg'], final['reg'])]
        mi = dict(m, reg=[drop_eof_marks(x) for x in m['reg']])
        ii = dict(final, reg=[drop_eof_marks(x) for x in final['reg']])
        return None if mi == ii else (mi, ii)
    sid, snap = info
    a, b = drop_eof_marks(mask_like(answer, snap)), drop_eof_marks(snap)
    if kind == 'alone':
        a, b = mask_wu(a), mask_wu(b)
    return None if a == b else (a, b)


def public(call_out):
    """what is compared between the multiplexed run and the solo run of a call"""
    return json.dumps(call_out, sort_keys=True)


def check_scenario(ctx, res, scn, pending):
    end = scn['end']
    if end == 'spurious':
        return check_spurious(ctx, res, scn, pending)
    run_ = RUNNERS[end]
    mux = run_(scn)
    k = len(scn['calls'])
    kinds = strike_kinds(scn)
    res.evaluations += 1
    res.count('%s:k=%d' % (end, k))
    for c in scn['calls']:
        res.count('%s:card=%s' % (end, c['card']))
        res.count('%s:strike=%s' % (end, c['strike']['kind'] if c['strike'] else 'none'))
    if any(st[0] == 'evenhdr' for item in scn.get('sched', []) for st in item.get('read', [])):
        res.count('client:peer-opened-stream')
    for i, r in mux['calls'].items():
        if 'exc' in r:
            res.count('%s:outcome=%s' % (end, r['exc']))
        if 'wire' in r:
            w = r['wire']
            st = dict(map(tuple, (w['trl'] if w['trl'] is not None else w['resp']) or [])).get('grpc-status')
            res.count('server:wire=%s%s' % ('grpc-status %s' % st if st is not None else 'no status',
                                            ' +RST' if w['reset'] is not None else ''))
        if 'handler' in r:
            res.count('%s:handler=%s' % (end, r['handler']['exc'] or ('ran' if r['handler']['runs'] else 'not-run')))
    res.signatures.add((end, k, tuple(c['card'] for c in scn['calls']),
                        tuple((c['strike'] or {}).get('kind') for c in scn['calls']),
                        len(scn.get('sched', [])) // 4))
    res.sample({'scenario': {'end': end, 'calls': [(c['card'], (c['strike'] or {}).get('kind')) for c in scn['calls']],
                             'reads': len(scn.get('sched', []))},
                'results': {str(i): {kk: v for kk, v in r.items() if kk in ('exc', 'msgs', 'handler')}
                            for i, r in mux['calls'].items()}}, limit=6)

    def fail(what, kind, observed=None, **sig):
        s = {'end': end, 'kind': kind}
        s.update(sig)
        res.oracle_failures.append({'case': scn, 'what': what, 'signature': s, 'observed': observed})

    # ---- direct oracle: every call as if it were alone; the connection still works
    for i, c in enumerate(scn['calls']):
        solo = run_(scn, only=i)
        a, b = public(mux['calls'][i]), public(solo['calls'][i])
        struck = bool(c['strike'])
        if a != b and not (struck and end in ('slots', 'upload', 'sbulk', 'seq')):
            # (slots: a struck call may be struck while it still waits for its slot, which it never does
            #  alone; the property speaks about the calls nobody struck)
            fail('call %d (%s, strike=%s) differs from the same call executed alone' %
                 (i, c['card'], (c['strike'] or {}).get('kind')),
                 'struck-differs-from-solo' if struck else 'unaffected-differs-from-solo',
                 {'multiplexed': mux['calls'][i], 'alone': solo['calls'][i]},
                 strikes=kinds, card=c['card'])
        if not struck:
            got = mux['calls'][i]
            bad = []
            if end in ('client', 'link', 'slots', 'shared', 'upload', 'seq'):
                bad += expect_client_side(c, got)
            if end in ('client', 'slots', 'upload', 'seq'):
                want = b''.join(P.grpc_frame(bytes.fromhex(m)) for m in c['req']).hex()
                if got['peer_data'] != want or got['peer_md'] != c['md']:
                    bad.append('request as seen by the peer')
            if end in ('server', 'link', 'shared', 'sbulk'):
                bad += expect_server_side(c, got)
            if bad:
                fail('call %d (%s, not struck) did not get exactly its own data: %s' % (i, c['card'], ', '.join(bad)),
                     'wrong-content', got, strikes=kinds, card=c['card'], fields=sorted(bad)[:3])
        if solo.get('fresh') != 'ok':
            fail('fresh call after a solo run failed', 'solo-fresh-failed', solo.get('fresh'), card=c['card'])
    if mux.get('changed'):
        fail('the caller\'s own metadata object was modified: %s' % ', '.join(mux['changed']),
             'caller-object-modified', mux['changed'], objects=mux['changed'])
    if mux['fresh'] != 'ok':
        fail('the connection does not serve a fresh call afterwards: %s' % (mux['fresh'],),
             'fresh-call-failed', mux['fresh'], strikes=kinds)
    if mux.get('connects', 1) != 1:
        fail('the channel had to reconnect (%d connections)' % mux['connects'], 'reconnected',
             mux['connects'], strikes=kinds)
    recs = mux.get('recs') or ([mux['rec']] if mux.get('rec') else [])
    for r in recs:
        rst = [t[1] for t in r.tokens if t[0] == 'RST']
        if len(rst) != len(set(rst)):
            res.count('%s:two StreamResets for one stream' % end)     # tolerated by the code now
        if r.raised:
            fail('exception left data_received: %s' % r.escaped, 'escaped', r.escaped, strikes=kinds)
    if mux.get('violations'):
        fail('grpclib broke HTTP/2 rules towards the peer', 'h2-violation', mux['violations'])
    if mux.get('leftover'):
        fail('streams left in the registry: %s' % mux['leftover'], 'leftover', mux['leftover'], strikes=kinds)

    # ---- correspondence: the recorded inputs through the model
    if mux.get('stuck'):
        res.count('slots:server could not go on (calls %s blocked)' % (len(mux['stuck']),))
    sides = {'client': ['C'], 'server': ['S'], 'link': ['C', 'S'], 'slots': ['C'], 'shared': ['C', 'S'], 'upload': ['C'], 'sbulk': ['S'], 'seq': ['C']}[end]
    for r, side in zip(recs, sides):
        if r.blind:
            res.count('unobservable:connection (no correspondence): %s' % getattr(r, 'blind_reason', '?')[:60])
            continue
        lines, final = model_lines(r, side)
        for u in sorted(r.unobs):
            res.count('unobservable:%s' % u)
        for kind, info, line in lines:
            pending.append((scn, kind, info, line, final))


def settle(ctx, res, pending):
    if not ctx.model_ok or not pending:
        return
    answers = ctx.model([p[3] for p in pending])
    for (scn, kind, info, line, final), ans in zip(pending, answers):
        res.traces += 1
        res.count('model:' + kind)
        if ans.startswith('DRIVER-ERROR'):
            d = (ans, None)
        elif kind == 'wake':
            d = compare_wake(info, ans)
        else:
            d = compare_model(kind, info, ans, final)
        if d is not None:
            res.disagreements.append({'case': scn, 'model': d[0], 'impl': d[1], 'question': kind,
                                      'line': line[:400]})


GENS = {'client': gen_client, 'server': gen_server, 'link': gen_link, 'spurious': gen_spurious,
        'slots': gen_slots, 'shared': gen_shared, 'upload': gen_upload, 'sbulk': gen_sbulk,
        'seq': gen_seq}


def run(ctx):
    logging.disable(logging.CRITICAL)        # grpclib logs every handler exception of the scenarios
    try:
        return _run(ctx)
    finally:
        logging.disable(logging.NOTSET)


def _run(ctx):
    res = Result()
    rng = ctx.rng
    res.rule = ('PRNG scenarios of 2..5 concurrent calls (UU/US/SU/SS, distinct payloads and metadata) on one '
                'connection; client end: scripted server interleaves HEADERS / re-cut DATA / trailers of all '
                'calls in PRNG order, grouped into PRNG reads with PRNG byte cuts, with PING / unknown frame '
                'types / ALTSVC / PRIORITY / WINDOW_UPDATE(0) / SETTINGS / HEADERS opening an even stream / pause-resume mixed in; ~45% of the '
                'calls struck at a PRNG point by RST_STREAM(any code), task.cancel, stream.cancel(), a short '
                'deadline, or a malformed response; server end: the mirror image with handler exceptions and '
                'grpc-timeout; link: real client <-> real server through a PRNG byte re-cutter with PRNG '
                'virtual delays. slots: 3..6 calls against a peer allowing 1..3 concurrent streams with 65535-byte '
                'windows, so that calls wait for a slot / for connection credit that finished or struck calls must '
                'give back; upload: one call fills the peer\'s 65535-byte connection window with a request nobody reads '
                'and is struck, bystanders need the connection-level credit it gives back (optionally all started on a '
                'paused transport); sbulk: 3..8 server calls receive a burst of padded DATA in one read and fail after '
                'the first message, then a victim must upload 12..30 KB through the same connection window; seq: ONE '
                'application task makes 2..4 calls one after the other, earlier ones fail (RST_STREAM / malformed) with '
                'their deadline timer still armed, the failure is handled inside the async-with, the timer fires while a '
                'later call is pending; shared: 2..5 concurrent calls created from ONE metadata object (dict / list of pairs / '
                'MultiDict / CIMultiDict), with SendRequest / SendInitialMetadata / SendTrailingMetadata listeners that '
                'write a per-call id into event.metadata and await before returning (bursts of unread, partly padded DATA in the same read as the RST_STREAM / before the '
                'cancel). Every call is re-run alone on a fresh connection. spurious: a sender blocked on an '
                'exhausted stream window (peer INITIAL_WINDOW_SIZE 16/64/1000, message 100..40000 bytes) is woken '
                'by PRNG connection-level events / pause / resume / real credit, next to a second call. distinct = distinct '
                '(end, cardinalities, strike kinds per call, schedule length/4)')
    pending = []
    for case in ctx.corpus():
        scn = case.get('scenario', case)
        check_scenario(ctx, res, scn, pending)
        res.count('corpus')
    n = ctx.n(400, 6000)
    for end, share in (('client', 1.0), ('server', 1.0), ('link', 0.5), ('slots', 0.5), ('shared', 0.25), ('upload', 0.3),
                       ('sbulk', 0.15), ('seq', 0.3)):
        for _ in range(int(n * share)):
            check_scenario(ctx, res, GENS[end](rng), pending)
    for _ in range(n // 2):
        check_scenario(ctx, res, gen_spurious(rng), pending)
    settle(ctx, res, pending)
    return res


def replay(ctx, case):
    res = Result()
    pending = []
    scn = case.get('scenario', case)
    logging.disable(logging.CRITICAL)
    try:
        check_scenario(ctx, res, scn, pending)
    finally:
        logging.disable(logging.NOTSET)
    settle(ctx, res, pending)
    return res
