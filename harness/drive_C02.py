"""C02 -- client call outcome is a total, spec-conformant function of the response.

Three legs on the same cases (see notes/C02.md):
  implementation  the real Channel/Stream/H2Protocol on the virtual loop against a scripted h2 peer
                  (harness/c02_util.run_case), plus the header-interpreting helpers of client.Stream
                  and int() called directly on arbitrary (also non-ASCII) strings;
  model           build/model_C02 = extracted Model/ClientCall.v + Model/PyInt.v;
  oracle          the table of the property statement evaluated on the script in plain Python
                  (own parsing of the headers; the :status table is the one of the gRPC specification,
                  not the one of grpclib).
"""
import base64
import binascii
import json
import urllib.parse

from harness.core import Result
from harness.svc import cps
from harness import c02_util

PROPERTY = 'C02'
THEOREM_FILES = ['Props/C02.v']
ALLOWED_AXIOMS = []
LABEL = ('partial: status-details decoding is an oracle bit (base64 is modelled, protobuf parsing is not); '
         'decode_grpc_message is symbolic (C14); DATA events are complete messages (C01); the request side '
         'never blocks; three cells of the statement are refuted by the faithful model (D2c, D2d, D2g: known findings)')
TRUSTED = ['modelled, not verified: CPython int(str) grammar incl. the Unicode 15 Nd/whitespace tables '
           '(Model/PyInt.v; compared with int() on every code point in the thorough tier), dict(headers), '
           'str.partition, hyper-h2 (first HEADERS / trailers / END_STREAM / RST on a closed stream ignored / '
           'GOAWAY), asyncio task cancellation winning over a completed wait, Wrapper semantics',
           'tools/facts_C02.py (fail-closed translator: constants by value, role-level events of an expanded '
           'walk of the public entry points of the response path)',
           'oracle bit: whether grpc-status-details-bin bytes parse as google.rpc.Status (protobuf)']
ASSUMPTIONS = ['listeners (RecvInitialMetadata / RecvMessage / RecvTrailingMetadata) only suspend: they do not edit '
               'metadata, interrupt or raise; no deadline, nobody calls cancel(); the transport is never paused',
               'every DATA event carries one complete gRPC message',
               'header values reaching the client are ASCII str (h2 header_encoding=ascii); non-ASCII values '
               'are exercised on the helper functions directly',
               'the peer does not send informational (1xx) responses or a second HEADERS without END_STREAM '
               '(those are C12 inputs)']

CSUB = 'proto'
CARDS = ['UU', 'US', 'SU', 'SS']
OPEN_PROGS = [[], ['RM'], ['IT'], ['RI'], ['RI', 'RT'], ['RI', 'RM', 'RT'], ['RI', 'IT', 'RT'], ['RM', 'RM']]

STATUS_NAMES = ['OK', 'CANCELLED', 'UNKNOWN', 'INVALID_ARGUMENT', 'DEADLINE_EXCEEDED', 'NOT_FOUND',
                'ALREADY_EXISTS', 'PERMISSION_DENIED', 'RESOURCE_EXHAUSTED', 'FAILED_PRECONDITION', 'ABORTED',
                'OUT_OF_RANGE', 'UNIMPLEMENTED', 'INTERNAL', 'UNAVAILABLE', 'DATA_LOSS', 'UNAUTHENTICATED']
# doc/http-grpc-status-mapping.md of the gRPC specification
SPEC_HTTP_MAP = {'400': 'INTERNAL', '401': 'UNAUTHENTICATED', '403': 'PERMISSION_DENIED',
                 '404': 'UNIMPLEMENTED', '429': 'UNAVAILABLE', '502': 'UNAVAILABLE', '503': 'UNAVAILABLE',
                 '504': 'UNAVAILABLE'}


# ---- protobuf oracle bit ------------------------------------------------------------------------------

_codec = None


def details_bytes_ok(hs):
    """does the value of grpc-status-details-bin base64-decode AND parse as google.rpc.Status?"""
    global _codec
    v = dict(hs).get('grpc-status-details-bin')
    if v is None:
        return False
    try:
        raw = base64.b64decode(v.encode('ascii') + b'=' * (len(v) % 4))
    except Exception:
        return False
    try:
        if _codec is None:
            from grpclib.encoding.proto import ProtoStatusDetailsCodec
            _codec = ProtoStatusDetailsCodec()
        from grpclib.const import Status
        _codec.decode(Status.UNKNOWN, None, raw)
        return True
    except Exception:
        return False


def good_details():
    from google.rpc import status_pb2
    b = status_pb2.Status(code=5, message='m').SerializeToString()
    return base64.b64encode(b).decode().rstrip('=')


# ---- concretisation of the abstract classes -----------------------------------------------------------

ST_200 = ['200']
ST_NOT200 = ['404', '503', '400', '401', '403', '429', '502', '504', '500', '302', '204', '201', '599', '299',
             '', 'abc', '2000', ' 200', '200 ', '0200', None, None]
def _ct_candidates():
    out = ['text/html', '', 'Application/grpc', 'application/grpc;charset=utf-8', 'application/grpc-web',
           'application/json', ' application/grpc', 'application/grpc+Proto', 'application/grpc+', '+', '++']
    for t in ('application/grpc+json', 'application/grpc', 'application/grpc+proto'):
        n = len(t)
        out += [t[:i] for i in range(n + 1)] + [t[i:] for i in range(n + 1)]      # prefixes, suffixes
        out += [t[i:j] for i in (1, 3, 9, 12) for j in (n - 1, n - 2, 16, 17) if i < j]   # inner substrings
        out += [t + x for x in ('x', '+', '+x', ' ', 'n', '+json', '+proto')] + ['x' + t, '+' + t, t + t]
    seen, res = set(), []
    for c in out:
        if c not in seen:
            seen.add(c)
            res.append(c)
    return res


CT_ALL = _ct_candidates()
SUBTYPES = ['proto', 'json']


def ct_verdict(v, csub):
    """True | False | None (= 'application/grpc+' with an empty subtype: either verdict is accepted)"""
    if v is None:
        return False
    if v == 'application/grpc+':
        return None
    if v == 'application/grpc':
        return csub == 'proto'          # no subtype means proto
    return v == 'application/grpc+' + csub


CT_OK = {c: [v for v in CT_ALL if ct_verdict(v, c) is True] * 3 + [v for v in CT_ALL if ct_verdict(v, c) is None]
         for c in SUBTYPES}
CT_OK['json'] = [v for v in CT_OK['json'] if v != 'application/grpc+']     # proto is the default subtype
CT_BAD = {c: [v for v in CT_ALL if ct_verdict(v, c) is False] + (['application/grpc+'] if c != 'proto' else [])
          for c in SUBTYPES}
GS_OK = ['0', '0', '0', ' 0 ', '-0', '+0', '00', '0_0', '\t0\n']
GS_INVALID = ['17', '-1', 'x', '', '1.0', '0x1', '1__0', '_1', '1_', 'OK', '99999999999999999999', '+', '- 1',
              '1 2', '\x1c1', '20', '-2', '18', '1e0', 'None', '0' * 4301]
GM = [None, None, 'plain', 'a%20b', '%E4%BD%A0%E5%A5%BD', '%zz', '%ff', '', '100%', 'x y']
MD_OK = [[], [], [('x-a', 'b')], [('x-bin', 'QUJD')], [('x-bin', 'QUI')], [('y-bin', '')], [('x-a', 'b'), ('x-a', 'c')],
         [('grpc-foo-bin', '!!!')]]
MD_BAD = [[('x-bin', 'A')], [('x-bin', 'QUJDR')], [('z-bin', 'A===')], [('x-a', 'b'), ('k-bin', '%')]]


def gs_err_str(rng):
    k = rng.randint(1, 16)
    return rng.choice([str(k), str(k), str(k), '+%d' % k, ' %d' % k, '%d ' % k, '0%d' % k,
                       ('1_%d' % (k - 10)) if k >= 10 else str(k)])


def det_choice(rng):
    r = rng.random()
    if r < 0.6:
        return None
    if r < 0.75:
        return good_details()
    if r < 0.85:
        return 'A'                       # bad base64
    if r < 0.95:
        return 'AAAA/w'                  # base64 fine, not a Status message? (protobuf decides)
    return good_details() + '='


def shuffle_with_decoys(rng, pairs):
    """dict(headers): the last value wins -- sometimes put a decoy with another value first"""
    out = []
    for k, v in pairs:
        if rng.random() < 0.08:
            out.append((k, rng.choice(['0', '5', '200', '404', 'application/grpc', 'zzz'])))
        out.append((k, v))
    return out


def concretize_h(rng, st, ct, gs, md, csub='proto'):
    """headers block for the abstract class (st, ct, gs, md)"""
    hs = []
    v = rng.choice(ST_200) if st == 'S200' else rng.choice(ST_NOT200)
    if v is not None:
        hs.append((':status', v))
    if ct == 'CtOk':
        hs.append(('content-type', rng.choice(CT_OK[csub])))
    elif ct == 'CtBad':
        hs.append(('content-type', rng.choice(CT_BAD[csub])))
    hs += concretize_gs(rng, gs)
    hs = shuffle_with_decoys(rng, hs)
    hs += rng.choice(MD_OK) if md == 'MdOk' else rng.choice(MD_BAD)
    if not hs:
        hs = [('x-h', '1')]              # an empty header block cannot be sent
    return [list(p) for p in hs]


def concretize_gs(rng, gs):
    hs = []
    if gs == 'GsOk':
        hs.append(('grpc-status', rng.choice(GS_OK)))
    elif gs == 'GsErr':
        hs.append(('grpc-status', gs_err_str(rng)))
    elif gs == 'GsInvalid':
        hs.append(('grpc-status', rng.choice(GS_INVALID)))
    if gs != 'GsAbsent' or rng.random() < 0.2:
        m = rng.choice(GM)
        if m is not None:
            hs.append(('grpc-message', m))
        d = det_choice(rng)
        if d is not None:
            hs.append(('grpc-status-details-bin', d))
    return hs


def concretize_t(rng, gs, md):
    hs = shuffle_with_decoys(rng, concretize_gs(rng, gs))
    hs += rng.choice(MD_OK) if md == 'MdOk' else rng.choice(MD_BAD)
    if not hs:
        hs = [('x-t', '1')]              # an empty header block cannot be sent
    return [list(p) for p in hs]


# ---- enumeration of the abstract matrix (mirror of Model/ClientCall.v: all_layouts/all_cuts/timings) ---

ALL_ST = ['S200', 'SNot200']
ALL_CT = ['CtOk', 'CtMissing', 'CtBad']
ALL_GS = ['GsAbsent', 'GsOk', 'GsErr', 'GsInvalid']
ALL_MD = ['MdOk', 'MdBad']
ALL_CUTS = [[], [('RST',)], [('GOAWAY',)], [('LOST',)]]


def all_hinfo(mds=ALL_MD):
    return [(a, b, c, d) for a in ALL_ST for b in ALL_CT for c in ALL_GS for d in mds]


def all_tinfo(mds=ALL_MD):
    return [(c, d) for c in ALL_GS for d in mds]


def datas(k, last_end):
    return [('D', i == k - 1 and last_end) for i in range(k)]


def layouts_h(maxd, h, tinfos):
    out = [[('H', h, False)], [('H', h, True)]]
    for k in range(1, maxd + 1):
        out.append([('H', h, False)] + datas(k, False))
        out.append([('H', h, False)] + datas(k, True))
    for k in range(0, maxd + 1):
        for t in tinfos:
            out.append([('H', h, False)] + datas(k, False) + [('T', t)])
    return out


def timings(trs, es, c):
    out = []
    for j in range(len(es) + 1):
        pre, last = es[:len(es) - j], es[len(es) - j:] + c
        for tr in trs:
            # inline triggers: the prefix in one batch only (keeps the thorough tier inside its budget)
            for sep in ((False, True) if tr in ('B', 'L') else (False,)):
                bs = []
                if sep:
                    bs += [('B', [e]) for e in pre]
                elif pre:
                    bs.append(('B', pre))
                if last:
                    bs.append((tr, last))
                out.append(bs)
    return out


def abstract_scripts(maxd, trs, hinfos, tinfos):
    for es in [[]] + [l for h in hinfos for l in layouts_h(maxd, h, tinfos)]:
        for c in ALL_CUTS:
            for bs in timings(trs, es, c):
                yield bs


def concretize_script(rng, abs_bs, csub='proto'):
    """abstract batches -> the `batches` list of a case"""
    out = []
    for tr, evs in abs_bs:
        ces = []
        for e in evs:
            if e[0] == 'H':
                ces.append(['H', concretize_h(rng, *e[1], csub=csub), bool(e[2])])
            elif e[0] == 'D':
                ces.append(['D', rng.choice([0, 1, 3, 3, 20]), bool(e[1])])
            elif e[0] == 'T':
                ces.append(['T', concretize_t(rng, *e[1])])
            elif e[0] == 'RST':
                ces.append(['RST', rng.choice([0, 1, 2, 5, 7, 8, 11, 255, 2 ** 32 - 1])])
            elif e[0] == 'GOAWAY':
                ces.append(['GOAWAY', rng.choice([0, 0, 1, 2, 11])])
            else:
                ces.append(['LOST'])
        out.append({'trig': tr, 'events': ces})
    return out


def mk_case(rng, card, variant, prog, abs_bs, lis=''):
    nreq = 1 if card in ('UU', 'US') else rng.choice([0, 1, 1, 2])
    csub = 'json' if rng.random() < 0.3 else 'proto'
    return {'card': card, 'variant': variant, 'prog': list(prog), 'nreq': nreq, 'csub': csub, 'lis': lis,
            'send': rand_send(rng, card, variant),
            'codec': rng.random() < 0.85, 'batches': concretize_script(rng, abs_bs, csub)}


SEND_MODES = {'U': ['flag', 'implicit', 'req_first', 'req_first_implicit'],
              'S': ['flag', 'explicit_end', 'req_first', 'req_first_implicit']}


def rand_send(rng, card, variant):
    """how an open() body sends and ends its request (the __call__ wrappers always use end=True)"""
    if variant != 'open' or rng.random() < 0.4:
        return 'flag'
    return rng.choice(SEND_MODES[card[0]])


def expected_replies(case, ndata):
    """how many replies a SUCCESSFUL call hands to the application: every message of the response for an
    iteration, one per recv_message while there are any (independent of what the messages decode to)"""
    if case['variant'] == 'call':
        return ndata if case['card'][1] == 'S' else 1
    got, left = 0, ndata
    for op in case['prog']:
        if op == 'RM' and left:
            got, left = got + 1, left - 1
        elif op == 'IT':
            got, left = got + left, 0
    return got


# ---- PRNG scripts with free header strings and free timings --------------------------------------------

def rand_status(rng):
    r = rng.random()
    if r < 0.45:
        return '200'
    if r < 0.8:
        return str(rng.randint(200, 599))
    if r < 0.9:
        return rng.choice(['404', '503', '400', '401', '403', '429', '502', '504'])
    return rng.choice(ST_NOT200)


def rand_gs(rng):
    r = rng.random()
    if r < 0.5:
        return str(rng.randint(-2, 20))
    if r < 0.65:
        return '0'
    return rng.choice([' 0 ', '1_0', '+3', '1_6', '0_5', ' 16', '16 ', '017', 'abc', '', '5.0', '١', '0x5', '-0',
                       '+', '1__1', '\t7\r\n', '7\x0b', '7\x1c', '2 ', '1 6'])


def rand_block(rng, headers, csub='proto'):
    hs = []
    if headers:
        s = rand_status(rng)
        if s is not None and rng.random() < 0.95:
            hs.append((':status', s))
        r = rng.random()
        if r < 0.6:
            hs.append(('content-type', rng.choice(CT_OK[csub])))
        elif r < 0.85:
            hs.append(('content-type', rng.choice(CT_BAD[csub])))
    if rng.random() < (0.25 if headers else 0.85):
        hs.append(('grpc-status', rand_gs(rng)))
        m = rng.choice(GM)
        if m is not None:
            hs.append(('grpc-message', m))
        d = det_choice(rng)
        if d is not None:
            hs.append(('grpc-status-details-bin', d))
    hs = shuffle_with_decoys(rng, hs)
    hs += rng.choice(MD_OK) if rng.random() < 0.9 else rng.choice(MD_BAD)
    # the wire carries ASCII only (h2 header_encoding='ascii'); non-ASCII strings go to the helper checks
    return [[k, v] for k, v in hs if all(ord(c) < 128 for c in v)] or [['x-t', '1']]


def rand_case(rng):
    card = rng.choice(CARDS)
    variant = rng.choice(['call', 'open'])
    prog = rng.choice(OPEN_PROGS) if variant == 'open' else []
    csub = 'json' if rng.random() < 0.3 else 'proto'
    lis = rng.choice(['', '', 'imt', 'imt', 'i', 'm', 't', 'it', 'mt'])
    evs = []
    r = rng.random()
    if r > 0.05:
        hend = rng.random() < 0.15
        evs.append(['H', rand_block(rng, True, csub), hend])
        if not hend:
            nd = rng.choice([0, 0, 1, 1, 2, 3])
            dend = nd > 0 and rng.random() < 0.12
            for i in range(nd):
                evs.append(['D', rng.choice([0, 1, 3, 20]), dend and i == nd - 1])
            if not dend and rng.random() < 0.8:
                evs.append(['T', rand_block(rng, False, csub)])
    # cut: truncate the script at a random point and append the cut
    if rng.random() < 0.5:
        evs = evs[:rng.randint(0, len(evs))]
        evs.append(rng.choice([['RST', rng.choice([0, 2, 8, 11])], ['GOAWAY', rng.choice([0, 2])], ['LOST']]))
    elif rng.random() < 0.15:
        evs = evs[:rng.randint(0, len(evs))]          # neither END_STREAM nor a cut: may block for ever
    batches = []
    for e in evs:
        if batches and rng.random() < 0.45:
            batches[-1]['events'].append(e)
        else:
            tr = 'B' if (variant == 'call' or rng.random() < 0.5) else rng.randint(0, len(prog))
            if lis and rng.random() < 0.4:
                tr = 'L'
            batches.append({'trig': tr, 'events': [e]})
    nreq = 1 if card in ('UU', 'US') else rng.choice([0, 1, 2])
    return {'card': card, 'variant': variant, 'prog': list(prog), 'nreq': nreq, 'csub': csub, 'lis': lis,
            'send': rand_send(rng, card, variant), 'codec': rng.random() < 0.85, 'batches': batches}


# ---- model line protocol ------------------------------------------------------------------------------

def pairs_words(hs):
    return [str(len(hs))] + [w for k, v in hs for w in (cps(k), cps(v))]


def run_line(case):
    card = case['card']
    w = ['run', 'c' if case['variant'] == 'call' else 'o', '1' if card[0] == 'S' else '0',
         '1' if card[1] == 'S' else '0', ','.join(case['prog']) or '-', '1' if case.get('codec', True) else '0',
         cps(case.get('csub', CSUB)), ''.join('1' if c in case.get('lis', '') else '0' for c in 'imt'),
         str(len(case['batches']))]
    for b in case['batches']:
        w += [str(b['trig']), str(len(b['events']))]
        for e in b['events']:
            if e[0] == 'H':
                w += ['H', '1' if e[2] else '0', '1' if details_bytes_ok(e[1]) else '0'] + pairs_words(e[1])
            elif e[0] == 'D':
                w += ['D', '1' if e[2] else '0']
            elif e[0] == 'T':
                w += ['T', '1' if details_bytes_ok(e[1]) else '0'] + pairs_words(e[1])
            else:
                w.append({'RST': 'R', 'GOAWAY': 'G', 'LOST': 'L'}[e[0]])
    return ' '.join(w)


def parse_run_answer(line):
    obs, defects, spec = [p.strip() for p in line.split('|')]
    return obs.split(), ([] if defects == '-' else defects.split(',')), spec == '1'


def canon_model(words):
    k = words[0]
    if k == 'ok':
        return ('ok', int(words[1]))
    if k == 'grpc':
        m = words[2]
        if m == 'client':
            msg = ('client',)
        elif m == 'none':
            msg = ('none',)
        else:
            from harness.svc import uncps
            raw = uncps(m[2:] or '-')
            msg = ('text', urllib.parse.unquote(raw, encoding='utf-8', errors='replace'))
        return ('grpc', int(words[1]), msg, 'decoded' if words[3] == 'ok' else 'none')
    return (k,)


EXC_CANON = {'StreamTerminated': 'terminated', 'ProtocolError': 'protocol', 'AssertionError': 'assertion',
             'Error': 'binascii', 'UnicodeEncodeError': 'unicode'}


def canon_impl(obs, model=None):
    if obs[0] == 'hang':
        return ('hang',)
    if obs[0] == 'ok':
        return ('ok', obs[1])
    name, info = obs[1], obs[2]
    if name.startswith('GRPCError:'):
        st = STATUS_NAMES.index(name.split(':')[1])
        if info['message'] is None:
            msg = ('none',)
        elif model is not None and model[0] == 'grpc' and model[2] == ('client',):
            msg = ('client',)            # texts composed by the client are not compared
        else:
            msg = ('text', info['message'])
        return ('grpc', st, msg, 'decoded' if info['details'] is not None else 'none')
    return (EXC_CANON.get(name, 'exc:' + name),)


# ---- the direct oracle: the table of the statement on the script ---------------------------------------

def py_gs(block):
    """grpc-status of a block by Python's own int(): 'absent' | 'invalid' | k"""
    d = dict((k, v) for k, v in block)
    if 'grpc-status' not in d:
        return 'absent'
    try:
        k = int(d['grpc-status'])
    except ValueError:
        return 'invalid'
    return k if 0 <= k <= 16 else 'invalid'


def py_ct_ok(block, csub=CSUB):
    """True | False | None (= 'application/grpc+' with an empty subtype: either verdict is accepted)"""
    d = dict((k, v) for k, v in block)
    return ct_verdict(d.get('content-type'), csub)


def script_facts(case):
    H = T = None
    ended = cut = False
    bad_bin = False
    ndata = 0
    closing_inline = False
    for b in case['batches']:
        for e in b['events']:
            if e[0] == 'H' and H is None:
                H = e[1]
                ended = ended or bool(e[2])
            elif e[0] == 'D':
                ndata += 1
                ended = ended or bool(e[2])
            elif e[0] == 'T' and T is None:
                T = e[1]
                ended = True
            elif e[0] == 'RST':
                if not ended:          # HTTP/2: a reset of a stream both sides have ended changes nothing
                    cut = True
            elif e[0] in ('GOAWAY', 'LOST'):
                cut = True
                if b['trig'] != 'B' and case['variant'] == 'open':
                    closing_inline = True
    for blk in (H, T):
        for k, v in blk or []:
            if k.endswith('-bin') and not k.startswith('grpc-'):
                try:
                    base64.b64decode(v.encode('ascii') + b'=' * (len(v) % 4))
                except (binascii.Error, UnicodeEncodeError):
                    bad_bin = True
    return {'H': H, 'T': T, 'ended': ended, 'cut': cut, 'bad_bin': bad_bin, 'ndata': ndata,
            'closing_inline': closing_inline}


def oracle(case, obs):
    """None when the observation is what the statement prescribes, else (what, signature)"""
    f = script_facts(case)
    H, T, ended, cut = f['H'], f['T'], f['ended'], f['cut']
    dH = dict((k, v) for k, v in H) if H is not None else None
    http_ok = dH is not None and dH.get(':status') == '200'
    ct = py_ct_ok(H, case.get('csub', CSUB)) if H is not None else False
    accs = [True, False] if (http_ok and ct is None) else [bool(http_ok and ct)]
    gsH = py_gs(H) if H is not None else 'absent'
    gsT = py_gs(T) if T is not None else 'absent'
    unary_reply = case['variant'] == 'call' and case['card'][1] == 'U'
    cls = {'variant': case['variant'], 'cut': cut}

    def allowed(acc):
        if obs[0] == 'hang':
            return not (ended or cut)
        if obs[0] == 'ok':
            return acc and (gsH == 0 or gsT == 0)
        name, info = obs[1], obs[2]
        if name == 'StreamTerminated':
            return cut and ((gsH == 'absent' and gsT == 'absent') or gsH == 0 or gsT == 0)
        if not name.startswith('GRPCError:'):
            return False
        st = name.split(':')[1]
        if dH is not None and not http_ok and st == SPEC_HTTP_MAP.get(dH.get(':status'), 'UNKNOWN'):
            return True
        if st == 'UNKNOWN' and http_ok and (
                not acc or gsH == 'invalid'
                or (T is not None and gsT in ('absent', 'invalid'))
                or (T is None and ended and gsH == 'absent')):
            return True
        for gs, blk in ((gsH, H), (gsT, T)):
            if acc and isinstance(gs, int) and gs != 0 and st == STATUS_NAMES[gs]:
                raw = dict((k, v) for k, v in blk).get('grpc-message')
                want = None if raw is None else urllib.parse.unquote(raw, encoding='utf-8', errors='replace')
                if info['message'] == want:
                    return True
        return False

    if any(allowed(a) for a in accs):
        if obs[0] == 'ok' and obs[1] != expected_replies(case, f['ndata']):
            return ('the call succeeded with %r replies, the response carried %d message(s) and the application '
                    'asked for %d' % (obs[1], f['ndata'], expected_replies(case, f['ndata'])),
                    dict(cls, kind='wrong-reply-count', fewer=bool(obs[1] < expected_replies(case, f['ndata']))))
        return None
    acc = accs[0]
    if obs[0] == 'hang':
        return ('the call never finishes although the response ended or was cut',
                dict(cls, kind='hang', end_stream_without_status=bool(ended and T is None and gsH == 'absent')))
    if obs[0] == 'ok':
        return ('the call succeeded without grpc-status OK on an acceptable response',
                dict(cls, kind='success-without-ok-status', closing_inline=f['closing_inline']))
    name = obs[1]
    if name == 'StreamTerminated':
        return ('StreamTerminatedError although a status arrived (or nothing cut the response)',
                dict(cls, kind='termination-error-with-status'))
    if name.startswith('GRPCError:'):
        return ('GRPCError with a status/message the statement does not prescribe: %s' % name,
                dict(cls, kind='wrong-error', ct_unacceptable=bool(http_ok and not acc),
                     server_status=bool(isinstance(gsH, int) and gsH != 0 or isinstance(gsT, int) and gsT != 0)))
    return ('%s escapes from the call instead of a GRPCError / StreamTerminatedError' % name,
            dict(cls, kind='escaped-exception', exc=name, bad_bin=f['bad_bin'],
                 unary_reply_without_message=bool(unary_reply and f['ndata'] == 0)))


# ---- running a batch of call cases ---------------------------------------------------------------------

def check_runs(ctx, res, cases, tag):
    lines = [run_line(c) for c in cases]
    model = ctx.model(lines) if ctx.model_ok else None
    for i, case in enumerate(cases):
        obs, extra = c02_util.run_case(case)
        res.evaluations += 1
        mw = md = cm = ci = None
        mspec = True
        if model is not None:
            mw, md, mspec = parse_run_answer(model[i])
            cm = canon_model(mw)
            ci = canon_impl(obs, cm)
            res.traces += 1
            if cm != ci:
                res.disagreements.append({'case': case, 'model': list(cm), 'impl': list(ci)})
            res.count('model-outcome:' + (mw[0] if mw[0] != 'grpc' else 'grpc:' + mw[1]))
            res.count('model-spec:' + ('allowed' if mspec else 'refuted:' + ','.join(md)))
        ci0 = canon_impl(obs)
        f = script_facts(case)
        res.count('%s:%s:%s' % (tag, case['variant'], case['card']))
        res.count('config:csub=%s:listeners=%s' % (case.get('csub', CSUB), case.get('lis', '') or '-'))
        if case['variant'] == 'open':
            res.count('config:send=' + case.get('send', 'flag'))
        res.count('impl:' + (ci0[0] if ci0[0] != 'grpc' else 'grpc:%d' % ci0[1]))
        res.count('cut:' + ('yes' if f['cut'] else 'no') + ':ended:' + ('yes' if f['ended'] else 'no'))
        res.signatures.add((case['variant'], case['card'], tuple(case['prog']), case.get('lis', ''),
                            case.get('send', 'flag'),
                            tuple((b['trig'] if b['trig'] in ('B', 'L') else 'S', tuple(e[0] + str(e[2] if e[0] == 'H' else '')
                                                           for e in b['events'])) for b in case['batches']),
                            ci0[:2]))
        if extra['errors'] or extra['unhandled']:
            res.count('harness:peer-refused-or-input-path-raised')
            res.notes.append('script not delivered as written: %r %r' % (extra['errors'][:2], case['batches'][:1]))
        res.sample({'case': case, 'impl': list(ci0)}, limit=8)
        bad = oracle(case, obs)
        if bad:
            res.oracle_failures.append({'case': case, 'what': bad[0], 'signature': bad[1], 'observed': list(ci0)})
        if model is not None and cm == ci:
            # the Coq table (spec_allows on the abstract script) and this Python table were written
            # independently; they may differ only where the oracle is deliberately lenient
            if (bad is None) != mspec:
                res.count('tables:coq-and-python-differ')
                if len(res.notes) < 5:
                    res.notes.append('spec tables differ (coq allows=%r, python failure=%r) on %r' % (
                        mspec, bad and bad[1], case['batches']))
            else:
                res.count('tables:coq-and-python-agree')


# ---- helper functions of client.Stream on arbitrary strings --------------------------------------------

NONASCII_GS = ['٣', '１２', '1٣', '١_٣', '٠', '　' + '5', '5\xa0', '\x855', '5 ', '٣' * 2, '۵', '߁', '५',
               '𝟓', '５', 'é', '5é', '²', '①', '½', '​5', '5​', '﻿5', '１６', '１７', '-٣', '+٣',
               '٣_٣', '٣__٣', '_٣', '\x1c5', '\x1f5', '5\x1d']


def rand_unicode_int_string(rng):
    parts = []
    for _ in range(rng.choice([0, 0, 1, 2])):
        parts.append(rng.choice([' ', '\t', '\n', '\x0b', '\x0c', '\r', '\xa0', '\x85', '　', ' ',
                                 '\x1c', '​']))
    parts.append(rng.choice(['', '', '', '+', '-', '−', '＋']))
    digs = []
    for _ in range(rng.choice([0, 1, 1, 2, 2, 3, 5])):
        base = rng.choice([48, 48, 48, 1632, 1776, 2406, 65296, 120782, 0x1D7CE + 10, 4160])
        digs.append(chr(base + rng.randint(0, 9)))
        if rng.random() < 0.2:
            digs.append(rng.choice(['_', '_', '__', ' ', '.', 'a']))
    parts.append(''.join(digs))
    for _ in range(rng.choice([0, 0, 1, 2])):
        parts.append(rng.choice([' ', '\t', '\n', '\xa0', ' ', '\x1f', 'x']))
    return ''.join(parts)


def impl_int(s):
    try:
        return int(s)
    except ValueError:
        return None


def check_ints(ctx, res, strings):
    lines = ['int ' + cps(s) for s in strings]
    model = ctx.model(lines) if ctx.model_ok else None
    for i, s in enumerate(strings):
        res.evaluations += 1
        v = impl_int(s)
        res.count('int:' + ('value' if v is not None else 'ValueError'))
        if model is not None:
            res.traces += 1
            w = model[i].split()
            m = None if w[0] == 'none' else int(w[1], 16)
            if m != v:
                res.disagreements.append({'case': {'op': 'int', 's': s}, 'model': m, 'impl': v})


def find_helpers(stream, csub):
    """The response-checking helpers of client.Stream are private: locate them by what they DO (a synchronous
    method of one argument that ...), never by name; a role that cannot be found is simply not observed at this
    level (the end-to-end runs still cover it)."""
    import inspect
    from grpclib.const import Status
    from grpclib.exceptions import GRPCError
    okct = 'application/grpc+' + csub
    cands = []
    for name in dir(type(stream)):
        if name.startswith('__'):
            continue
        f = inspect.getattr_static(type(stream), name, None)
        if not inspect.isfunction(f) or inspect.iscoroutinefunction(f) or inspect.isasyncgenfunction(f) \
                or inspect.isgeneratorfunction(f):
            continue
        try:
            params = [p for p in inspect.signature(f).parameters.values()
                      if p.kind in (p.POSITIONAL_ONLY, p.POSITIONAL_OR_KEYWORD)]
        except (TypeError, ValueError):
            continue
        if len(params) == 2:
            cands.append(name)

    def probe(name, d):
        try:
            return ('ret', getattr(stream, name)(dict(d)))
        except GRPCError as e:
            return ('grpc', e.status)
        except BaseException as e:
            return ('exc', type(e).__name__)

    roles = {}
    for name in cands:
        full = {':status': '200', 'content-type': okct, 'grpc-status': '0'}
        r_ok = probe(name, full)
        if r_ok == ('ret', None):
            no_st = probe(name, {k: v for k, v in full.items() if k != ':status'})
            no_ct = probe(name, {k: v for k, v in full.items() if k != 'content-type'})
            if no_st[0] == 'grpc' and no_ct == ('ret', None) and probe(name, dict(full, **{':status': '404'}))[0] == 'grpc':
                roles.setdefault('status', name)
            elif no_ct[0] == 'grpc' and no_st == ('ret', None):
                roles.setdefault('content-type', name)
        elif r_ok[0] == 'ret' and isinstance(r_ok[1], tuple) and len(r_ok[1]) == 3 and r_ok[1][0] is Status.OK:
            if probe(name, {':status': '200'})[0] == 'grpc':
                roles.setdefault('grpc-status', name)
    return roles


def impl_block(stream, hs, codec_on, roles=None):
    """what the real helpers make of a block: (st, ct, gs, msg, details, md); a component whose helper could
    not be located is None (not observed)"""
    from grpclib.exceptions import GRPCError
    from grpclib.metadata import decode_metadata
    d = dict(hs)
    roles = roles or {}
    st = ct = gs = None
    if 'status' in roles:
        try:
            getattr(stream, roles['status'])(d)
            st = '200'
        except GRPCError as e:
            st = str(e.status.value)
    if 'content-type' in roles:
        try:
            getattr(stream, roles['content-type'])(d)
            ct = 'ok'
        except GRPCError as e:
            ct = ('missing' if 'content-type' not in d else 'bad') + ('' if e.status.value == 2 else '!%d' % e.status.value)
    msg = det = None
    if 'grpc-status' in roles:
        try:
            status, message, details = getattr(stream, roles['grpc-status'])(d)
            gs = 'valid:%d' % status.value
            msg, det = message, details
        except GRPCError as e:
            gs = ('absent' if 'grpc-status' not in d else 'invalid') + ('' if e.status.value == 2 else '!%d' % e.status.value)
    try:
        decode_metadata(hs)
        md = 'ok'
    except binascii.Error:
        md = 'binascii'
    except UnicodeEncodeError:
        md = 'unicode'
    return st, ct, gs, msg, det, md


def check_blocks(ctx, res, blocks):
    """blocks: [(headers, codec_on, csub)]"""
    from harness.c02_util import JsonSubtypeCodec
    blocks = [(b + ('proto',))[:3] for b in (tuple(b) for b in blocks)]
    from harness import vloop, wire
    from grpclib.const import Cardinality
    from grpclib.encoding.proto import ProtoStatusDetailsCodec
    lines = []
    for hs, codec_on, csub in blocks:
        lines.append(' '.join(['hdr', '1' if codec_on else '0', '1' if details_bytes_ok(hs) else '0', cps(csub)]
                              + pairs_words(hs)))
    model = ctx.model(lines) if ctx.model_ok else None
    with vloop.session() as loop:
        streams, roles = {}, {}
        for on in (True, False):
            for sub in SUBTYPES:
                ce = wire.ClientEnd(loop, status_details_codec=ProtoStatusDetailsCodec() if on else None,
                                    codec=JsonSubtypeCodec() if sub == 'json' else None)
                streams[on, sub] = ce.channel.request('/v.S/M', Cardinality.UNARY_UNARY, bytes, bytes)
                roles[on, sub] = find_helpers(streams[on, sub], sub)
                for r in ('status', 'content-type', 'grpc-status'):
                    if r not in roles[on, sub]:
                        res.count('hdr:helper-not-located:' + r)
        for i, (hs, codec_on, csub) in enumerate(blocks):
            res.evaluations += 1
            try:
                st, ct, gs, msg, det, md = impl_block(streams[codec_on, csub], [tuple(p) for p in hs], codec_on,
                                                      roles[codec_on, csub])
            except Exception as e:      # a helper raised something that is not a GRPCError
                res.oracle_failures.append({'case': {'op': 'hdr', 'hs': hs, 'codec': codec_on, 'csub': csub},
                                            'what': 'a response-checking helper raised %s' % type(e).__name__,
                                            'signature': {'kind': 'helper-raised', 'exc': type(e).__name__}})
                continue
            res.count('hdr:st=%s' % ('unobserved' if st is None else '200' if st == '200' else 'non200'))
            res.count('hdr:gs=' + (gs or 'unobserved').split(':')[0])
            res.count('hdr:md=' + md)
            # oracle on the helper level: int() of Python and the spec table
            d = dict((k, v) for k, v in hs)
            want_st = '200' if d.get(':status') == '200' else str(STATUS_NAMES.index(
                SPEC_HTTP_MAP.get(d.get(':status'), 'UNKNOWN')))
            g = py_gs(hs)
            want_gs = g if isinstance(g, str) else 'valid:%d' % g
            want_ct = ct_verdict(d.get('content-type'), csub)
            res.count('hdr:csub=%s:ct=%s' % (csub, (ct or 'unobserved').split('!')[0]))
            if ct is not None and want_ct is not None and (ct == 'ok') != want_ct:
                res.oracle_failures.append({'case': {'op': 'hdr', 'hs': hs, 'codec': codec_on, 'csub': csub},
                                            'what': 'content-type %r %s by a %s codec' % (
                                                d.get('content-type'), 'accepted' if ct == 'ok' else 'refused', csub),
                                            'signature': {'kind': 'helper-content-type', 'csub': csub,
                                                          'accepted': ct == 'ok'}})
            if (st is not None and st != want_st) or (gs is not None and gs != want_gs):
                res.oracle_failures.append({'case': {'op': 'hdr', 'hs': hs, 'codec': codec_on, 'csub': csub},
                                            'what': 'block classified %s/%s, statement says %s/%s' % (
                                                st, gs, want_st, want_gs),
                                            'signature': {'kind': 'helper-classification'}})
            if model is not None:
                res.traces += 1
                w = model[i].split()
                m_st, m_ct, m_gs, m_msg, m_det, m_md = w
                ok = (st in (None, m_st) and ct in (None, m_ct) and gs in (None, m_gs) and m_md == md)
                if ok and gs is not None and gs.startswith('valid:') and gs != 'valid:0':
                    from harness.svc import uncps
                    want_msg = None if m_msg == 'none' else urllib.parse.unquote(
                        uncps(m_msg[2:] or '-'), encoding='utf-8', errors='replace')
                    ok = (msg == want_msg) and ((det is not None) == (m_det == 'ok'))
                if not ok:
                    res.disagreements.append({'case': {'op': 'hdr', 'hs': hs, 'codec': codec_on, 'csub': csub},
                                              'model': w, 'impl': [st, ct, gs, msg, repr(det), md]})


def rand_free_block(rng):
    hs = []
    if rng.random() < 0.9:
        hs.append((':status', rng.choice(['200', '200', str(rng.randint(100, 599)), '', '٢٠٠', 'OK', '200 '])))
    if rng.random() < 0.9:
        hs.append(('content-type', rng.choice(CT_ALL + ['application/grpc+prötö', 'application/grpc+jsön'])))
    if rng.random() < 0.85:
        r = rng.random()
        gs = rand_gs(rng) if r < 0.4 else (rng.choice(NONASCII_GS) if r < 0.7 else rand_unicode_int_string(rng))
        hs.append(('grpc-status', gs))
    m = rng.choice(GM + ['%C3%A9', 'é', '%'])
    if m is not None:
        hs.append(('grpc-message', m))
    d = det_choice(rng)
    if d is not None:
        hs.append(('grpc-status-details-bin', d if rng.random() < 0.9 else d + 'é'))
    hs = shuffle_with_decoys(rng, hs)
    hs += rng.choice(MD_OK + MD_BAD + [[('u-bin', 'é')]])
    return [[k, v] for k, v in hs]


# ---- driver ---------------------------------------------------------------------------------------------

def matrix_cases(rng, thorough):
    """the abstract matrix; thorough: every cell; quick: a PRNG sample of the same cells"""
    hin_ok, tin_ok = all_hinfo(['MdOk']), all_tinfo(['MdOk'])
    groups = []
    for card in CARDS:
        groups.append((card, 'call', [], 2, ['B'], hin_ok, tin_ok))
    for i, prog in enumerate(OPEN_PROGS):
        groups.append((CARDS[i % 4], 'open', prog, 1, ['B'] + list(range(len(prog) + 1)), hin_ok, tin_ok))
    # malformed user metadata (MdBad) in the headers and/or the trailers: a smaller product
    hin_bad = [h for h in all_hinfo(['MdBad']) if h[0] == 'S200' and h[1] == 'CtOk'] + \
              [('SNot200', 'CtOk', 'GsAbsent', 'MdBad'), ('S200', 'CtBad', 'GsErr', 'MdBad')]
    for card in CARDS:
        groups.append((card, 'call', [], 1, ['B'], hin_bad, all_tinfo()))
        groups.append((card, 'call', [], 1, ['B'], [h for h in hin_ok if h[0] == 'S200' and h[1] == 'CtOk'],
                       all_tinfo(['MdBad'])))
    groups.append(('UU', 'open', ['RI', 'RM', 'RT'], 1, ['B', 0, 1, 2, 3], hin_bad, all_tinfo()))
    groups = [g + ('',) for g in groups]
    # suspending listeners on RecvInitialMetadata / RecvMessage / RecvTrailingMetadata, the batch of the cut
    # delivered during a suspension ('L') or while blocked; acceptable and unacceptable responses
    hin_l = [h for h in hin_ok if h[0] == 'S200' and h[1] == 'CtOk'] + \
            [('SNot200', 'CtOk', 'GsAbsent', 'MdOk'), ('S200', 'CtBad', 'GsErr', 'MdOk')]
    for card in CARDS:
        groups.append((card, 'call', [], 1, ['B', 'L'], hin_l, tin_ok, 'imt'))
    for i, prog in enumerate(OPEN_PROGS):
        groups.append((CARDS[(i + 1) % 4], 'open', prog, 1, ['L', len(prog)], hin_l, tin_ok, 'imt'))
    for lis in ('i', 'm', 't'):
        groups.append(('US', 'call', [], 1, ['L'], hin_l, tin_ok, lis))
        groups.append(('UU', 'open', ['RI', 'RM', 'RT'], 1, ['L'], hin_l, tin_ok, lis))
    for card, variant, prog, maxd, trs, hins, tins, lis in groups:
        for abs_bs in abstract_scripts(maxd, trs, hins, tins):
            yield card, variant, prog, abs_bs, lis


def listener_cut_cases(rng):
    """always run, both tiers: a complete (or trailers-only) response arrives piecewise while the client is
    blocked, then the cut is delivered while a listener is suspended -- every cardinality, both variants,
    each single listener and all three, every cut kind"""
    ok = ('S200', 'CtOk', 'GsAbsent', 'MdOk')
    for card in CARDS:
        for variant, prog in (('call', []), ('open', ['RI', 'RM', 'RT']), ('open', []), ('open', ['IT'])):
            for lis in ('t', 'imt', 'm', 'i'):
                for cut in (('RST',), ('GOAWAY',), ('LOST',)):
                    for gs in ('GsErr', 'GsOk'):
                        yield card, variant, prog, [('B', [('H', ok, False)]), ('B', [('D', False)]),
                                                    ('B', [('T', (gs, 'MdOk'))]), ('L', [cut])], lis
                    yield card, variant, prog, [('B', [('H', ('S200', 'CtOk', 'GsErr', 'MdOk'), False)]),
                                                ('L', [cut])], lis
                    yield card, variant, prog, [('B', [('H', ok, False), ('D', False), ('D', False)]),
                                                ('L', [cut])], lis


def hint_variants(rng, hint):
    """leg 3: around a case on which model and implementation disagree, keep kind, listeners, batching and
    triggers and re-draw the header / trailer blocks over every abstract class -- the disagreement shows WHERE
    the code changed, one of the neighbours usually shows the property failing"""
    if not isinstance(hint, dict) or 'batches' not in hint:
        return
    csub = hint.get('csub', 'proto')
    for h in all_hinfo(['MdOk']):
        for t in all_tinfo(['MdOk']):
            c = json.loads(json.dumps(hint))
            for b in c['batches']:
                for e in b['events']:
                    if e[0] == 'H':
                        e[1] = concretize_h(rng, *h, csub=csub)
                    elif e[0] == 'T':
                        e[1] = concretize_t(rng, *t)
            yield c


def run(ctx):
    res = Result()
    rng = ctx.rng
    thorough = ctx.tier == 'thorough'
    res.rule = ('(a) the abstract matrix of Model/ClientCall.v: (:status class x content-type class x grpc-status '
                'class x metadata class) x layouts {nothing, H, H(END), H D^k, H D^k(END), H D^k T; k<=2 for the '
                'four __call__ kinds, k<=1 for 8 open() bodies} x cut {none, RST, GOAWAY, connection_lost} x every '
                'split point of the cut batch x {one batch, one batch per event} x trigger {blocked, before step '
                'k}; each cell concretised by PRNG header strings (thorough: every cell; quick: PRNG sample); '
                '(a2) always: 768 scripts in which the cut arrives while a RecvInitialMetadata / RecvMessage / '
                'RecvTrailingMetadata listener is suspended (4 cardinalities x call and three open() bodies x 4 '
                'listener sets x 3 cuts x 4 responses), also part of (a) as trigger L; two codec subtypes '
                '(proto, json) with content-type candidates that are prefixes/suffixes/substrings/superstrings '
                'of the accepted values; '
                'open() bodies send and end their request in every legal way (end=True, unary message without '
                'end=True, explicit end(), explicit send_request() first); a successful call must also hand over '
                'as many replies as the response carried (messages of 0 bytes included, non-protobuf codecs); '
                '(b) PRNG scripts with free header strings (:status 200..599/junk/missing, grpc-status -2..20 and '
                'int() corner spellings, percent-encoded messages, details, malformed -bin) and free batch splits '
                'and triggers; (c) the response-checking helpers and int() on arbitrary, also non-ASCII, strings. '
                'distinct = distinct (variant, cardinality, body, batch shapes, outcome class)')
    # corpus first
    corpus = [c['case'] for c in ctx.corpus() if 'case' in c]
    ccases = [c for c in corpus if 'op' not in c]
    if ccases:
        check_runs(ctx, res, ccases, 'corpus')
    if any(c.get('op') == 'hdr' for c in corpus):
        check_blocks(ctx, res, [(c['hs'], c.get('codec', True), c.get('csub', 'proto')) for c in corpus
                                if c.get('op') == 'hdr'])
    if any(c.get('op') == 'int' for c in corpus):
        check_ints(ctx, res, [c['s'] for c in corpus if c.get('op') == 'int'])
    hints = [h for h in (getattr(ctx, 'hints', None) or []) if isinstance(h, dict) and 'batches' in h][:12]
    if hints:
        check_runs(ctx, res, [c for h in hints for c in hint_variants(rng, h)], 'hint')
    # (a) matrix
    cells = list(matrix_cases(rng, thorough))
    res.extra['matrix_cells'] = len(cells)
    if thorough and not ctx.search:
        chosen = cells
        res.exhaustive = True
    else:
        k = ctx.n(6000, len(cells))
        chosen = [cells[i] for i in sorted(rng.sample(range(len(cells)), min(k, len(cells))))]
    res.extra['matrix_cells_run'] = len(chosen)
    batch = []
    for card, variant, prog, abs_bs, lis in chosen:
        batch.append(mk_case(rng, card, variant, prog, abs_bs, lis))
        if len(batch) >= 20000:
            check_runs(ctx, res, batch, 'matrix')
            batch = []
    if batch:
        check_runs(ctx, res, batch, 'matrix')
    check_runs(ctx, res, [mk_case(rng, *c) for c in listener_cut_cases(rng)], 'listener-cut')
    # (b) free scripts
    check_runs(ctx, res, [rand_case(rng) for _ in range(ctx.n(2500, 15000))], 'prng')
    # (c) helpers and int()
    blocks = [(rand_free_block(rng), rng.random() < 0.8, rng.choice(SUBTYPES)) for _ in range(ctx.n(3000, 25000))]
    blocks += [([[':status', '200'], ['content-type', 'application/grpc'], ['grpc-status', s]], True, 'proto')
               for s in NONASCII_GS + GS_OK + GS_INVALID]
    # every content-type candidate (prefixes / suffixes / substrings / superstrings of the accepted values)
    # against both codec subtypes
    blocks += [([[':status', '200'], ['content-type', v], ['grpc-status', '0']], True, sub)
               for v in CT_ALL for sub in SUBTYPES]
    check_blocks(ctx, res, blocks)
    ints = NONASCII_GS + GS_OK + GS_INVALID + [str(k) for k in range(-3, 21)]
    ints += ['0' * 4299 + '5', '0' * 4300 + '5', '1' * 4300, '1' * 4301, '1_' * 2149 + '1', ' ' * 50 + '7' + ' ' * 50]
    ints += [rand_unicode_int_string(rng) for _ in range(ctx.n(3000, 50000))]
    # every digit run and blank of the tables, with neighbours; thorough: every code point
    if thorough and not ctx.search:
        cpsel = [c for c in range(0x110000) if not 0xD800 <= c <= 0xDFFF]
    else:
        import unicodedata
        cpsel = set(range(0, 0x300))
        for c in range(0x110000):
            ch = chr(c)
            if ch.isspace() or unicodedata.category(ch) in ('Nd', 'No', 'Nl'):
                cpsel.update((c - 1, c, c + 1))
        cpsel = sorted(c for c in cpsel if 0 <= c < 0x110000 and not 0xD800 <= c <= 0xDFFF)
    ints += [chr(c) for c in cpsel] + [chr(c) + '1' + chr(c) for c in cpsel if c < 0x30000 or c >= 0xE0000]
    if not thorough:
        ints += [chr(c) + '1' for c in cpsel] + ['1' + chr(c) for c in cpsel]
    res.extra['int_codepoints_covered'] = len(cpsel)
    check_ints(ctx, res, ints)
    # the tie broke on call cases: search around the disagreeing cases for an input on which the PROPERTY fails
    # (./check runs its own leg 3 only when no oracle failure at all was seen, and the known findings are some)
    dis = [d['case'] for d in res.disagreements if isinstance(d.get('case'), dict) and 'batches' in d['case']]
    if dis and not hints:
        seen, picked = set(), []
        for c in dis:
            key = (c['variant'], tuple(c.get('prog', [])), c.get('lis', ''),
                   tuple((str(b['trig']), tuple(e[0] for e in b['events'])) for b in c['batches']))
            if key not in seen:
                seen.add(key)
                picked.append(c)
        n0 = len(res.disagreements)
        check_runs(ctx, res, [c for h in picked[:12] for c in hint_variants(rng, h)], 'hint')
        res.notes.append('searched %d neighbours of %d disagreeing cases' % (96 * len(picked[:12]), len(picked[:12])))
        del res.disagreements[n0 + 50:]
    return res


def replay(ctx, case):
    res = Result()
    op = case.get('op')
    if op == 'int':
        check_ints(ctx, res, [case['s']])
    elif op == 'hdr':
        check_blocks(ctx, res, [(case['hs'], case.get('codec', True), case.get('csub', 'proto'))])
    else:
        check_runs(ctx, res, [case], 'replay')
    return res
