"""C04 -- no client operation outlives its stream or connection.

Implementation side: the COMPLETE matrix operation(8) x blocking reason(4) x termination event(6) x
order(2) x deadline(2) = 768 cells (plus status-already-arrived, implicit-send_request, after-headers and
slot-holder variants) on the real Channel / Stream / H2Protocol objects on the virtual-time loop; a task
still pending at quiescence is blocked forever.  Model side: Model/Termination.predict (the scenario
interpreter over the guard kernel and the GENERATED client operations) answers every cell; compared are
applicability, where the operation was suspended, registration, the wrapper's error, the operation's and
the call's outcome class (incl. the GRPCError status), and what a deadline makes of a hang.  Direct
oracle: the property itself on the observed behaviour."""
from harness import c04_util as U
from harness.core import Result

PROPERTY = 'C04'
THEOREM_FILES = ['Props/C04.v']
ALLOWED_AXIOMS = []
LABEL = ('full on the model for calls registered with the connection when the event comes (meta-theorem over '
         'all well-guarded paths and schedules, instantiated by vm_compute on the operations re-sliced from '
         'client.py on every run); partial overall: the D6 class (call still inside protocol.Stream.'
         'send_request) is refuted and excluded; "promptly" = finishes in its next scheduling step, no clock')
TRUSTED = ['tools/skeleton_ir.py (slicer; shared with C06)',
           'hand-modelled, tied by the correspondence only: Wrapper.__enter__/__exit__/cancel and asyncio '
           'Task.cancel semantics (Model/GuardKernel.v), registration inside protocol.Stream.send_request, '
           'EventsProcessor.close / process_stream_reset fan-out, DeadlineWrapper timer, __aexit__ / '
           '_maybe_finish / _maybe_raise (Model/Termination.v)',
           'modelled, not verified: which protocol primitive suspends under which state of the connection '
           '(write_ready, stream_close_waiter, window_updated, headers/trailers events, buffer queue)']
ASSUMPTIONS = ['event listeners do not block or swallow CancelledError',
               'operations are awaited from asyncio tasks; nothing inside a guarded operation catches '
               'CancelledError (true of the sliced IR: it has no try/except)',
               'cells use a STREAM_STREAM method (every operation is legal); the deadline (64 s) lies beyond '
               'the observation window of "promptly"']

def expected_event(site, reason):
    """the synchronisation object a task suspended in protocol function `site` waits on"""
    if site == 'send_request':
        return 'stream_slot' if reason == 'slot' else 'write_ready'
    if site == 'send_data':
        return 'window' if reason == 'window' else 'write_ready'
    return {'end': 'write_ready', 'reset': 'write_ready', 'recv_headers': 'headers',
            'recv_trailers': 'trailers', 'recv_message': 'buffer'}.get(site, site)


FAILING = {'none': None, 'h503': 14, 'tonly7': 7, 'trailers5': 5, 'trailers0': None, 'tonly0': None,
           'trailers13': 13, 'tonly16': 16, 'h200': None, 'h200m': None}
NATURAL = [('sr', 'paused'), ('sm', 'window'), ('en', 'paused'), ('ri', 'silent'), ('rm', 'silent'),
           ('rt', 'silent'), ('ca', 'paused'), ('ax', 'silent'), ('cl', 'silent')]


GOAWAY_CODES = [0, 1, 2, 11]            # NO_ERROR, PROTOCOL_ERROR, INTERNAL_ERROR, ENHANCE_YOUR_CALM
GOAWAY_LAST = ['zero', 'highest', 'lower', 'max']
RST_CODES = [0, 1, 2, 5, 7, 8, 11]      # NO_ERROR ... STREAM_CLOSED, REFUSED_STREAM, CANCEL, ENHANCE_YOUR_CALM


# ---- the cells ------------------------------------------------------------------------------------------

def base_cell(op, reason, event, order, deadline):
    variant = 'implicit' if (op == 'sm' and reason == 'slot' and order == 'during') else 'base'
    return {'op': op, 'reason': reason, 'event': event, 'order': order, 'deadline': deadline,
            'status': 'none', 'variant': variant, 'holder': 'idle', 'violation': 'window', 'card': 'UU'}


def matrix():
    return [base_cell(op, r, e, o, d) for op in U.OPS for r in U.REASONS for e in U.EVENTS
            for o in U.ORDERS for d in (False, True)]


def extra_cells(tier):
    out = []
    statuses = ['h503', 'tonly7', 'trailers5', 'trailers0', 'h200', 'h200m']
    if tier == 'thorough':
        statuses += ['tonly0', 'trailers13', 'tonly16']
    for st in statuses:
        for op in U.OPS[1:]:
            for r in ('paused', 'window'):
                for e in U.EVENTS:
                    for o in U.ORDERS:
                        for d in ((False, True) if tier == 'thorough' else (False,)):
                            c = base_cell(op, r, e, o, d)
                            c['status'] = st
                            out.append(c)
                            if e == 'serr' and st.startswith(('tonly', 'trailers')):
                                # the other stream-level violation: stray DATA after the server's END_STREAM
                                out.append(dict(c, violation='data'))
    for v, op, rs in (('implicit', 'sm', ('paused', 'slot', 'window')),
                      ('after_headers', 'rm', ('silent', 'paused')),
                      ('after_headers', 'ax', ('silent', 'paused')),
                      ('after_headers', 'sm', ('window',))):
        for r in rs:
            for e in U.EVENTS:
                for o in U.ORDERS:
                    for d in (False, True):
                        c = base_cell(op, r, e, o, d)
                        c['variant'] = v
                        out.append(c)
    # implicit predecessors: the server answers partially WHILE the operation waits, so that it moves on
    # from its implicit first step (recv_message's recv_initial_metadata, the context exit's) to the next
    for st in statuses:
        for op in ('ri', 'rm', 'ax'):
            for r in ('silent', 'paused'):
                for e in U.EVENTS:
                    for d in (False, True):
                        c = base_cell(op, r, e, 'during', d)
                        c['status'] = st
                        c['progress'] = True
                        out.append(c)
    # the stub-style calls (ServiceMethod.__call__): send_message(end=True) with its implicit send_request,
    # recv_message() with its implicit recv_initial_metadata, the context exit -- one task, no explicit steps
    for card in ('UU', 'US', 'SU', 'SS'):
        for r in U.REASONS:
            for e in U.EVENTS:
                for d in (False, True):
                    out.append(dict(base_cell('cl', r, e, 'during', d), card=card))
        for e in U.EVENTS:
            out.append(dict(base_cell('cl', 'silent', e, 'before', False), card=card))
            for st in (('h200', 'h200m', 'h503', 'trailers5') if card in ('UU', 'SU') else ('h200', 'h503')):
                # (a streaming reply is iterated: after a first message the model's single recv_message
                #  does not apply)
                for d in (False, True):
                    out.append(dict(base_cell('cl', 'silent', e, 'during', d), card=card, status=st))
    # "the server breaks the protocol" as a CLASS: every kind of connection-level protocol error h2 raises
    # out of receive_data, aimed at the call's own stream, another live stream, a finished stream, stream 0,
    # an idle stream
    for op, r in NATURAL:
        for o in U.ORDERS:
            for pe in U.PERR:
                out.append(dict(base_cell(op, r, 'garbage', o, False), perr=pe))
    # the connection was already given up by grpclib's own keepalive timeout (transport closing, unsent data,
    # connection_lost not delivered yet) when connection_lost / Channel.close come
    for op, r in NATURAL + [('sm', 'paused'), ('rm', 'paused')]:
        if op == 'sr':
            continue                     # no open stream: the keepalive does not ping
        for e in ('lost', 'close'):
            for o in U.ORDERS:
                if op == 'cl' and o == 'before':
                    continue
                for d in (False, True):
                    out.append(dict(base_cell(op, r, e, o, d), pre='keepalive-closed'))
    # GOAWAY and RST_STREAM as CLASSES of frames: every operation at its natural blocking point x both orders
    for op, r in NATURAL:
        for o in U.ORDERS:
            for code in GOAWAY_CODES:
                for last in GOAWAY_LAST:
                    for data in '01':
                        c = base_cell(op, r, 'goaway', o, False)
                        c['goaway'] = '%d/%s/%s' % (code, last, data)
                        out.append(c)
            for code in RST_CODES:
                c = base_cell(op, r, 'rst', o, False)
                c['rst_code'] = code
                out.append(c)
    # the call that holds the only stream slot is itself blocked in an operation (it is terminated, exits
    # and releases the slot): judged by the oracle only, the model does not follow the retry loop
    for op, v in (('sr', 'base'), ('sm', 'implicit')):
        for e in U.EVENTS:
            for d in (False, True):
                c = base_cell(op, 'slot', e, 'during', d)
                c['variant'] = v
                c['holder'] = 'blocked'
                out.append(c)
    return out


def model_line(c):
    op = c['op'] if c['op'] != 'cl' else 'cl.' + c.get('card', 'UU').lower()
    return ' '.join([op, c['reason'], c['event'], c['order'], '1' if c['deadline'] else '0',
                     c['status'], c['variant']])


def parse_model(ans):
    return dict(kv.split('=', 1) for kv in ans.split())


# ---- comparison with the model ----------------------------------------------------------------------------

def compare(c, obs, m):
    """list of (field, impl, model) that differ"""
    diff = []
    if m.get('inpaths') != '1':
        diff.append(('inpaths', '-', m.get('inpaths')))
    if obs['setup'] == 'keepalive-did-not-close':
        return diff                       # the pre-state could not be set up: not a cell
    if obs['setup'] != m['setup']:
        return diff + [('setup', obs['setup'], m['setup'])]
    if obs['setup'] == 'op-not-blocked':
        if obs['op'] != m['op']:
            diff.append(('op', obs['op'], m['op']))
        return diff
    if obs['setup'] != 'ok':
        return diff
    if c['order'] == 'during' and obs['blocked'] != 'unknown':
        want = expected_event(m['blocked'], c['reason'])
        if obs['blocked'] != want:
            diff.append(('blocked', obs['blocked'], '%s (%s)' % (want, m['blocked'])))
        if obs['opening'] != (m['blocked'] == 'send_request'):
            diff.append(('opening', obs['opening'], m['blocked']))
    if obs['registered'] != 'unknown' and ('1' if obs['registered'] else '0') != m['registered']:
        diff.append(('registered', obs['registered'], m['registered']))
    for k in ('werr', 'op', 'ctx'):
        if obs[k] != m[k] and obs[k] != 'unknown':
            diff.append((k, obs[k], m[k]))
    if obs['op'] == 'pending' and obs.get('late') != m['late']:
        diff.append(('late', obs.get('late'), m['late']))
    return diff


# ---- the direct oracle (model-independent) ----------------------------------------------------------------

def oracle(c, obs):
    """the property on one in-scope cell: the event happened while the operation was blocked (during) or
    before it started on an affected call (before).  Returns a list of (what, signature)."""
    if obs['setup'] != 'ok':
        return []
    level = 'stream' if c['event'] in ('rst', 'serr') else 'connection'
    # `site`: still inside protocol.Stream.send_request (the peer has not seen the request) or past it
    sig = {'op': c['op'], 'site': 'send_request' if obs.get('opening') else 'stream-open',
           'blocked_on': obs.get('stuck_on', obs.get('blocked', 'no')), 'event_level': level,
           'order': c['order'], 'registered': obs.get('registered') is True}
    name = U.OPNAME[c['op']]
    out = []
    if obs['op'] == 'pending':
        if obs.get('late', 'pending') == 'pending':
            out.append(('%s still blocked at quiescence after %s (%s): blocked forever on %s' % (
                name, c['event'], c['order'], sig['blocked_on']), dict(sig, kind='hang')))
        else:
            out.append(('%s not woken by %s; ended only by the deadline after %s s (%s)' % (
                name, c['event'], obs.get('late_after'), obs['late']), dict(sig, kind='late')))
        return out
    if not obs['prompt']:
        out.append(('%s completed, but not promptly (the clock advanced)' % name, dict(sig, kind='not-prompt')))
    want = FAILING[c['status']]
    want_ctx = 'StreamTerminated' if want is None else 'GRPCError:%d' % want
    if obs['op'] == 'ok':
        out.append(('%s completed WITHOUT an error after %s' % (name, c['event']), dict(sig, kind='no-error')))
    elif c['op'] not in ('ax', 'cl') and obs['op'] != 'StreamTerminated' and not obs['op'].startswith('GRPCError'):
        out.append(('%s failed with %s instead of a stream-termination error' % (name, obs['op']),
                    dict(sig, kind='wrong-error')))
    if obs['op'] != 'ok' and obs['ctx'] != want_ctx:
        out.append(('the call ended with %s, expected %s (status that had arrived: %s)' % (
            obs['ctx'], want_ctx, c['status']), dict(sig, kind='wrong-call-error')))
    return out


def check_cells(ctx, res, cells, compare_model=True):
    lines, keep = [], []
    for c in cells:
        obs = U.run_cell(c)
        res.evaluations += 1
        res.count('setup:' + obs['setup'])
        if obs['setup'] == 'ok':
            res.count('op:%s' % c['op'])
            res.count('event:%s' % c['event'])
            if c['event'] == 'garbage':
                res.count('protocol-error:%s' % c.get('perr', 'continuation@own'))
            if c.get('goaway') and c['event'] == 'goaway':
                res.count('goaway:%s' % c['goaway'])
            res.count('order:%s' % c['order'])
            res.count('blocked_on:%s' % obs.get('blocked'))
            res.count('outcome:%s/%s' % (obs['op'].split(':')[0], obs['ctx'].split(':')[0]))
            res.signatures.add((c['op'], c.get('card'), c.get('progress'), c.get('perr'), c['reason'], c['event'],
                                c.get('violation'), c.get('goaway'), c.get('rst_code'), c['order'], c['deadline'], c['status'],
                                c['variant'], c['holder'], obs.get('blocked'), obs['op'], obs['ctx']))
            if obs.get('unhandled'):
                res.count('loop-exception-handler-calls', obs['unhandled'])
        res.sample({'cell': c, 'observed': obs}, limit=8)
        for what, sig in oracle(c, obs):
            res.oracle_failures.append({'case': c, 'what': what, 'signature': sig, 'observed': obs})
        if compare_model and c['holder'] == 'idle':
            lines.append(model_line(c))
            keep.append((c, obs))
    if ctx.model_ok and lines:
        for (c, obs), ans in zip(keep, ctx.model(lines)):
            res.traces += 1
            m = parse_model(ans) if not ans.startswith('DRIVER-ERROR') else {'setup': ans}
            diff = compare(c, obs, m) if 'op' in m else [('model', '-', ans)]
            if m.get('setup') == 'ok':
                res.count('model:%s' % ('d6-hang' if m['op'] == 'pending' else 'completes'))
            if diff:
                res.disagreements.append({'case': c, 'impl': obs, 'model': m, 'diff': diff})


def multi_line(spec):
    return ' '.join(['multi', '%d' % spec['paused'], '%d' % spec['window'], '%d' % spec['headers'],
                     spec['event'], '%d' % spec['deadline'], ','.join(spec['ops']) or '-',
                     ','.join(spec.get('mid', [])) or '-', ','.join(spec['after']) or '-'])


def compare_multi(ctx, res, batch):
    if not ctx.model_ok or not batch:
        return
    for (spec, out), ans in zip(batch, ctx.model([multi_line(s) for s, _ in batch])):
        res.traces += 1
        m = parse_model(ans) if not ans.startswith('DRIVER-ERROR') else {'setup': ans}
        impl = {'setup': out['setup'], 'during': ','.join(d['res'] for d in out['during']) or '-',
                'blocked': ','.join('%d' % d['blocked'] for d in out['during']) or '-',
                'after': ','.join(a['res'] for a in out['after']) or '-'}
        if out['setup'] != 'ok':
            impl['during'] = impl['after'] = impl['blocked'] = '-'
        diff = [(k, impl[k], m.get(k)) for k in ('setup', 'blocked', 'during', 'after')
                if impl[k] != m.get(k)]
        if m.get('inpaths') != '1':
            diff.append(('inpaths', '-', m.get('inpaths')))
        if diff:
            res.disagreements.append({'case': {'multi': spec}, 'impl': out, 'model': m, 'diff': diff})


def check_multi(ctx, res, spec, batch=None):
    out = U.run_multi(spec)
    res.evaluations += 1
    res.count('multi:' + out['setup'])
    if batch is not None:
        batch.append((spec, out))
    if out['setup'] != 'ok':
        return
    res.count('multi-tasks:%d' % len(out['during']))
    for st in spec.get('mid', []):
        res.count('multi-mid:%s' % st.split('.')[0])
    res.signatures.add(('multi', tuple(spec['ops']), tuple(spec.get('mid', [])), tuple(spec['after']), spec['event'],
                        tuple(d['res'] for d in out['during']), tuple(a['res'] for a in out['after'])))
    res.sample({'multi': spec, 'observed': out}, limit=10)
    level = 'stream' if spec['event'] in ('rst', 'serr') else 'connection'
    for d in out['during']:
        if d['blocked'] and d['res'] != 'StreamTerminated':
            res.oracle_failures.append({
                'case': {'multi': spec}, 'observed': out,
                'what': '%s (one of %d tasks driving the call) blocked at %s ended with %s' % (
                    U.OPNAME[d['op']], len(out['during']), spec['event'], d['res']),
                'signature': {'op': d['op'], 'site': 'multi', 'blocked_on': 'multi', 'event_level': level,
                              'order': 'during', 'registered': True,
                              'kind': 'hang' if d['res'] == 'pending' else 'wrong-error'}})
    for a in out['after']:
        if a['res'] in ('pending', 'ok'):
            res.oracle_failures.append({
                'case': {'multi': spec}, 'observed': out,
                'what': '%s started after %s: %s' % (U.OPNAME[a['op']], spec['event'], a['res']),
                'signature': {'op': a['op'], 'site': 'multi', 'blocked_on': 'no', 'event_level': level,
                              'order': 'before', 'registered': True,
                              'kind': 'hang' if a['res'] == 'pending' else 'no-error'}})
    if out['clock_advanced'] or out['ctx'] == 'pending':
        res.oracle_failures.append({
            'case': {'multi': spec}, 'observed': out, 'what': 'not prompt / context exit pending',
            'signature': {'op': 'ax', 'site': 'multi', 'blocked_on': 'multi', 'event_level': level,
                          'order': 'during', 'registered': True, 'kind': 'not-prompt'}})


def mid_choices(ops, paused, window):
    """the things that can happen between the start of the operations and the event: (steps, what completes)"""
    out = [([], [])]
    if 'rm' in ops and 'ri' not in ops and 'rt' not in ops:
        out.append((['reply'], ['rm']))
    if 'sm' in ops and window and not paused:
        out.append((['credit'], ['sm']))
    if paused and 'ca' not in ops and not ('sm' in ops and 'en' in ops and not window):
        out.append((['resume'], [o for o in ops if o == 'en' or (o == 'sm' and not window)]))
    return out


def gen_multi(rng):
    paused = rng.random() < 0.5
    window = rng.random() < 0.6
    headers = rng.random() < 0.4
    pool = ['rm', 'ri'] if not headers else ['rm', 'rt']
    if window or paused:
        pool += ['sm', 'sm']
    if paused:
        pool += ['en', 'ca']
    ops = [rng.choice(pool) for _ in range(rng.randint(1, 4))]
    # one task per operation kind: two concurrent calls of the same operation race on its flag
    ops = sorted(set(ops), key=ops.index)
    mid, done = rng.choice(mid_choices(ops, paused, window))
    mid = list(mid)
    if done and rng.random() < 0.7:
        # the task that got through loops: it starts the same operation again (a receiver / sender loop)
        mid += ['s.' + o for o in done if o in ('rm', 'sm')]
    after = [rng.choice(['sm', 'en', 'ri', 'rm', 'rt', 'ca']) for _ in range(rng.randint(0, 3))]
    return {'ops': ops, 'mid': mid, 'after': after, 'paused': paused, 'window': window, 'headers': headers,
            'event': rng.choice(U.EVENTS), 'deadline': rng.random() < 0.3,
            'perr': rng.choice([p for p in U.PERR if not p.endswith('@other')]),
            'goaway': '%d/%s/%s' % (rng.choice(GOAWAY_CODES), rng.choice(GOAWAY_LAST), rng.choice('01')),
            'rst_code': rng.choice(RST_CODES)}


def multi_pairs():
    """one call driven by TWO or THREE tasks: every ordered pairing (entry order matters: the task that entered
    its guard first may leave it first) of blocking operations x what lets one of them through before the
    event (with and without that task looping) x every termination event"""
    kinds = ['sm', 'rm', 'ri', 'en', 'ca']
    groups = [[a, b] for a in kinds for b in kinds if a != b and {a, b} != {'rm', 'ri'}]
    groups += [['rm', 'sm', 'en'], ['sm', 'rm', 'ca'], ['en', 'sm', 'rm'], ['ri', 'sm', 'ca']]
    for ops in groups:
        paused = 'en' in ops or 'ca' in ops
        for mid, done in mid_choices(ops, paused, True):
            variants = [list(mid)]
            again = ['s.' + o for o in done if o in ('rm', 'sm')]
            if again:
                variants.append(list(mid) + again)
            for m in variants:
                for e in U.EVENTS:
                    yield {'ops': ops, 'mid': m, 'after': ['sm', 'rm'], 'paused': paused, 'window': True,
                           'headers': False, 'event': e, 'deadline': False}


def run(ctx):
    res = Result()
    res.rule = ('the complete matrix op(8: send_request, send_message, end, recv_initial_metadata, recv_message, '
                'recv_trailing_metadata, cancel, context exit) x reason(4: transport paused, INITIAL_WINDOW_SIZE=0, '
                'MAX_CONCURRENT_STREAMS reached with another call open, peer silent) x event(6: RST_STREAM, GOAWAY, '
                'bytes h2 refuses, connection_lost, Channel.close, stream-level protocol violation by the peer that makes '
                'h2 reset the stream itself -- WINDOW_UPDATE overflow, or stray DATA after END_STREAM) x order(2) x '
                'deadline(2) = 768 cells, all run; '
                'cells that cannot be set up are counted under setup:* (op-not-blocked: the reason does not suspend '
                'that operation; no-stream-for-rst / rst-infeasible: no stream the peer could reset; call-unaffected: '
                'send_request after the event opens a new connection); plus the same with a status already arrived '
                '(503, trailers-only 7, trailers 5, trailers 0), send_message opening the stream itself, initial '
                'metadata already received, the slot holder itself blocked; the server answering partially WHILE the '
                'operation waits (implicit predecessors); the four stub-style calls (ServiceMethod.__call__); the '
                'connection-level protocol error as a class (0 frame kinds x target streams); GOAWAY as a class (error code 0/1/2/11 x '
                'last_stream_id 0 / highest seen / below the in-flight stream / 2**31-1 x debug data) and RST_STREAM '
                'with 7 error codes, for every operation at its natural blocking point in both orders; plus PRNG groups of concurrent '
                'operations of one call, each its own task, plus operations started after the event (per-task outcome '
                'classes compared with Model/Termination.predict_multi).  distinct = distinct (cell, where blocked, op outcome, call '
                'outcome)')
    corpus = ctx.corpus()
    check_cells(ctx, res, [c for c in corpus if 'multi' not in c and c.get('holder', 'idle') == 'idle'])
    check_cells(ctx, res, [c for c in corpus if 'multi' not in c and c.get('holder') == 'blocked'])
    batch = []
    for c in corpus:
        if 'multi' in c:
            check_multi(ctx, res, c['multi'], batch)
    cells = matrix()
    before = dict(res.distribution)
    check_cells(ctx, res, cells)
    res.extra['matrix_cells'] = len(cells)
    res.extra['matrix_setup'] = {k[6:]: v - before.get(k, 0) for k, v in sorted(res.distribution.items())
                                 if k.startswith('setup:') and v - before.get(k, 0)}
    check_cells(ctx, res, extra_cells(ctx.tier))
    for spec in multi_pairs():
        check_multi(ctx, res, spec, batch)
    for _ in range(ctx.n(400, 6000)):
        check_multi(ctx, res, gen_multi(ctx.rng), batch)
    compare_multi(ctx, res, batch)
    res.exhaustive = True
    return res


def replay(ctx, case):
    res = Result()
    if 'multi' in case:
        batch = []
        check_multi(ctx, res, case['multi'], batch)
        compare_multi(ctx, res, batch)
    else:
        c = dict(case)
        c.setdefault('status', 'none')
        c.setdefault('variant', 'base')
        c.setdefault('holder', 'idle')
        c.setdefault('violation', 'window')
        c.setdefault('card', 'UU')
        check_cells(ctx, res, [c])
    return res
