"""Helpers of drive_C01: everything the C01 driver needs to know about grpclib's INSIDE is found here by ROLE
(type of the value, identity of what it holds, content that flowed through it), never by a private name.
When something cannot be found the caller gets None / '?' and masks that component on both sides of the
comparison; nothing here raises on a re-structured grpclib.

  BufferView       the four observable counters of a grpclib.protocol.Buffer (bytes in the deque, queue length,
                   eof flag, chunks in the deque), each located by the type of the attribute that holds it
  H2Watch          class-level wrappers on the PUBLIC h2 API (H2Connection.__init__ / local_flow_control_window /
                   send_data): which H2Connection objects were created, and which (window, max_frame_size) pairs
                   their owner read -- h2's own nested read inside send_data is not an observation
  BufferTap        class-level wrappers on the public Buffer.add / Buffer.eof: frames per buffer, and the bytes that
                   went through each buffer, so that a buffer is recognised by the stream it carried
  recv_endpoint    an object recv_message can read from, with a real Buffer behind it
"""
import asyncio
import collections


def attrs_of(obj):
    out = []
    try:
        out = list(vars(obj).items())
    except TypeError:
        pass
    for klass in type(obj).__mro__:
        for name in getattr(klass, '__slots__', ()) or ():
            if isinstance(name, str) and hasattr(obj, name):
                out.append((name, getattr(obj, name)))
    return out


def only(obj, pred):
    """the single attribute value of obj satisfying pred, else None (absent or ambiguous)"""
    hits = []
    for _, v in attrs_of(obj):
        try:
            if pred(v) and not any(v is h for h in hits):
                hits.append(v)
        except Exception:
            pass
    return hits[0] if len(hits) == 1 else None


class BufferView:
    """acked_size: the one int attribute; eof: the one bool attribute; unacked: the one asyncio.Queue;
    acked: the one deque.  A component that is not there exactly once reads as '?'."""
    NAMES = ('acked_size', 'qsize', 'eof', 'chunks')

    def __init__(self, buf):
        self.buf = buf

    def parts(self):
        b = self.buf
        n = only(b, lambda v: isinstance(v, int) and not isinstance(v, bool))
        q = only(b, lambda v: isinstance(v, asyncio.Queue))
        e = only(b, lambda v: isinstance(v, bool))
        d = only(b, lambda v: isinstance(v, collections.deque))
        out = ['?' if n is None else str(n),
               '?' if q is None else str(q.qsize()),
               '?' if e is None else ('1' if e else '0'),
               '?' if d is None else str(len(d))]
        return out

    def summary(self):
        return '|' + ','.join(self.parts())


def mask_summary(model_line, impl_line):
    """both lines end in a '|a,b,c,d' token; positions that read '?' on the implementation side are made
    '?' on the model side too.  Returns (model_line, list of masked component names)."""
    try:
        mh, mt = model_line.rsplit('|', 1)
        _, it = impl_line.rsplit('|', 1)
        mp, ip = mt.split(','), it.split(',')
        if len(mp) != len(ip):
            return model_line, []
        masked = [BufferView.NAMES[k] for k in range(len(ip)) if ip[k] == '?' and k < len(BufferView.NAMES)]
        mp = ['?' if ip[k] == '?' else mp[k] for k in range(len(mp))]
        return mh + '|' + ','.join(mp), masked
    except ValueError:
        return model_line, []


class H2Watch:
    """While active: every H2Connection constructed is listed in .created; for a connection passed to
    .observe(), every local_flow_control_window() its owner makes is recorded as (window, max_outbound_frame_size)
    -- the read h2 itself makes inside its send_data is not (it is h2 checking, not the owner deciding)."""

    def __enter__(self):
        from h2.connection import H2Connection
        self.cls = H2Connection
        self.created = []
        self._obs = {}           # id(conn) -> list
        self._depth = {}         # id(conn) -> nesting inside h2's own send_data
        self.orig = (H2Connection.__init__, H2Connection.local_flow_control_window, H2Connection.send_data)
        o_init, o_lfcw, o_send = self.orig
        watch = self

        def __init__(conn, *a, **kw):
            o_init(conn, *a, **kw)
            watch.created.append(conn)

        def local_flow_control_window(conn, stream_id):
            w = o_lfcw(conn, stream_id)
            lst = watch._obs.get(id(conn))
            if lst is not None and not watch._depth.get(id(conn)):
                lst.append((w, conn.max_outbound_frame_size))
            return w

        def send_data(conn, *a, **kw):
            k = id(conn)
            watch._depth[k] = watch._depth.get(k, 0) + 1
            try:
                return o_send(conn, *a, **kw)
            finally:
                watch._depth[k] -= 1
        H2Connection.__init__ = __init__
        H2Connection.local_flow_control_window = local_flow_control_window
        H2Connection.send_data = send_data
        return self

    def __exit__(self, *a):
        self.cls.__init__, self.cls.local_flow_control_window, self.cls.send_data = self.orig

    def mark(self):
        return len(self.created)

    def since(self, mark, exclude=()):
        return [c for c in self.created[mark:] if not any(c is x for x in exclude)]

    def observe(self, conn):
        return self._obs.setdefault(id(conn), [])


class BufferTap:
    """records Buffer.add / Buffer.eof calls per buffer object, with the bytes that went through it"""
    KEEP = 8 << 20

    def __init__(self):
        self.ok = False

    def __enter__(self):
        self.reset()
        try:
            from grpclib import protocol
            cls = protocol.Buffer
            self.orig_add, self.orig_eof = cls.add, cls.eof
        except Exception:
            return self                      # no such class / methods: nothing is recorded, callers mask
        self.cls = cls
        tap = self

        def add(b, data, ack_size, *a, **kw):
            try:
                rec = tap._rec(b)
                rec['ops'].append('a%d.%d' % (len(data), ack_size))
                if len(rec['data']) < tap.KEEP:
                    rec['data'] += bytes(data)
            except Exception:
                tap.broken = True
            return tap.orig_add(b, data, ack_size, *a, **kw)

        def eof(b, *a, **kw):
            try:
                tap._rec(b)['ops'].append('e')
            except Exception:
                tap.broken = True
            return tap.orig_eof(b, *a, **kw)
        cls.add, cls.eof = add, eof
        self.ok = True
        return self

    def _rec(self, b):
        for r in self.recs:
            if r['buf'] is b:
                return r
        r = {'buf': b, 'ops': [], 'data': bytearray()}
        self.recs.append(r)
        return r

    def reset(self):
        self.recs = []
        self.broken = False

    def __exit__(self, *a):
        if self.ok:
            self.cls.add, self.cls.eof = self.orig_add, self.orig_eof

    def assign(self, streams):
        """streams: {name: bytes the buffer of that direction should have carried}.  Returns {name: ops or
        None}: each direction gets the buffer whose bytes are (a prefix of) its stream, exact matches first;
        what is left over is given out in order when that is unambiguous."""
        out = {n: None for n in streams}
        if not self.ok or self.broken:
            return out
        free = list(self.recs)

        def take(name, pred):
            for r in free:
                if pred(r):
                    free.remove(r)
                    out[name] = list(r['ops'])
                    return True
            return False
        for name, s in streams.items():
            take(name, lambda r: bytes(r['data']) == s)
        for name, s in streams.items():
            if out[name] is None:
                take(name, lambda r: len(r['data']) and s.startswith(bytes(r['data'][:len(s) + 1])))
        left = [n for n in streams if out[n] is None]
        if len(left) == 1 and len(free) == 1:
            out[left[0]] = list(free[0]['ops'])
        return out


class _StandIn:
    """the least recv_message needs: recv_data over a real Buffer"""

    def __init__(self, buffer):
        self.buffer = buffer

    async def recv_data(self, size):
        return await self.buffer.read(size)


class _Conn:
    """what protocol.Stream asks of its Connection in order to receive"""
    streams_started = 0
    last_stream_created = None

    def __init__(self, acks):
        self._acks = acks

    def ack(self, stream_id, size):
        self._acks.append(size)

    def __getattr__(self, name):            # anything else a re-structured Stream may touch while being built
        raise AttributeError(name)


def recv_endpoint(acks):
    """(object with .recv_data and .buffer, how it was built).  A real protocol.Stream when it can be built
    from its public constructor, else a stand-in around a real Buffer."""
    from grpclib import protocol
    try:
        st = protocol.Stream(_Conn(acks), None, None, stream_id=1)
        if hasattr(st, 'recv_data') and hasattr(getattr(st, 'buffer', None), 'read'):
            return st, 'protocol.Stream'
    except Exception:
        pass
    return _StandIn(protocol.Buffer(acks.append)), 'stand-in'


def list_codec():
    """a non-default codec whose decoded messages are Python lists of byte values: the empty message decodes to
    [] (falsy), like {} / 0 / '' with a JSON codec"""
    from grpclib.encoding.base import CodecBase

    class ListCodec(CodecBase):
        __content_subtype__ = 'bytelist'

        def encode(self, message, message_type):
            if not isinstance(message, list):
                raise TypeError('list of byte values expected')
            return bytes(message)

        def decode(self, data, message_type):
            return list(bytes(data))
    return ListCodec()
