"""C10 -- finished calls leave nothing behind; waiters for a stream slot all proceed.

Correspondence of Model/Registry.v with the real grpclib on the virtual-time loop, in two set-ups
(harness/c10_util.py): real client <-> real server over a re-cutting in-memory link with scripted
handlers, and real client <-> scripted h2 server peer.  Every scenario is a PRNG mix of 2..8 calls with
scripted outcomes on both sides, MAX_CONCURRENT_STREAMS announcements (1, 2, 5; raised and lowered) at
PRNG times, client task cancellations and (link) Server.close-style handler cancellation.

What is compared: the implementation run is logged as the list of model ops it performed (open attempts,
END_STREAM, cancel, context exit, frame arrivals per stream, trailers, handler exit kind, SETTINGS); the
extracted model replays that list and must show, op by op, the same outcome (opened / TooManyStreams /
refused) and, at every instant where nothing is runnable, the same bookkeeping: len(streams) on both
sides, h2 open_outbound_streams / open_inbound_streams, which calls wait for a slot (and that the model
has none runnable that the implementation left blocked), which are running, the limit in force, and the
h2 state of every call's stream at both endpoints.

Direct oracle (no model): the property statement on those snapshots + the behavioural probe."""
import logging

from harness.core import Result
from harness.c10_util import Unobservable

PROPERTY = 'C10'
THEOREM_FILES = ['Props/C10.v']
ALLOWED_AXIOMS = []
LABEL = ('partial: the server-side "no stream stays open" theorem is proved excluding the recorded class D4 '
         '(handler ending in a BaseException without terminal frame) and refuted for it; all other theorems '
         'full on the model; hyper-h2 stream accounting and asyncio.Event are modelled, not verified')
TRUSTED = ['modelled, not verified: hyper-h2 4.3.0 stream life cycle and open_outbound/open_inbound/'
           'TooManyStreamsError accounting as abstracted in Model/Registry.v (h2s record), asyncio.Event '
           'wake rule, asyncio task cancellation; the wire is per-stream FIFO (a superset of TCP order)',
           'harness/c10_util.py: logging wrappers placed on instance attributes of the h2 connections (found by '
           'role), processor.register and handler.accept (they only record calls and re-raise); connection set-up '
           'through loop.create_server / loop.create_connection']
ASSUMPTIONS = ['one live connection (no connection loss, GOAWAY or Channel.close during the history)',
               'pause_writing/resume_writing are modelled for what they change (reset_nowait does not write while paused); '
               'that every other op first awaits write_ready only delays it',
               'MAX_CONCURRENT_STREAMS >= 1 for the progress theorems',
               'user handlers / client code are the scripted programs of the driver; every wait inside them is finite']

D4_KINDS = ['stream-open-after-handler-exit', 'client-call-hangs', 'waiter-starved-by-leaked-stream',
            'probe-blocked']

# ---- programs -------------------------------------------------------------------------------------
# client programs: name -> (steps, sends the whole request before it waits, waits for the server)
UU_CLIENT = {
    'ok': (['msgend', 'recv'], True, True),
    'slow': (['msgend', 'sleep:2', 'recv'], True, True),
    'hold': (['msgend', 'recv', 'sleep:6'], True, True),
    'cancel@0': (['req', 'cancel'], False, False),
    'cancel@1': (['msgend', 'cancel'], True, False),
    'cancel@2': (['msgend', 'recv', 'cancel'], True, True),
    'raise@0': (['req', 'raise'], False, False),
    'raise@1': (['msgend', 'raise'], True, False),
    'raise@2': (['msgend', 'recv', 'raise'], True, True),
    'ret@0': (['req', 'ret'], False, True),
    'ret@1': (['msgend', 'ret'], True, True),
    'noreq': (['sleep:0.5', 'ret'], False, False),
    'late-raise': (['msgend', 'sleep:2', 'raise'], True, False),
    'late-cancel': (['msgend', 'sleep:2', 'cancel'], True, False),
    'req-sleep-msg': (['req', 'sleep:2', 'msgend', 'recv'], True, True),
}
SS_CLIENT = {
    'ok': (['req', 'msg', 'msg', 'end', 'recvall'], True, True),
    'ok0': (['reqend', 'recvall'], True, True),
    'msgend': (['msg', 'msgend', 'recvall'], True, True),
    'hold': (['req', 'msg', 'end', 'recvall', 'sleep:6'], True, True),
    'cancel-mid': (['req', 'msg', 'cancel'], False, False),
    'cancel-late': (['req', 'msg', 'end', 'recv', 'cancel'], True, True),
    'raise-mid': (['req', 'msg', 'raise'], False, False),
    'ret-mid': (['req', 'msg', 'ret'], False, True),
    'double-cancel': (['req', 'cancel', 'cancel'], False, False),
    'dawdle': (['req', 'msg', 'sleep:6', 'end', 'recvall'], True, True),
    'late-raise': (['req', 'msg', 'sleep:2', 'raise'], False, False),
    'late-ret': (['req', 'msg', 'sleep:2', 'ret'], False, True),
    'late-cancel': (['req', 'msg', 'sleep:2', 'cancel'], False, False),
    'slow-sender': (['req', 'msg', 'sleep:2', 'msg', 'sleep:2', 'end', 'recvall'], True, True),
}
# handler programs (link set-up): name -> steps
UU_SERVER = {
    'ok': ['recv', 'send'], 'ok-slow': ['recv', 'sleep:2', 'send'], 'hold': ['recv', 'sleep:30', 'send'],
    'early': ['send'], 'status': ['recv', 'grpc:5'], 'status-early': ['grpc:7'], 'exc': ['recv', 'exc'],
    'nomsg': ['recv'], 'grpc-ok-nomsg': ['recv', 'grpc:0'], 'only-explicit': ['trailers:3'], 'explicit-ok': ['recv', 'send', 'trailers:0'],
    'reset': ['recv', 'cancel'], 'reset-early': ['cancel'], 'exc-after-send': ['recv', 'send', 'exc'],
    'exc-after-trailers': ['recv', 'send', 'trailers:0', 'exc'],
    'base': ['recv', 'base'], 'base-early': ['base'], 'selfcancel': ['recv', 'selfcancel'],
    'base-after-send': ['recv', 'send', 'base'], 'base-after-trailers': ['recv', 'send', 'trailers:0', 'base'],
}
SS_SERVER = {
    'ok': ['recvall', 'send', 'send'], 'ok-eager': ['send', 'recvall', 'send'], 'early-ok': ['send'],
    'hold': ['recv', 'sleep:30', 'send', 'recvall'], 'status-mid': ['recv', 'grpc:9'], 'exc': ['recvall', 'exc'],
    'reset-mid': ['recv', 'cancel'], 'explicit': ['recvall', 'initial', 'send', 'trailers:0'],
    'explicit-nonok': ['recv', 'trailers:13'], 'base': ['recv', 'base'], 'selfcancel': ['recvall', 'selfcancel'],
    'slow-exc': ['recv', 'sleep:2', 'exc'],
}
D4_SERVER = {'base', 'base-early', 'selfcancel', 'base-after-send'}
# scripted peer answers (client set-up): name -> [(delay, action)]
PEER = {
    'ok': [(0.5, 'headers'), (0.75, 'data'), (1, 'trailers:0')],
    'ok-slow': [(4, 'headers'), (5, 'data'), (6, 'trailers:0')],
    'hold': [(30, 'headers'), (30.25, 'data'), (30.5, 'trailers:0')],
    'nonok': [(0.5, 'headers'), (1, 'trailers:5')],
    'nonok-norst': [(0.5, 'headers'), (1, 'trailers:5:norst')],
    'only-nonok': [(0.5, 'only:7')], 'only-ok': [(0.5, 'only:0')], 'only-norst': [(0.5, 'only:12:norst')],
    'rst': [(0.5, 'rst')], 'rst-now': [(0, 'rst')], 'rst-after-headers': [(0.5, 'headers'), (1, 'rst')],
    'rst-after-trailers': [(0.5, 'headers'), (0.75, 'data'), (1, 'trailers:0'), (1.25, 'rst')],
    'end-without-trailers': [(0.5, 'headers'), (0.75, 'data'), (1, 'dataend')],
    'never': [],
}


def gen_case(rng, mode, d4_ok=True):
    n = rng.choice([2, 2, 3, 3, 4, 5, 6, 8])
    calls = []
    for _ in range(n):
        card = rng.choice(['UU', 'UU', 'SS'])
        cp = rng.choice(sorted((UU_CLIENT if card == 'UU' else SS_CLIENT)))
        steps, complete, waits = (UU_CLIENT if card == 'UU' else SS_CLIENT)[cp]
        if rng.random() < 0.35:                       # favour the plain programs that hold a slot
            cp = rng.choice(['ok', 'hold'])
            steps, complete, waits = (UU_CLIENT if card == 'UU' else SS_CLIENT)[cp]
        if mode == 'link':
            table = UU_SERVER if card == 'UU' else SS_SERVER
            names = sorted(k for k in table if d4_ok or k not in D4_SERVER)
            w = [0.25 if k in D4_SERVER else (3.0 if k in ('ok', 'hold', 'ok-slow') else 1.0) for k in names]
            sp = rng.choices(names, w)[0]
            server = list(table[sp])
            blocks = any(s in ('recv', 'recvall') for s in server)
        else:
            sp = rng.choices(sorted(PEER), [3 if k in ('ok', 'hold', 'ok-slow') else 1 for k in sorted(PEER)])[0]
            server = [list(x) for x in PEER[sp]]
            blocks = sp == 'never'
        deadline = rng.choice([None, None, None, 4.0, 16.0])
        if waits and (blocks and (not complete or sp == 'never')) and deadline is None:
            deadline = rng.choice([4.0, 16.0])        # otherwise the two scripts wait for each other
        calls.append({'card': card, 'cp': cp, 'sp': sp, 'client': list(steps), 'server': server,
                      'start': rng.choice([0, 0, 0, 0, 0.5, 1, 2, 3, 5, 8]), 'deadline': deadline,
                      'swallow': mode == 'link' and rng.random() < 0.1})
    events = []
    for _ in range(rng.choice([0, 1, 1, 2, 3])):
        ev = {'t': rng.choice([0.25, 0.5, 1, 1.5, 2, 3, 4, 6, 10, 20]), 'ev': 'settings',
              'n': rng.choice([1, 2, 5])}
        # one SETTINGS frame may change several settings at once
        extra = rng.choice([None, None, 'iws', 'iws', 'mfs', 'unknown', 'iws+mfs', 'iws+unknown', 'all'])
        if extra:
            parts = {'iws': ['iws', rng.choice([65535, 65536, 100000, 1 << 20])],
                     'mfs': ['mfs', rng.choice([16384, 16385, 65536])],
                     'unknown': ['unknown', rng.choice([0x99, 0xff00]), rng.randrange(1 << 16)]}
            names = ['iws', 'mfs', 'unknown'] if extra == 'all' else extra.split('+')
            ev['extra'] = [parts[x] for x in names]
        events.append(ev)
    if rng.random() < 0.2:
        events.append({'t': rng.choice([0.25, 0.75, 1.5, 3]), 'ev': 'taskcancel', 'c': rng.randrange(n)})
    if mode == 'link' and d4_ok and rng.random() < 0.06:
        events.append({'t': rng.choice([0.25, 0.6, 1.25, 2.5]), 'ev': 'srvclose'})
    if rng.random() < 0.45:
        # back-pressure windows on the client's transport (calls start, send, are cancelled, time out and
        # leave their context inside them) ...
        for _ in range(rng.choice([1, 1, 2])):
            a = rng.choice([0.25, 0.75, 1.25, 1.75, 2.5, 3.5, 4.5, 7])
            events.append({'t': a, 'ev': 'pause'})
            if rng.random() < 0.7:                    # ... some last until the final resume
                events.append({'t': a + rng.choice([0.5, 1, 2, 4, 12]), 'ev': 'resume'})
        if rng.random() < 0.5:
            events.append({'t': rng.choice([1.0, 1.9, 2.75, 3.75, 5.5]), 'ev': 'taskcancel', 'c': rng.randrange(n)})
    if mode == 'link' and rng.random() < 0.12:
        a = rng.choice([0.25, 0.75, 1.25, 2.5])
        events += [{'t': a, 'ev': 'spause'}, {'t': a + rng.choice([0.5, 2, 6]), 'ev': 'sresume'}]
        if d4_ok and rng.random() < 0.3:              # handlers are cancelled while their writes wait
            events.append({'t': a + rng.choice([0.25, 0.4, 1.5]), 'ev': 'srvclose'})
    return {'mode': mode, 'limit0': rng.choice([None, 1, 1, 2, 2, 5]), 'calls': calls, 'events': events,
            'cut': rng.choice(['none', 'some', 'small']), 'cut_seed': rng.randrange(1 << 30)}


def gen_bulk(rng, mode):
    """MANY calls on one connection (the every-10th-accept pruning of the server Handler runs several times),
    most of them ended by the client: cancel, application exception, deadline, task cancel; some reset by the
    server, some plain"""
    n = rng.randint(25, 45)
    calls = []
    for i in range(n):
        card = rng.choice(['UU', 'SS'])
        table = UU_CLIENT if card == 'UU' else SS_CLIENT
        r = rng.random()
        if r < 0.6:
            cp = rng.choice(sorted(k for k in table if k.startswith(('cancel', 'raise', 'late-raise', 'late-cancel',
                                                                      'double-cancel'))))
        elif r < 0.8:
            cp = 'ok'                                 # ... with a deadline and a handler that holds: times out
        else:
            cp = rng.choice(['ok', 'hold'] if card == 'UU' else ['ok', 'ok0', 'msgend'])
        steps, complete, waits = table[cp]
        if mode == 'link':
            stab = UU_SERVER if card == 'UU' else SS_SERVER
            sp = 'hold' if 0.6 <= r < 0.8 else rng.choice(['ok', 'ok', 'hold', 'reset' if card == 'UU' else 'reset-mid',
                                                           'status' if card == 'UU' else 'status-mid', 'exc'])
            server = list(stab[sp])
        else:
            sp = 'hold' if 0.6 <= r < 0.8 else rng.choice(['ok', 'ok', 'hold', 'rst', 'nonok', 'never'])
            server = [list(x) for x in PEER[sp]]
        deadline = rng.choice([4.0, 16.0]) if (0.6 <= r < 0.8 or sp in ('never', 'hold')) else rng.choice([None, None, 16.0])
        calls.append({'card': card, 'cp': cp, 'sp': sp, 'client': list(steps), 'server': server,
                      'start': rng.randrange(0, 40) * 0.25, 'deadline': deadline, 'swallow': False})
    events = [{'t': rng.randrange(1, 40) * 0.25 + 0.125, 'ev': 'taskcancel', 'c': rng.randrange(n)}
              for _ in range(rng.choice([0, 2, 5]))]
    if rng.random() < 0.4:
        events.append({'t': rng.choice([1.1, 3.1, 6.1]), 'ev': 'settings', 'n': rng.choice([2, 5])})
    return {'mode': mode, 'limit0': rng.choice([None, None, 5, 2]), 'calls': calls, 'events': events,
            'cut': rng.choice(['none', 'some']), 'cut_seed': rng.randrange(1 << 30), 'bulk': True}


# ---- model side -----------------------------------------------------------------------------------

def parse_snap(tok):
    f = tok[1:-1].split('|')
    nums = [int(x) for x in f[0].split(',')]
    lst = lambda s: [int(x) for x in s.split(',')] if s else []
    return {'creg': nums[0], 'sreg': nums[1], 'out': nums[2], 'in': nums[3], 'waiting': lst(f[1]),
            'woken': lst(f[2]), 'opened': lst(f[3]), 'leak': lst(f[4]), 'maxc': int(f[5]), 'q': f[6] == '1',
            'h2': f[7].split(',') if f[7] else [], 'held': lst(f[8]), 'paused': f[9] == '1'}


def compare(run, answer):
    """first difference between what the model computed and what the implementation showed"""
    toks = answer.split()
    if len(toks) != len(run.tokens):
        return {'at': None, 'what': 'token count', 'model': len(toks), 'impl': len(run.tokens)}
    snaps = dict(run.snaps)
    for i, (tok, exp, got) in enumerate(zip(run.tokens, run.expect, toks)):
        if tok != 'K':
            if got != exp:
                return {'at': i, 'op': tok, 'model': got, 'impl': exp, 'prefix': run.tokens[max(0, i - 12):i + 1]}
            continue
        m, s = parse_snap(got), snaps[i]
        diff = {}
        for k in ('creg', 'out', 'in', 'opened', 'maxc', 'h2', 'held', 'paused'):
            if m[k] != s[k]:
                diff[k] = (m[k], s[k])
        if bool(m['held']) != s['buffered']:
            diff['h2 send buffer non-empty'] = (bool(m['held']), s['buffered'])
        if s['sreg'] is not None and m['sreg'] != s['sreg']:
            diff['sreg'] = (m['sreg'], s['sreg'])
        if s['paused']:
            # a woken waiter cannot retry before write_ready is set again: it is still blocked
            if sorted(m['waiting'] + m['woken']) != s['waiting']:
                diff['waiting+woken'] = (sorted(m['waiting'] + m['woken']), s['waiting'])
        else:
            if m['waiting'] != s['waiting']:
                diff['waiting'] = (m['waiting'], s['waiting'])
            if m['woken']:
                diff['woken'] = (m['woken'], [])  # the model has a runnable waiter the implementation left blocked
        if s['final'] and not m['q']:
            diff['quiescent'] = (False, True)
        if diff:
            return {'at': i, 'op': 'K', 't': s['t'], 'diff (model, impl)': diff,
                    'prefix': run.tokens[max(0, i - 12):i + 1]}
    return None


# ---- oracle ---------------------------------------------------------------------------------------

def oracle(run):
    from harness import c10_util as U
    fails, seen = [], set()
    final = run.snaps[-1][1]
    OPEN = ('o', 'r', 'l')
    NA = {'handler_end': 'n/a', 'terminal_frame': 'n/a', 'reset_received': False, 'aexit_interrupted': False}

    def cls_of(c):
        if run.mode != 'link' or not run.st[c].released:
            return dict(NA)
        return U.leak_class(run, c)

    HANDLER_KINDS = ('stream-open-after-handler-exit', 'stream-half-open-after-error-status', 'client-call-hangs')

    def cause_of(c, snap, kind):
        """why the stream of call c is still open somewhere -- from observations only.  Kinds that state
        what the SERVER owed at the end of its handler are explained by how the handler ended, whatever the
        client did later (e.g. its own RST still held back while its writing is paused); kinds about the
        client's exit reaching the server look at the client's send buffer first."""
        held = c in snap['held'] and snap['buffered'] and snap['h2'][c][0] == 'c'
        cl = cls_of(c)
        handler = None
        if cl['terminal_frame'] == 'none' and not cl['reset_received']:
            if cl['handler_end'] == 'BaseException':
                handler = 'd4'
            elif cl['aexit_interrupted']:
                handler = 'cancelled-while-sending-terminal'
        if kind in HANDLER_KINDS:
            return handler or ('rst-held' if held else 'other')
        if held:
            return 'rst-held'          # client h2 closed the stream, its RST_STREAM is still in h2's send buffer
        return handler or 'other'

    def involved(kind, c, snap):
        if c is not None and kind in ('stream-open-after-handler-exit', 'stream-half-open-after-error-status',
                                      'client-call-hangs', 'server-stream-open-after-client-exit',
                                      'client-stream-open-after-exit'):
            return [c]
        if kind in ('waiter-starved-by-leaked-stream', 'probe-blocked', 'probe-failed'):
            return [d for d in range(run.n) if snap['h2'][d][0] in OPEN]       # what uses the client's slots
        if kind == 'leftover-at-quiescence':
            return [d for d in range(run.n) if snap['h2'][d][0] in OPEN or snap['h2'][d][1] in OPEN]
        return []

    def signatures(kind, c, snap):
        """one signature per distinct cause among the streams involved: several known causes in one scenario
        are each reported under their own class, and an unknown cause is never hidden behind a known one"""
        cs = involved(kind, c, snap)
        if not cs:
            return [dict(NA, kind=kind, cause='n/a')]
        out = []
        for cause in sorted({cause_of(d, snap, kind) for d in cs}):
            classes = [cls_of(d) for d in cs if cause_of(d, snap, kind) == cause]
            cl = classes[0] if all(x == classes[0] for x in classes) else \
                {'handler_end': 'mixed', 'terminal_frame': 'mixed', 'reset_received': False, 'aexit_interrupted': False}
            out.append(dict(cl, kind=kind, cause=cause))
        return out

    for chk in run.checks:
        for sig in signatures(chk['kind'], chk['call'], chk['snap']):
            key = tuple(sorted(sig.items()))
            if key in seen:
                continue
            seen.add(key)
            fails.append({'what': '%s (call %s at t=%s)' % (chk['kind'], chk['call'], chk['t']), 'signature': sig,
                          'observed': chk})
    if run.probe != 'ok':
        for sig in signatures('probe-blocked' if run.probe == 'pending' else 'probe-failed', None, final):
            fails.append({'what': 'a fresh unary call with MAX_CONCURRENT_STREAMS=1 after the history: %s' % run.probe,
                          'signature': sig, 'observed': {'probe': run.probe, 'final': {k: final[k] for k in
                                                         ('creg', 'sreg', 'out', 'in', 'h2', 'pending_tasks', 'held')}}})
    a = getattr(run, 'agg', None) or {}
    agg_fail = []
    for name, k in sorted((a.get('finished_after') or {}).items()):
        agg_fail.append(('handler-task-container', 'finished handler tasks survive a collect (%d in one container)' % k))
        break
    if 'finished_before' in a and a['finished_before'] > 20:
        # pruning runs on every 10th accept: at most 9 finished tasks since the last collect, each possibly
        # in both containers (Handler.close does not pop)
        agg_fail.append(('periodic-pruning', 'more finished handler tasks are kept than 10 accepts can leave'))
    if 'check_closed' in a and not a['unfinished_after'] and not a['check_closed']:
        agg_fail.append(('check_closed', 'Handler.check_closed() is False although every handler task is done'))
    if a.get('client_wrappers'):
        agg_fail.append(('client-wrapper', 'a finished client call still holds tasks in its wrapper'))
    if a.get('server_wrappers'):
        agg_fail.append(('server-wrapper', 'a finished handler still holds tasks in its wrapper'))
    for where, what in agg_fail:
        fails.append({'what': 'per-call bookkeeping grows with finished calls: ' + what,
                      'signature': {'kind': 'bookkeeping-not-pruned', 'where': where}, 'observed': a})
    if getattr(run, 'peer_violations', 0):
        fails.append({'what': 'the client broke HTTP/2 rules towards the peer', 'signature': {'kind': 'h2-violation'},
                      'observed': run.peer_violations})
    return fails


# ---- driver ---------------------------------------------------------------------------------------

def run_one(case):
    from harness import c10_util as U
    return (U.run_link if case['mode'] == 'link' else U.run_client)(case)


def evaluate(ctx, res, cases):
    logging.disable(logging.CRITICAL)
    runs = []
    for case in cases:
        try:
            runs.append(run_one(case))
        except Unobservable as e:   # an object could not be located by role on this tree: counted, not compared
            runs.append(None)
            res.count('unobservable-scenario:' + str(e))
        except Exception as e:      # the harness itself failed on this case: the tie is broken, not hidden
            runs.append(None)
            res.disagreements.append({'case': case, 'model': None, 'impl': 'harness raised %r' % (e,)})
    lines = ['%d %d %s' % (r.n, r.maxc0, ' '.join(r.tokens)) for r in runs if r is not None]
    answers = iter(ctx.model(lines) if (ctx.model_ok and lines) else [])
    for case, run in zip(cases, runs):
        if run is None:
            continue
        res.evaluations += 1
        final = run.snaps[-1][1]
        res.count('mode:' + case['mode'])
        res.count('calls:%d' % run.n)
        for c in case['calls']:
            res.count('client:%s/%s' % (c['card'], c['cp']))
            res.count('server:%s/%s' % (case['mode'], c['sp']))
            res.count('client-result:' + str(run.st[case['calls'].index(c)].c_result))
        for ev in case['events']:
            res.count('event:' + ev['ev'] + (':%d' % ev['n'] if ev['ev'] == 'settings' else ''))
            if ev['ev'] == 'settings':
                res.count('settings-frame:MCS' + ''.join('+' + x[0] for x in ev.get('extra') or []))
        res.count('limit0:%s' % case.get('limit0'))
        for tok, exp in zip(run.tokens, run.expect):
            if tok != 'K':
                res.count('op:' + tok[0] + (':' + exp if exp != '-' else ''))
        waited = any(e == 'B' for e in run.expect)
        res.count('case-with-waiters' if waited else 'case-without-waiters')
        res.count('final:' + ('clean' if not (final['creg'] or final['out'] or final['in'] or final['sreg'] or
                                               final['pending_tasks']) else 'not-clean'))
        res.count('probe:' + run.probe)
        for u in sorted(set(run.unobservable)):
            res.count('unobservable:' + u)
        if case.get('bulk'):
            res.count('bulk-case')
            res.count('bulk:handler-tasks-accepted', (run.agg or {}).get('accepted', 0))
            res.count('bulk:finished-entries-before-explicit-collect', (run.agg or {}).get('finished_before', 0))
        if any(s['held'] for _, s in run.snaps):
            res.count('case-with-rst-held-back-while-paused')
        if any(s['paused'] and s['waiting'] for _, s in run.snaps):
            res.count('case-with-waiters-while-paused')
        res.signatures.add((case['mode'], tuple(sorted((c['card'], c['cp'], c['sp'], c['deadline'] is not None)
                                                        for c in case['calls'])),
                            tuple((ev['ev'], ev.get('n'), tuple(x[0] for x in ev.get('extra') or []))
                                  for ev in case['events']), case.get('limit0'), waited))
        res.sample({'case': case, 'ops': ' '.join(run.tokens[:60]), 'final': {k: final[k] for k in
                                                                             ('creg', 'sreg', 'out', 'in', 'h2')},
                    'probe': run.probe}, limit=4)
        if run.conn_closed:
            # the scenario left the domain of the property (a live connection)
            res.disagreements.append({'case': case, 'model': None, 'impl': {'connection_closed': True}})
        if case.get('witness') == 'd4_witness':
            # the witness of C10_no_open_streams_server_refuted (Proofs/C10Proofs.v: d4_witness), op for op
            ops = [t for t in run.tokens if t != 'K']
            if ops != ['o:0:0', 'e:0', 'd:0', 'd:0', 'q:0:base']:
                res.disagreements.append({'case': case, 'model': 'd4_witness', 'impl': ops})
            res.count('coq-witness-replayed-on-code')
        if ctx.model_ok:
            ans = next(answers)
            res.traces += 1
            d = compare(run, ans)
            if d is not None:
                res.disagreements.append({'case': case, 'model': d, 'impl': {'ops': ' '.join(run.tokens)}})
        for f in oracle(run):
            f['case'] = case
            res.oracle_failures.append(f)
    logging.disable(logging.NOTSET)


def run(ctx):
    res = Result()
    rng = ctx.rng
    res.rule = ('PRNG scenarios of 2..8 calls on one connection: per call a cardinality (UU/SS), a client program '
                '(ok, slow, hold, cancel / application exception / early context exit at step 0..2, no request, '
                'double cancel), a deadline in {none,4,16}, and the other side: link = a scripted handler '
                '(ok, early reply, GRPCError, trailers-only, exception before/after sending, explicit trailers, '
                'stream.cancel(), missing reply, BaseException / self-cancel = D4 class), client = a scripted h2 '
                'peer (ok, non-OK with/without RST, trailers-only, RST at several moments, never answers); '
                'MAX_CONCURRENT_STREAMS in {1,2,5} announced before the calls and at PRNG instants (raised and '
                'lowered), client task cancellation, Server.close-style handler cancellation (link), back-pressure '
                'windows on both transports, SETTINGS frames combining several settings; plus bulk scenarios of '
                '25..45 mostly client-ended calls (aggregate bookkeeping: task containers of the Handler and of the per-call wrappers, located by role); PRNG re-cut '
                'of the byte stream (link).  distinct = distinct (set-up, multiset of (cardinality, client '
                'program, peer program, deadline?), announced limits, waiters occurred)')
    cases = list(ctx.corpus())
    n = ctx.n(600, 4000)
    for _ in range(n):
        cases.append(gen_case(rng, 'link'))
    for _ in range(n):
        cases.append(gen_case(rng, 'client'))
    for i in range(ctx.n(40, 300)):
        cases.append(gen_bulk(rng, 'link' if i % 4 else 'client'))
    evaluate(ctx, res, cases)
    return res


def replay(ctx, case):
    res = Result()
    evaluate(ctx, res, [case])
    return res
