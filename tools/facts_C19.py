"""facts_C19.py -- facts about grpclib.health for coq/Gen/FactsC19.v (property C19), obtained BY VALUE.

Nothing is read off the syntax any more.  The health modules of the repository under test are imported and
PROBED through their public surface on the deterministic virtual-time loop of the harness:

  Health(...).Check / .Watch        driven with a fake stream (recv_message / send_message / send_trailing_metadata)
  CheckBase protocol                 __status__ / __check__ / __subscribe__ / __unsubscribe__ of probe checks
  ServiceStatus().set, ServiceCheck(func, check_ttl=, check_timeout=)

Every fact is a function over a small finite domain that is evaluated completely (the aggregate for every
multiset of up to 3 statuses; what the Watch loop does to an event whose wait task is absent / pending /
woken / done; the TTL test at ttl-1, ttl, ttl+1; how a run ends for return / raise / non-bool / timeout /
cancel; ...), or a yes/no observation of an interleaving the proofs rely on (everything a Watch wake-up does
happens in ONE loop iteration; a second caller during a run does not start the function; the last watcher
leaving and the next one joining 0..2 loop iterations apart still leaves a live poller).  So any
re-spelling with the same behaviour (helpers extracted or inlined, early returns, tables instead of if-chains,
renamed private names) yields the same file, and a change of behaviour yields a different one (the Coq model
is instantiated with these facts and the proofs then fail) or an observation outside what the model
understands, which raises Unsupported (fail-closed: the file is not generated).

Facts that no theorem uses (DEFAULT_CHECK_TTL / DEFAULT_CHECK_TIMEOUT, statement shapes) are gone.
Status codes: True = 1, False = 0, None = 2."""
import asyncio
import itertools
import os
import sys

from extract_facts import Unsupported, load, zs

VERIF = os.path.dirname(os.path.dirname(os.path.abspath(__file__)))
ST = {1: True, 0: False, 2: None}
CODE = {True: 1, False: 0, None: 2}
TICK = 0.125


def need(cond, what):
    if not cond:
        raise Unsupported('C19 facts: ' + what)


def b(x):
    return 'true' if x else 'false'


# ------------------------------------------------------------------------------------------------
# probe kit (public surface only)

class Rig:
    def __init__(self, repo):
        if VERIF not in sys.path:
            sys.path.insert(0, VERIF)
        self.service = load(repo, 'grpclib.health.service')
        self.check = load(repo, 'grpclib.health.check')
        self.pb2 = load(repo, 'grpclib.health.v1.health_pb2')
        from harness import vloop
        self.vloop = vloop

    def health(self, cfg):
        """cfg: [(name or '' for OVERALL, [checks])]"""
        d = {}
        for name, checks in cfg:
            d[self.service.OVERALL if name == '' else _Svc(name)] = list(checks)
        return self.service.Health(d)


class _Svc:
    def __init__(self, name):
        self.name = name

    def __mapping__(self):
        return {'/%s/M' % self.name: None}


class Stepper:
    """counts loop iterations; runs exactly one at a time"""

    def __init__(self, loop):
        self.loop = loop
        self.n = 0

    def step(self, k=1):
        for _ in range(k):
            self.n += 1
            self.loop.call_soon(self.loop.stop)
            self.loop.run_forever()

    def idle(self):
        return not self.loop._ready

    def settle(self, limit=200):
        for _ in range(limit):
            if self.idle():
                return
            self.step()
        raise Unsupported('C19 facts: the loop does not become idle (busy loop)')

    def until(self, t, limit=20000):
        """virtual time passes until t (timers fire at their instants)"""
        loop = self.loop
        for _ in range(limit):
            if not loop._ready:
                whens = [h._when for h in loop._scheduled if not h._cancelled]
                if not whens or min(whens) > t:
                    break
                if min(whens) > loop._vtime:
                    loop._vtime = min(whens)
            self.step()
        else:
            raise Unsupported('C19 facts: busy loop')
        if loop._vtime < t:
            loop._vtime = t


class Stream:
    """what a handler sees of grpclib.server.Stream"""

    def __init__(self, pb2, service, stepper=None, log=None):
        self.req = pb2.HealthCheckRequest(service=service)
        self.sent = []
        self.trailing = None
        self.stepper = stepper
        self.log = log

    async def recv_message(self):
        return self.req

    async def send_message(self, message, **kw):
        self.sent.append(int(message.status))
        if self.log is not None:
            self.log.append(('send', None, self.stepper.n))

    async def send_trailing_metadata(self, *, status=None, **kw):
        self.trailing = status

    async def send_initial_metadata(self, **kw):
        pass


class FixedCheck:
    def __init__(self, v):
        self.v = v

    def __status__(self):
        return self.v

    async def __check__(self):
        return self.v

    async def __subscribe__(self):
        return asyncio.Event()

    async def __unsubscribe__(self, event):
        pass


class ProbeEvent(asyncio.Event):
    def __init__(self, ident, log, stepper):
        super().__init__()
        self.ident, self.log, self.stepper = ident, log, stepper

    def clear(self):
        self.log.append(('clear', self.ident, self.stepper.n))
        super().clear()

    def wait(self):
        self.log.append(('wait', self.ident, self.stepper.n))
        return super().wait()


class ProbeCheck:
    """a proactive check (like ServiceStatus) that records how the Watch loop uses it"""

    def __init__(self, ident, v, log, stepper):
        self.ident, self.v, self.log, self.stepper = ident, v, log, stepper
        self.events = []

    def __status__(self):
        self.log.append(('status', self.ident, self.stepper.n))
        return self.v

    async def __check__(self):
        return self.v

    async def __subscribe__(self):
        e = ProbeEvent(self.ident, self.log, self.stepper)
        self.events.append(e)
        return e

    async def __unsubscribe__(self, event):
        self.events.remove(event)

    def change(self, v):
        if v != self.v:
            self.v = v
            for e in self.events:
                e.set()


# ------------------------------------------------------------------------------------------------
# 1. the aggregate, Check / Watch answers for unregistered and empty services

def run_check(rig, health, name):
    with rig.vloop.session() as loop:
        st = Stepper(loop)
        fs = Stream(rig.pb2, name)
        t = loop.create_task(health.Check(fs))
        st.settle()
        need(t.done() and t.exception() is None, 'Health.Check did not finish cleanly')
        return fs


def run_watch_first(rig, health, name):
    with rig.vloop.session() as loop:
        st = Stepper(loop)
        fs = Stream(rig.pb2, name)
        t = loop.create_task(health.Watch(fs))
        st.settle()
        need(not t.done(), 'Health.Watch ended by itself')
        first = list(fs.sent)
        st.until(loop.time() + 20000.0)
        need(not t.done() and fs.sent == first, 'Health.Watch sent something although nothing changed')
        return first


def aggregate_facts(rig):
    table = {}
    for n in (1, 2, 3):
        for vals in itertools.product([True, False, None], repeat=n):
            health = rig.health([('pkg.S', [FixedCheck(v) for v in vals])])
            fs = run_check(rig, health, 'pkg.S')
            need(len(fs.sent) == 1 and fs.trailing is None, 'Check answers with exactly one message')
            sig = (True in vals, False in vals, None in vals)
            need(table.setdefault(sig, fs.sent[0]) == fs.sent[0],
                 'the aggregate is not a function of the SET of statuses: %r' % (vals,))
            first = run_watch_first(rig, health, 'pkg.S')
            need(first == [fs.sent[0]], 'first Watch message %r differs from the Check answer %r for %r'
                 % (first, fs.sent, vals))
            # OVERALL defaults to the union of all lists
            fo = run_check(rig, health, '')
            need(fo.sent == fs.sent, 'OVERALL does not aggregate all checks')
    need(len(table) == 7, 'seven non-empty status sets')
    health = rig.health([('pkg.S', [FixedCheck(True)]), ('pkg.E', [])])
    unreg = run_check(rig, health, 'pkg.nope')
    need(unreg.sent == [] and unreg.trailing is not None, 'Check on an unregistered service sends trailers only')
    empty = run_check(rig, health, 'pkg.E')
    need(len(empty.sent) == 1 and empty.trailing is None, 'Check on a service without checks')
    w_unreg = run_watch_first(rig, health, 'pkg.nope')
    w_empty = run_watch_first(rig, health, 'pkg.E')
    need(len(w_unreg) == 1 and len(w_empty) == 1, 'Watch sends one message for unregistered / empty services')
    none_cfg = rig.service.Health()
    need(run_check(rig, none_cfg, '').sent == empty.sent, 'Health() has OVERALL with no checks')
    return table, int(unreg.trailing.value), empty.sent[0], w_unreg[0], w_empty[0]


# ------------------------------------------------------------------------------------------------
# 2. one wake-up of the Watch loop

def watch_scene(rig, vals):
    loop_cm = rig.vloop.session()
    loop = loop_cm.__enter__()
    st = Stepper(loop)
    log = []
    checks = [ProbeCheck(i, v, log, st) for i, v in enumerate(vals)]
    fs = Stream(rig.pb2, 'pkg.S', st, log)
    health = rig.health([('pkg.S', checks)])
    task = loop.create_task(health.Watch(fs))
    st.settle()
    need(not task.done() and len(fs.sent) == 1, 'Watch: first message')
    return loop_cm, loop, st, log, checks, fs, task


def segment(log, n):
    return [e for e in log if e[2] == n]


def watch_facts(rig):
    # (a) subscription segment: every event cleared / waited, status read, message -- all in one iteration
    cm, loop, st, log, checks, fs, task = watch_scene(rig, [None, None])
    try:
        n0 = [e for e in log if e[0] == 'send'][0][2]
        seg = segment(log, n0)
        absent_renewed = all(('wait', i, n0) in seg for i in (0, 1))
        atomic0 = {e[0] for e in seg} >= {'wait', 'status', 'send'} and len(segment(log, n0)) == len(log) \
            and seg[-1][0] == 'send'            # nothing is renewed or read after send_message was entered
        # (b) one of two checks changes: FIRST_COMPLETED wakes the watcher
        del log[:]
        checks[0].change(True)
        for k in range(1, 12):
            st.step()
            if len(fs.sent) == 2:
                break
        first_completed = len(fs.sent) == 2
        if not first_completed:
            checks[1].change(True)
            st.settle()
            need(len(fs.sent) == 2, 'Watch does not report a change of every check')
            return dict(first_completed=False, absent_or_done=False, clears_then_waits=False, atomic=False)
        hops = k
        n1 = [e for e in log if e[0] == 'send'][0][2]
        seg = [e for e in segment(log, n1)]
        kinds0 = [e[0] for e in seg if e[1] == 0]
        kinds1 = [e[0] for e in seg if e[1] == 1 and e[0] != 'status']
        done_renewed = 'wait' in kinds0
        pending_kept = kinds1 == []
        clears_then_waits = 'clear' in kinds0 and 'wait' in kinds0 and kinds0.index('clear') < kinds0.index('wait')
        reads = [e for e in seg if e[0] == 'status']
        atomic1 = len(reads) >= 2 and seg[-1][0] == 'send' and \
            all(e[2] == n1 for e in log if e[0] in ('clear', 'wait', 'status', 'send'))
        st.settle()
        need(len(fs.sent) == 2 and not checks[0].events[0].is_set(), 'Watch: the renewed event is clear and quiet')
    finally:
        cm.__exit__(None, None, None)
    # (c) the other check changes just before the Watch task runs: its wait task is woken, not done -> kept,
    #     its event stays set, and a further message follows
    cm, loop, st, log, checks, fs, task = watch_scene(rig, [None, None])
    try:
        checks[0].change(True)
        st.step(hops - 1)
        need(len(fs.sent) == 1, 'Watch: wake-up takes the same number of iterations every time')
        del log[:]
        checks[1].change(False)
        st.step()
        need(len(fs.sent) == 2, 'Watch: wake-up takes the same number of iterations every time')
        n2 = st.n
        seg1 = [e[0] for e in segment(log, n2) if e[1] == 1 and e[0] != 'status']
        woken_kept = seg1 == [] and checks[1].events[0].is_set()
        st.settle()
        woken_followed = len(fs.sent) == 3
    finally:
        cm.__exit__(None, None, None)
    return dict(first_completed=True,
                absent_or_done=absent_renewed and done_renewed and pending_kept and woken_kept and woken_followed,
                clears_then_waits=clears_then_waits, atomic=atomic0 and atomic1)


# ------------------------------------------------------------------------------------------------
# 3. ServiceStatus.set / ServiceCheck.__check__

def status_notify(rig):
    with rig.vloop.session() as loop:
        st = Stepper(loop)
        out = {}

        async def go():
            ok = True
            for old, new in itertools.product([True, False, None], repeat=2):
                s = rig.check.ServiceStatus()
                s.set(old)
                ev = await s.__subscribe__()
                need(not ev.is_set() or True, '')
                ev.clear()
                s.set(new)
                ok = ok and (ev.is_set() == (old != new)) and s.__status__() == new
                other = await s.__subscribe__()
                await s.__unsubscribe__(ev)
                ev.clear()
                s.set(not new if new is not None else True)
                ok = ok and not ev.is_set() and other.is_set()
            out['ok'] = ok
        t = loop.create_task(go())
        st.settle()
        need(t.done() and t.exception() is None, 'ServiceStatus probe')
        return out['ok']


class Fn:
    """scripted check function: [(duration in ticks or -1 for no suspension, result)], result in T F N B R"""

    def __init__(self, loop, script):
        self.loop, self.script, self.n = loop, script, 0
        self.log = []
        self.active = self.max_active = 0

    async def __call__(self):
        d, r = self.script[min(self.n, len(self.script) - 1)]
        self.n += 1
        rec = [self.loop.time() / TICK, None]
        self.log.append(rec)
        self.active += 1
        self.max_active = max(self.max_active, self.active)
        try:
            if d >= 0:
                await asyncio.sleep(d * TICK)
            if r == 'R':
                raise RuntimeError('scripted failure')
            return {'T': True, 'F': False, 'N': None, 'B': 1}[r]
        finally:
            self.active -= 1
            rec[1] = self.loop.time() / TICK


def sc_scene(rig, script, ttl, tmo, events, horizon):
    """events: [(t, 'call') | (t, 'cancel', k)]; returns per caller (state, value, time), function log, status"""
    import logging
    logging.getLogger(rig.check.__name__).setLevel(logging.CRITICAL)
    with rig.vloop.session() as loop:
        st = Stepper(loop)
        fn = Fn(loop, script)
        c = rig.check.ServiceCheck(fn, check_ttl=ttl * TICK, check_timeout=tmo * TICK)
        callers, ends = [], {}
        for ev in events:
            st.until(ev[0] * TICK)
            if ev[1] == 'call':
                t = loop.create_task(c.__check__())
                t.add_done_callback(lambda _, i=len(callers): ends.setdefault(i, loop.time() / TICK))
                callers.append(t)
            else:
                callers[ev[2]].cancel()
        st.until(horizon * TICK)
        res = []
        for i, t in enumerate(callers):
            if not t.done():
                res.append(('pending', None, None))
            elif t.cancelled():
                res.append(('cancelled', None, ends[i]))
            elif t.exception() is not None:
                res.append(('exc', type(t.exception()).__name__, ends[i]))
            else:
                res.append(('ret', t.result(), ends[i]))
        out = (res, [tuple(r) + (fn.max_active,) for r in fn.log], c.__status__())
        for t in callers:
            t.cancel()
        return out


def check_facts(rig):
    T, TMO = 8, 16
    # TTL cache: a second call at elapsed = ttl-1, ttl, ttl+1 after a run that ended at t=0
    cached = []
    for el in (T - 1, T, T + 1):
        res, log, _ = sc_scene(rig, [(-1, 'T')], T, TMO, [(0, 'call'), (el, 'call')], el + 4)
        need(all(r[0] == 'ret' and r[1] is True for r in res), 'TTL probe: both calls return True')
        cached.append(len(log) == 1)
    cmp_code = {(True, False, False): 0, (True, True, False): 1, (False, False, True): 2,
                (False, True, True): 3}.get(tuple(cached))
    need(cmp_code is not None, 'TTL test is not a comparison of elapsed time with check_ttl: %r' % (cached,))
    # single flight: a caller arriving during a run does not start the function and gets the run's result
    res, log, _ = sc_scene(rig, [(4, 'T')], T, TMO, [(0, 'call'), (1, 'call')], 20)
    latch_cleared = len(log) == 1
    if latch_cleared:
        need(res[1] == ('ret', True, 4.0), 'a waiter returns the result when the run ends: %r' % (res,))
    # how a run ends releases the waiters: return / raise / timeout / the runner is cancelled
    released = True
    for script, extra in (([(4, 'T')], []), ([(4, 'R')], []), ([(10 * TMO, 'T')], []), ([(4, 'T')], [(2, 'cancel', 0)])):
        res, log, _ = sc_scene(rig, script + [(-1, 'T')], T, TMO, [(0, 'call'), (1, 'call')] + extra, 12 * TMO)
        released = released and res[1][0] == 'ret'
        # ... and the latch is usable again afterwards
        res2, log2, _ = sc_scene(rig, script + [(-1, 'T')], T, TMO,
                                 [(0, 'call')] + extra + [(11 * TMO, 'call')], 12 * TMO)
        released = released and res2[-1][0] == 'ret' and len(log2) == 2
    # every run that produced a status (also a failing one) opens a TTL window: no second run inside it
    for script in ([(1, 'T')], [(1, 'R')], [(1, 'B')], [(10 * TMO, 'T')]):
        res, log, _ = sc_scene(rig, script + [(-1, 'T')], 4 * TMO, TMO, [(0, 'call'), (TMO + 2, 'call')], 3 * TMO)
        need(len(log) == 1 and res[1][0] == 'ret', 'a completed run (%r) is cached for check_ttl' % (script[0],))
    # the first run is cancelled while two more callers wait: still never two runs at once
    if latch_cleared:
        res, log, _ = sc_scene(rig, [(4, 'T')], T, TMO, [(0, 'call'), (1, 'call'), (1, 'call'), (2, 'cancel', 0)], 40)
        need(all(r[2] == 1 for r in log), 'single flight is kept when the running caller is cancelled')
    # timeout
    res, log, val = sc_scene(rig, [(10 * TMO, 'T')], T, TMO, [(0, 'call')], 12 * TMO)
    guarded = res[0][0] == 'ret' and res[0][2] == float(TMO) and log[0][1] == float(TMO)
    if guarded:
        need(res[0][1] is False and val is False, 'a run past check_timeout counts as failing')
    else:
        need(res[0][0] == 'ret' and res[0][2] == float(10 * TMO), 'check_timeout: neither effective nor ignored')
    # raise / non-bool
    res, log, val = sc_scene(rig, [(1, 'R')], T, TMO, [(0, 'call')], 20)
    need(res[0][0] == 'ret' and val in CODE and res[0][1] is val, 'a raising check function is absorbed')
    fail_value = CODE[val]
    res, log, val = sc_scene(rig, [(1, 'B')], T, TMO, [(0, 'call')], 20)
    need(res[0][0] == 'ret', 'a non-bool result is absorbed')
    typeguard = val is False or (val is None and fail_value == 2)
    typeguard = res[0][1] is ST[fail_value] and val is ST[fail_value]
    # check_timeout <= 0: failing at once, function not called (what the model does when the wrapper is in place)
    res, log, val = sc_scene(rig, [(-1, 'T')], T, 0, [(0, 'call')], 20)
    if guarded:
        need(log == [] and res[0][:2] == ('ret', ST[fail_value]) and res[0][2] == 0.0,
             'check_timeout = 0: failing at once without calling the function: %r %r' % (res, log))
    # a later check can succeed again (no sticky state); cancellation of a waiter only ends that waiter
    res, log, val = sc_scene(rig, [(10 * TMO, 'T'), (1, 'T')], T, TMO, [(0, 'call'), (3 * TMO, 'call')], 5 * TMO)
    need(res[1][:2] == ('ret', True) or not guarded, 'a check after a timed-out one is judged on its own')
    return dict(ttl_cmp=cmp_code, latch_cleared=latch_cleared, latch_set=released, guarded=guarded,
                typeguard=typeguard, fail_value=fail_value)


def poll_scene(rig, script, ttl, tmo, plan, horizon):
    """plan: [('join',) | ('leave', k) | ('iter', n) | ('time', dt) | ('mark',)].  A watcher is what Health.Watch
    is to a check: subscribe, wait, unsubscribe in `finally`.  Returns watcher outcomes, events seen, function log."""
    import logging
    logging.getLogger(rig.check.__name__).setLevel(logging.CRITICAL)
    with rig.vloop.session() as loop:
        st = Stepper(loop)
        fn = Fn(loop, script)
        c = rig.check.ServiceCheck(fn, check_ttl=ttl * TICK, check_timeout=tmo * TICK)
        ws, evs, marks = [], [], []

        async def watcher(i):
            ev = await c.__subscribe__()
            evs[i] = ev
            try:
                await loop.create_future()
            finally:
                await c.__unsubscribe__(ev)
        for p in plan:
            if p[0] == 'join':
                evs.append(None)
                ws.append(loop.create_task(watcher(len(ws))))
            elif p[0] == 'leave':
                ws[p[1]].cancel()
            elif p[0] == 'iter':
                st.step(p[1])
            elif p[0] == 'time':
                st.until(loop.time() + p[1] * TICK)
            elif p[0] == 'mark':
                marks.append([(e.is_set() if e is not None else None) for e in evs])
                for e in evs:
                    if e is not None:
                        e.clear()
        st.until(loop.time() + horizon * TICK)
        now = loop.time() / TICK
        for w in ws:
            w.cancel()
        st.until(loop.time() + 4 * (ttl + tmo) * TICK)
        outs = []
        for w in ws:
            if not w.done():
                outs.append('pending')
            elif w.cancelled():
                outs.append('cancelled')
            else:
                outs.append('exc:' + type(w.exception()).__name__ if w.exception() else 'ended')
        late = [r for r in fn.log if r[0] > now]
        return outs, marks, [tuple(r) for r in fn.log], now, late


def poll_facts(rig):
    T, TMO = 8, 16
    # a subscriber makes the check poll: the function runs about every ttl; a second subscriber adds no poller
    outs, marks, log, now, late = poll_scene(rig, [(-1, 'T')], T, TMO, [('join',), ('time', 10 * T)], 0)
    starts = 9 <= len(log) <= 12
    outs2, _, log2, _, late2 = poll_scene(rig, [(-1, 'T')], T, TMO, [('join',), ('iter', 3), ('join',), ('time', 10 * T)], 0)
    starts = starts and len(log2) == len(log) and outs == ['cancelled'] and outs2 == ['cancelled'] * 2 \
        and not late and not late2
    need(starts or len(log) <= 1, 'polling: neither once per ttl nor absent: %d runs' % len(log))
    # notification: the subscriber's event is set exactly when the polled value changes
    outs, marks, log, now, late = poll_scene(
        rig, [(-1, 'T'), (-1, 'T'), (-1, 'F'), (-1, 'F'), (-1, 'N'), (-1, 'R'), (-1, 'B'), (-1, 'T')], T, TMO,
        [('join',), ('iter', 4), ('mark',)] + [('time', T), ('mark',)] * 7, 0)
    flat = [m[0] for m in marks]
    notifies = flat == [True, False, True, False, True, True, False, True]
    need(notifies or not any(flat[1:]) or all(flat), 'change notification pattern %r' % (flat,))
    # hand-over: the last watcher leaves, the next one joins k iterations later -- it must be polled for and
    # its own leave must be clean
    handover = True
    for k in (0, 1, 2, 3):
        outs, marks, log, now, late = poll_scene(
            rig, [(-1, 'T')], T, TMO,
            [('join',), ('time', 2 * T + 1), ('leave', 0), ('iter', k), ('join',), ('time', 10 * T)], 0)
        recent = [r for r in log if r[0] >= now - 2 * T]
        handover = handover and outs == ['cancelled', 'cancelled'] and bool(recent) and not late
    # the same while a run of the function is in flight
    for k in (0, 1, 2):
        outs, marks, log, now, late = poll_scene(
            rig, [(3, 'T')], T, TMO,
            [('join',), ('time', 1), ('leave', 0), ('iter', k), ('join',), ('time', 10 * T)], 0)
        recent = [r for r in log if r[0] >= now - 2 * T - 3]
        handover = handover and outs == ['cancelled', 'cancelled'] and bool(recent) and not late
    return starts, notifies, handover


# ------------------------------------------------------------------------------------------------

def generate(repo):
    rig = Rig(repo)
    enum = [(k, int(v)) for k, v in rig.pb2.HealthCheckResponse.ServingStatus.items()]
    table, unreg_code, check_empty, w_unreg, w_empty = aggregate_facts(rig)
    w = watch_facts(rig)
    set_notify = status_notify(rig)
    sc = check_facts(rig)
    starts, check_notify, handover = poll_facts(rig)
    out = []
    out.append('(* GENERATED by tools/facts_C19.py by probing grpclib.health of the repository under test -- do not edit *)')
    out.append('From Coq Require Import ZArith List Bool.')
    out.append('Import ListNotations.')
    out.append('Open Scope Z_scope.')
    out.append('(* status codes: True = 1, False = 0, None = 2 *)')
    out.append('Definition serving_status_enum : list (list Z * Z) := [%s].' %
               '; '.join('(%s, %d)' % (zs(k), v) for k, v in enum))
    out.append('(* Health.Check / first Watch message for a service whose checks have exactly this non-empty SET of '
               'statuses: (has True, has False, has None) *)')
    out.append('Definition status_table : list ((bool * bool * bool) * Z) := [%s].' % '; '.join(
        '((%s, %s, %s), %d)' % (b(s[0]), b(s[1]), b(s[2]), r) for s, r in sorted(table.items(), reverse=True)))
    out.append('Definition check_unregistered_grpc_status : Z := %d.' % unreg_code)
    out.append('Definition check_empty_resp : Z := %d.' % check_empty)
    out.append('Definition watch_unregistered_resp : Z := %d.' % w_unreg)
    out.append('Definition watch_empty_resp : Z := %d.' % w_empty)
    out.append('(* one wake-up of the Watch loop *)')
    out.append('Definition watch_first_completed : bool := %s.   (* one changed check is enough to wake the watcher *)'
               % b(w['first_completed']))
    out.append('Definition reset_when_absent_or_done : bool := %s.   (* wait task absent / done: renewed; pending / woken: kept *)'
               % b(w['absent_or_done']))
    out.append('Definition reset_clears_then_waits : bool := %s.   (* a renewed event is cleared before its new wait *)'
               % b(w['clears_then_waits']))
    out.append('Definition watch_segment_atomic : bool := %s.   (* renew, read every status, call send_message: one loop iteration *)'
               % b(w['atomic']))
    out.append('(* ServiceCheck.__check__ *)')
    out.append('Definition ttl_cmp : Z := %d.   (* cached iff elapsed <op> ttl: 0 "<", 1 "<=", 2 ">", 3 ">=" *)' % sc['ttl_cmp'])
    out.append('Definition latch_cleared_before_run : bool := %s.   (* a caller arriving during a run does not start the function *)'
               % b(sc['latch_cleared']))
    out.append('Definition latch_set_in_finally : bool := %s.   (* return / raise / timeout / cancel all release the waiters *)'
               % b(sc['latch_set']))
    out.append('Definition func_guarded : bool := %s.   (* a run past check_timeout is interrupted at the deadline *)'
               % b(sc['guarded']))
    out.append('Definition nonbool_is_type_error : bool := %s.' % b(sc['typeguard']))
    out.append('Definition check_failure_value : Z := %d.' % sc['fail_value'])
    out.append('Definition check_notifies_on_change : bool := %s.' % b(check_notify))
    out.append('Definition set_notifies_on_change : bool := %s.' % b(set_notify))
    out.append('Definition subscribe_starts_poll_when_none : bool := %s.   (* first subscriber starts one poller, more add none *)'
               % b(starts))
    out.append('Definition poll_cleared_before_await : bool := %s.   (* last watcher leaves, next joins 0..3 iterations later: '
               'still polled, clean leave *)' % b(handover))
    return '\n'.join(out) + '\n'


if __name__ == '__main__':
    sys.stdout.write(generate(os.environ.get('VERIF_REPO', '/repo')))
