"""facts_C19.py -- structural facts of grpclib.health copied into coq/Gen/FactsC19.v (property C19).

`ast` only; grpclib is never imported.  Fail-closed: a statement shape that is not recognised raises
Unsupported, the generated file disappears and Props/C19.v stops compiling (tie broken).

What is extracted
  * the decision chain of service._status         (set literal compared -> ServingStatus returned)
  * the ServingStatus enum numbers                 (health.proto, the source of health_pb2)
  * what Health.Check / Health.Watch answer for an unregistered service and for an empty check list
  * DEFAULT_CHECK_TTL / DEFAULT_CHECK_TIMEOUT, the comparison operator of the TTL cache test
  * whether `await self._func()` is lexically inside `with <w>.start(deadline), <w>` where <w> was
    bound to a fresh DeadlineWrapper() in the same function (the repair of D12)
  * the value stored by `except Exception`, the non-bool TypeError guard, the single-flight latch
    statements (clear before the run, set in `finally`), the notify guard `!=` in __check__ and in
    ServiceStatus.set
  * the condition and statement order of _reset_waits, and return_when of the asyncio.wait in Watch
  * ServiceCheck.__subscribe__ / __unsubscribe__ / _poll: a poll task is started iff _poll_task is None; whether
    _poll_task is forgotten before or after the suspension in `await task`
Status codes used in the generated file: True = 1, False = 0, None = 2."""
import ast
import os
import re

from extract_facts import Unsupported, parse, module_assigns, ceval, zs, func_node, class_node, \
    enum_members

ST = {True: 1, False: 0, None: 2}


def u(node):
    return ast.unparse(node)


def need(cond, what):
    if not cond:
        raise Unsupported('C19 facts: ' + what)


def proto_enum(repo):
    p = os.path.join(repo, 'grpclib/health/v1/health.proto')
    text = re.sub(r'//[^\n]*', '', open(p).read())
    m = re.search(r'enum\s+ServingStatus\s*\{([^}]*)\}', text)
    need(m, 'enum ServingStatus in health.proto')
    out = []
    for item in m.group(1).split(';'):
        item = item.strip()
        if not item:
            continue
        mm = re.fullmatch(r'([A-Z_]+)\s*=\s*(\d+)', item)
        need(mm, 'enum item %r' % item)
        out.append((mm.group(1), int(mm.group(2))))
    need(out, 'ServingStatus members')
    return out


def resp_name(node):
    """HealthCheckResponse.NAME -> NAME"""
    need(isinstance(node, ast.Attribute) and isinstance(node.value, ast.Name)
         and node.value.id == 'HealthCheckResponse', 'HealthCheckResponse.<NAME> expected: ' + u(node))
    return node.attr


def status_chain(fn, enum):
    body = fn.body
    need(len(body) == 2, '_status body has two statements')
    need(u(body[0]) == 'statuses = {check.__status__() for check in checks}', '_status set comprehension')
    chain = []
    node = body[1]
    while True:
        need(isinstance(node, ast.If), '_status if-chain')
        t = node.test
        need(isinstance(t, ast.Compare) and len(t.ops) == 1 and isinstance(t.ops[0], ast.Eq)
             and u(t.left) == 'statuses' and isinstance(t.comparators[0], ast.Set), '_status test ' + u(t))
        elts = []
        for e in t.comparators[0].elts:
            need(isinstance(e, ast.Constant) and (e.value is None or isinstance(e.value, bool)),
                 '_status set literal element ' + u(e))
            elts.append(ST[e.value])
        need(len(node.body) == 1 and isinstance(node.body[0], ast.Return), '_status return')
        chain.append((elts, enum[resp_name(node.body[0].value)]))
        need(len(node.orelse) == 1, '_status else branch')
        nxt = node.orelse[0]
        if isinstance(nxt, ast.Return):
            return chain, enum[resp_name(nxt.value)]
        node = nxt


def sent_status(stmt):
    """await stream.send_message(HealthCheckResponse(status=HealthCheckResponse.NAME)) -> NAME"""
    need(isinstance(stmt, ast.Expr) and isinstance(stmt.value, ast.Await), 'await statement: ' + u(stmt))
    call = stmt.value.value
    need(isinstance(call, ast.Call) and u(call.func) == 'stream.send_message' and len(call.args) == 1,
         'stream.send_message(...): ' + u(stmt))
    msg = call.args[0]
    need(isinstance(msg, ast.Call) and u(msg.func) == 'HealthCheckResponse' and not msg.args
         and len(msg.keywords) == 1 and msg.keywords[0].arg == 'status', 'HealthCheckResponse(status=..)')
    return msg.keywords[0].value


def handler_branches(fn):
    """the if checks is None / elif len(checks) == 0 / else statement of Check and Watch"""
    body = [s for s in fn.body if not (isinstance(s, ast.Expr) and isinstance(s.value, ast.Constant))]
    need(u(body[0]) == 'request = await stream.recv_message()', fn.name + ': recv_message first')
    ifs = [s for s in body if isinstance(s, ast.If)]
    need(len(ifs) == 1, fn.name + ': one if statement')
    need(any(u(s) == 'checks = self._checks.get(request.service)' for s in fn.body), fn.name + ': lookup')
    top = ifs[0]
    need(u(top.test) == 'checks is None', fn.name + ': unregistered test')
    need(len(top.orelse) == 1 and isinstance(top.orelse[0], ast.If)
         and u(top.orelse[0].test) == 'len(checks) == 0', fn.name + ': empty test')
    return top.body, top.orelse[0].body, top.orelse[0].orelse


def sleeps_forever(stmts, who):
    need(len(stmts) == 2 and isinstance(stmts[1], ast.While) and u(stmts[1].test) == 'True'
         and len(stmts[1].body) == 1 and u(stmts[1].body[0]).startswith('await asyncio.sleep('),
         who + ': message then sleep forever')


def check_facts(tree, enum, status_enum):
    fn = func_node(tree, 'Check', 'Health')
    unreg, empty, other = handler_branches(fn)
    need(len(unreg) == 1, 'Check: unregistered branch')
    call = unreg[0].value.value if isinstance(unreg[0], ast.Expr) and isinstance(unreg[0].value, ast.Await) else None
    need(isinstance(call, ast.Call) and u(call.func) == 'stream.send_trailing_metadata' and not call.args
         and len(call.keywords) == 1 and call.keywords[0].arg == 'status', 'Check: send_trailing_metadata(status=)')
    st = call.keywords[0].value
    need(isinstance(st, ast.Attribute) and u(st.value) == 'Status', 'Check: Status.<NAME>')
    unreg_code = dict(status_enum)[st.attr]
    need(len(empty) == 1, 'Check: empty branch')
    empty_resp = enum[resp_name(sent_status(empty[0]))]
    need(len(other) == 2 and u(other[0]) == 'for check in checks:\n    await check.__check__()',
         'Check: runs every check')
    need(u(sent_status(other[1])) == '_status(checks)', 'Check: answers _status(checks)')
    return unreg_code, empty_resp


WATCH_BODY = '''events = []
for check in checks:
    events.append(await check.__subscribe__())
waits = _reset_waits(events, {})
try:
    await stream.send_message(HealthCheckResponse(status=_status(checks)))
    while True:
        await asyncio.wait(waits.values(), return_when=asyncio.%s)
        waits = _reset_waits(events, waits)
        await stream.send_message(HealthCheckResponse(status=_status(checks)))
finally:
    for check, event in zip(checks, events):
        await check.__unsubscribe__(event)
    for wait in waits.values():
        if not wait.done():
            wait.cancel()'''


def watch_facts(tree, enum):
    fn = func_node(tree, 'Watch', 'Health')
    unreg, empty, other = handler_branches(fn)
    sleeps_forever(unreg, 'Watch unregistered')
    sleeps_forever(empty, 'Watch empty')
    unreg_resp = enum[resp_name(sent_status(unreg[0]))]
    empty_resp = enum[resp_name(sent_status(empty[0]))]
    text = '\n'.join(u(s) for s in other)
    first = None
    for mode in ('FIRST_COMPLETED', 'ALL_COMPLETED', 'FIRST_EXCEPTION'):
        if text == WATCH_BODY % mode:
            first = (mode == 'FIRST_COMPLETED')
    need(first is not None, 'Watch: subscription loop has an unrecognised shape')
    return unreg_resp, empty_resp, first


def reset_facts(tree):
    fn = func_node(tree, '_reset_waits')
    need(u(fn.body[0]) == 'new_waits = {}' and u(fn.body[-1]) == 'return new_waits' and len(fn.body) == 3
         and isinstance(fn.body[1], ast.For) and u(fn.body[1].target) == 'event'
         and u(fn.body[1].iter) == 'events', '_reset_waits skeleton')
    loop = fn.body[1].body
    need(len(loop) == 3 and u(loop[0]) == 'wait = waits.get(event)' and isinstance(loop[1], ast.If)
         and u(loop[2]) == 'new_waits[event] = wait' and not loop[1].orelse, '_reset_waits loop body')
    cond = u(loop[1].test)
    renew = [u(s) for s in loop[1].body]
    absent_or_done = cond == 'wait is None or wait.done()'
    need(absent_or_done or cond in ('wait is None', 'wait is None or not wait.done()', 'wait.done()', 'True'),
         '_reset_waits condition ' + cond)
    clears_then_waits = renew == ['event.clear()', 'wait = asyncio.ensure_future(event.wait())']
    need(clears_then_waits or renew == ['wait = asyncio.ensure_future(event.wait())'] or
         renew == ['wait = asyncio.ensure_future(event.wait())', 'event.clear()'], '_reset_waits renewal ' + repr(renew))
    return absent_or_done, clears_then_waits


CMP = {ast.Lt: 0, ast.LtE: 1, ast.Gt: 2, ast.GtE: 3}


def service_check_facts(tree):
    fn = func_node(tree, '__check__', 'ServiceCheck')
    body = fn.body
    need(len(body) >= 6, '__check__ body')
    # 1. TTL cache
    ttl = body[0]
    need(isinstance(ttl, ast.If) and isinstance(ttl.test, ast.BoolOp) and isinstance(ttl.test.op, ast.And)
         and len(ttl.test.values) == 2 and u(ttl.test.values[0]) == 'self._last_check is not None'
         and u(ttl.body[0]) == 'return self._value' and not ttl.orelse, '__check__: TTL cache test')
    c = ttl.test.values[1]
    need(isinstance(c, ast.Compare) and len(c.ops) == 1 and type(c.ops[0]) in CMP
         and u(c.left) == 'time.monotonic() - self._last_check' and u(c.comparators[0]) == 'self._check_ttl',
         '__check__: TTL comparison ' + u(c))
    ttl_cmp = CMP[type(c.ops[0])]
    # 2. single flight latch
    latch = body[1]
    need(isinstance(latch, ast.If) and u(latch.test) == 'not self._check_lock.is_set()'
         and [u(s) for s in latch.body] == ['await self._check_lock.wait()', 'return self._value']
         and not latch.orelse, '__check__: latch wait')
    need(u(body[2]) == 'prev_value = self._value', '__check__: prev_value')
    latch_cleared = u(body[3]) == 'self._check_lock.clear()'
    tr = body[4] if latch_cleared else body[3]
    need(isinstance(tr, ast.Try), '__check__: try statement')
    latch_set_finally = [u(s) for s in tr.finalbody] == ['self._check_lock.set()']
    # 3. the guarded call
    fresh = None
    guarded = False
    typeguard = False
    stores = False
    for s in tr.body:
        if isinstance(s, ast.Assign) and u(s.value) == 'DeadlineWrapper()':
            fresh = [u(t) for t in s.targets]
    for s in tr.body:
        if isinstance(s, ast.With):
            inner = [u(x) for x in s.body]
            if 'value = await self._func()' in inner:
                ctx = [u(i.context_expr) for i in s.items]
                if fresh and 'wrapper' in fresh and ctx == ['wrapper.start(deadline)', 'wrapper']:
                    guarded = True
        if u(s) == "if value is not None and (not isinstance(value, bool)):\n    " \
                   "raise TypeError('Invalid status type: {!r}'.format(value))":
            typeguard = True
        if u(s) == 'self._value = value':
            stores = True
    called = any('await self._func()' in u(s) for s in tr.body)
    need(called and stores, '__check__: the function is awaited and its result stored')
    need(any(u(s) == 'deadline = Deadline.from_timeout(self._check_timeout)' for s in tr.body) or not guarded,
         '__check__: deadline from check_timeout')
    # 4. handlers
    need(len(tr.handlers) == 2 and u(tr.handlers[0].type) == 'asyncio.CancelledError'
         and [u(s) for s in tr.handlers[0].body] == ['raise'] and u(tr.handlers[1].type) == 'Exception',
         '__check__: except clauses')
    fail = [s for s in tr.handlers[1].body if isinstance(s, ast.Assign) and u(s.targets[0]) == 'self._value']
    need(len(fail) == 1 and isinstance(fail[0].value, ast.Constant) and fail[0].value.value in ST,
         '__check__: value stored on failure')
    fail_value = ST[fail[0].value.value]
    # 5. tail: _last_check, notify
    tail = body[body.index(tr) + 1:]
    need(len(tail) == 3 and u(tail[0]) == 'self._last_check = time.monotonic()'
         and isinstance(tail[1], ast.If) and u(tail[2]) == 'return self._value', '__check__: tail')
    notify = notify_guard(tail[1])
    return dict(ttl_cmp=ttl_cmp, latch_cleared=latch_cleared, latch_set_finally=latch_set_finally,
                guarded=guarded, typeguard=typeguard, fail_value=fail_value, notify=notify)


def notify_guard(ifstmt):
    """if self._value != prev_value: ... for event in self._events: event.set()"""
    t = ifstmt.test
    need(isinstance(t, ast.Compare) and len(t.ops) == 1 and u(t.left) == 'self._value'
         and u(t.comparators[0]) == 'prev_value', 'notify guard ' + u(t))
    sets = [s for s in ifstmt.body if isinstance(s, ast.For)]
    ok = len(sets) == 1 and u(sets[0]) == 'for event in self._events:\n    event.set()' and not ifstmt.orelse
    return isinstance(t.ops[0], ast.NotEq) and ok


def service_status_facts(tree):
    fn = func_node(tree, 'set', 'ServiceStatus')
    body = [s for s in fn.body if not (isinstance(s, ast.Expr) and isinstance(s.value, ast.Constant))]
    need(len(body) == 3 and u(body[0]) == 'prev_value = self._value' and u(body[1]) == 'self._value = value'
         and isinstance(body[2], ast.If), 'ServiceStatus.set body')
    for name in ('__status__', '__check__'):
        f = func_node(tree, name, 'ServiceStatus')
        need([u(s) for s in f.body] == ['return self._value'], 'ServiceStatus.%s returns the value' % name)
    return notify_guard(body[2])


def poll_facts(tree):
    """ServiceCheck.__subscribe__ / __unsubscribe__: who starts and who forgets the poll task"""
    sub = func_node(tree, '__subscribe__', 'ServiceCheck')
    body = [u(s) for s in sub.body]
    need(len(sub.body) == 4 and isinstance(sub.body[0], ast.If) and body[1:] ==
         ['event = asyncio.Event()', 'self._events.add(event)', 'return event'], '__subscribe__ body')
    first = sub.body[0]
    starts_when_none = u(first.test) == 'self._poll_task is None' and not first.orelse and \
        [u(x) for x in first.body] == ['loop = asyncio.get_event_loop()',
                                       'self._poll_task = loop.create_task(self._poll())']
    need(starts_when_none or u(first.test) in ('self._poll_task is not None', 'not self._events', 'True'),
         '__subscribe__ poll start ' + u(first.test))
    un = func_node(tree, '__unsubscribe__', 'ServiceCheck')
    need(len(un.body) == 2 and u(un.body[0]) == 'self._events.discard(event)' and isinstance(un.body[1], ast.If)
         and u(un.body[1].test) == 'not self._events' and not un.body[1].orelse, '__unsubscribe__ skeleton')
    inner = un.body[1].body
    texts = [u(x) for x in inner]
    wait = 'try:\n    await task\nexcept asyncio.CancelledError:\n    pass'
    need(sorted(texts) == sorted(['assert self._poll_task is not None', 'task = self._poll_task',
                                  'self._poll_task = None', 'task.cancel()', wait]),
         '__unsubscribe__ statements ' + repr(texts))
    need(texts.index('task = self._poll_task') < texts.index('task.cancel()') < texts.index(wait)
         and texts.index('task = self._poll_task') < texts.index('self._poll_task = None'),
         '__unsubscribe__ statement order')
    cleared_before_await = texts.index('self._poll_task = None') < texts.index(wait)
    poll = func_node(tree, '_poll', 'ServiceCheck')
    need(len(poll.body) == 1 and isinstance(poll.body[0], ast.While) and u(poll.body[0].test) == 'True'
         and u(poll.body[0].body[0]) == 'status = await self.__check__()'
         and all('await asyncio.sleep(self._check_ttl)' in u(x) for x in poll.body[0].body[1:])
         and len(poll.body[0].body) == 2, '_poll loop')
    return starts_when_none, cleared_before_await


def b(x):
    return 'true' if x else 'false'


def generate(repo):
    enum_list = proto_enum(repo)
    enum = dict(enum_list)
    svc = parse(repo, 'grpclib/health/service.py')
    chk = parse(repo, 'grpclib/health/check.py')
    const = parse(repo, 'grpclib/const.py')
    status_enum = [(k, ceval(v, {})) for k, v in enum_members(const, 'Status')]
    chain, default = status_chain(func_node(svc, '_status'), enum)
    unreg_code, check_empty = check_facts(svc, enum, status_enum)
    w_unreg, w_empty, first = watch_facts(svc, enum)
    absent_or_done, clears = reset_facts(svc)
    env = {}
    assigns = module_assigns(chk)
    ttl = ceval(assigns['DEFAULT_CHECK_TTL'], env)
    tmo = ceval(assigns['DEFAULT_CHECK_TIMEOUT'], env)
    need(isinstance(ttl, int) and isinstance(tmo, int), 'integer defaults')
    init = func_node(chk, '__init__', 'ServiceCheck')
    kwd = {a.arg: u(d) for a, d in zip(init.args.kwonlyargs, init.args.kw_defaults) if d is not None}
    need(kwd.get('check_ttl') == 'DEFAULT_CHECK_TTL' and kwd.get('check_timeout') == 'DEFAULT_CHECK_TIMEOUT',
         'ServiceCheck.__init__ defaults')
    need(any(u(s) == 'self._check_lock.set()' for s in init.body), 'latch initially set')
    cls = class_node(chk, 'ServiceCheck')
    cattr = {u(s.targets[0]): u(s.value) for s in cls.body if isinstance(s, ast.Assign)}
    need(cattr.get('_value') == 'None' and cattr.get('_last_check') == 'None', 'initial _value/_last_check')
    sc = service_check_facts(chk)
    set_notify = service_status_facts(chk)
    starts_when_none, cleared_before_await = poll_facts(chk)
    out = []
    out.append('(* GENERATED by tools/facts_C19.py from grpclib/health/{service,check}.py, health.proto -- do not edit *)')
    out.append('From Coq Require Import ZArith List Bool.')
    out.append('Import ListNotations.')
    out.append('Open Scope Z_scope.')
    out.append('(* status codes: True = 1, False = 0, None = 2 *)')
    out.append('Definition serving_status_enum : list (list Z * Z) := [%s].' %
               '; '.join('(%s, %d)' % (zs(k), v) for k, v in enum_list))
    out.append('Definition status_chain : list (list Z * Z) := [%s].' %
               '; '.join('([%s], %d)' % ('; '.join(map(str, e)), r) for e, r in chain))
    out.append('Definition status_else : Z := %d.' % default)
    out.append('Definition check_unregistered_grpc_status : Z := %d.' % unreg_code)
    out.append('Definition check_empty_resp : Z := %d.' % check_empty)
    out.append('Definition watch_unregistered_resp : Z := %d.' % w_unreg)
    out.append('Definition watch_empty_resp : Z := %d.' % w_empty)
    out.append('Definition watch_first_completed : bool := %s.' % b(first))
    out.append('Definition reset_when_absent_or_done : bool := %s.' % b(absent_or_done))
    out.append('Definition reset_clears_then_waits : bool := %s.' % b(clears))
    out.append('Definition default_check_ttl : Z := %d.' % ttl)
    out.append('Definition default_check_timeout : Z := %d.' % tmo)
    out.append('Definition ttl_cmp : Z := %d.   (* elapsed <op> ttl returns the cached value: 0 "<", 1 "<=", 2 ">", 3 ">=" *)'
               % sc['ttl_cmp'])
    out.append('Definition latch_cleared_before_run : bool := %s.' % b(sc['latch_cleared']))
    out.append('Definition latch_set_in_finally : bool := %s.' % b(sc['latch_set_finally']))
    out.append('Definition func_guarded : bool := %s.   (* await self._func() inside a fresh started DeadlineWrapper *)'
               % b(sc['guarded']))
    out.append('Definition nonbool_is_type_error : bool := %s.' % b(sc['typeguard']))
    out.append('Definition check_failure_value : Z := %d.' % sc['fail_value'])
    out.append('Definition check_notifies_on_change : bool := %s.' % b(sc['notify']))
    out.append('Definition set_notifies_on_change : bool := %s.' % b(set_notify))
    out.append('Definition subscribe_starts_poll_when_none : bool := %s.' % b(starts_when_none))
    out.append('Definition poll_cleared_before_await : bool := %s.   (* __unsubscribe__ forgets the poll task before it '
               'suspends in `await task` *)' % b(cleared_before_await))
    return '\n'.join(out) + '\n'


if __name__ == '__main__':
    import sys
    sys.stdout.write(generate(os.environ.get('VERIF_REPO', '/repo')))
