#!/usr/bin/env python3
"""Regenerate the tables between <!-- STATUS-BEGIN --> and <!-- STATUS-END --> in DESIGN.md from the
evidence files, the claims and the seeded-change records (development aid; not part of any check)."""
import glob
import json
import os
import re

VERIF = os.path.dirname(os.path.dirname(os.path.abspath(__file__)))


def main():
    out = []
    out.append('### 19.1 Per property (from the last quick run of each check on the unchanged tree)\n')
    out.append('| id | theorems (discharged/obligations) | cases | distinct | model-vs-code traces | disagreements | '
               'known findings seen | axioms | label |')
    out.append('|---|---|---|---|---|---|---|---|---|')
    for f in sorted(glob.glob(os.path.join(VERIF, 'evidence', 'C*.json'))):
        e = json.load(open(f))
        c = e['coverage']
        ax = [t for t in c.get('trusted_base', []) if t.startswith('axioms reported')]
        ax = ax[0].split(':', 1)[1].strip() if ax else '?'
        if len(ax) > 60:
            ax = 'std-lib Reals/classical (4, see section 14)'
        out.append('| %s | %s/%s | %s | %s | %s | %s | %s | %s | %s |' % (
            e['property_id'], c.get('discharged', c.get('obligations_discharged')),
            c.get('obligations', c.get('obligations_total')), c.get('evaluations'),
            c.get('distinct_nontrivial'), c.get('traces_validated_against_impl'),
            c.get('disagreements_checked'), ', '.join(sorted(c.get('known_findings_seen', {}))) or '-',
            ax, (c.get('label') or '').split(';')[0].split('(')[0].strip()[:40]))
    out.append('')
    out.append('### 19.2 Seeded changes (written by independent agents from the property text only) and what catches them\n')
    out.append('| id | property | what the change does | needs to manifest | caught by | failing input replayed |')
    out.append('|---|---|---|---|---|---|')
    for d in sorted(glob.glob(os.path.join(VERIF, 'seeded', '*'))):
        try:
            m = json.load(open(os.path.join(d, 'meta.json')))
        except Exception:
            continue
        v = m.get('verif', {})
        lines = v.get('check', {}).get('lines', [])
        summ = [ln for ln in lines if ' tier=' in ln]
        legs = []
        if summ:
            mm = re.search(r'disagreements=(\d+) oracle_failures=(\d+) \(known (\d+)\)', summ[0])
            if mm:
                if int(mm.group(1)):
                    legs.append('correspondence (%s)' % mm.group(1))
                if int(mm.group(2)) - int(mm.group(3)) > 0:
                    legs.append('oracle (%d)' % (int(mm.group(2)) - int(mm.group(3))))
            mt = re.search(r'theorems=(\d+)/(\d+)', summ[0])
            if mt and mt.group(1) != mt.group(2):
                legs.append('proof leg')
        name = os.path.basename(d)

        def cell(x):
            return str(x).replace('|', '/').replace('\n', ' ')[:160]
        out.append('| %s | %s | %s | %s | %s | %s |' % (
            name, v.get('property', m.get('property')), cell(m.get('summary', '')),
            cell(m.get('needs_to_manifest', '')),
            (', '.join(legs) or ('-' if not v.get('detected') else 'tie')) + (' [%s]' % v.get('check', {}).get('mode', '')),
            'yes' if v.get('failing_input_found') else ('no-failing-input-found' if v.get('detected') else 'MISSED')))
    out.append('')
    out.append('### 19.3 Behaviour-preserving rewrites (section 20): every registered check, all legs, against each patch\n')
    out.append('| id | written for | what the rewrite does | checks run | pass | tie broken, no failing input (which) | '
               'alarm with failing input |')
    out.append('|---|---|---|---|---|---|---|')
    tot = [0, 0, 0, 0]
    for d in sorted(glob.glob(os.path.join(VERIF, 'harmless', '*'))):
        try:
            m = json.load(open(os.path.join(d, 'meta.json')))
        except Exception:
            m = {}
        try:
            r = json.load(open(os.path.join(d, 'result.json')))
        except Exception:
            continue
        runs = r.get('runs', {})
        ok = [k for k, v in runs.items() if v.get('rc') == 0]
        tie = [k for k, v in runs.items() if v.get('rc') == 1 and not v.get('with_failing_input')]
        alarm = [k for k, v in runs.items() if v.get('rc') == 1 and v.get('with_failing_input')]
        other = [k for k, v in runs.items() if v.get('rc') not in (0, 1)]
        tot[0] += len(runs); tot[1] += len(ok); tot[2] += len(tie); tot[3] += len(alarm) + len(other)
        out.append('| %s | %s | %s | %d | %d | %s | %s |' % (
            os.path.basename(d), m.get('property', ''), str(m.get('summary', '')).replace('|', '/').replace('\n', ' ')[:150],
            len(runs), len(ok), ', '.join(sorted(tie)) or '-', ', '.join(sorted(alarm + other)) or '-'))
    out.append('| **total** | | | %d | %d | %d | %d |' % tuple(tot))
    text = '\n'.join(out) + '\n'
    p = os.path.join(VERIF, 'DESIGN.md')
    s = open(p).read()
    if '<!-- STATUS-BEGIN -->' not in s:
        s += '\n## 19. Status tables (generated by tools/gen_status.py)\n<!-- STATUS-BEGIN -->\n<!-- STATUS-END -->\n'
    s = re.sub(r'<!-- STATUS-BEGIN -->.*<!-- STATUS-END -->', lambda _: '<!-- STATUS-BEGIN -->\n' + text + '<!-- STATUS-END -->',
               s, flags=re.S)
    open(p, 'w').write(s)
    print('DESIGN.md status tables regenerated')


if __name__ == '__main__':
    main()
