"""facts_C18.py -- per-property translator of C18 (run by tools/regen.py -> coq/Gen/FactsC18.v).

Only the Python `ast` is used; every shape that is not recognised raises Unsupported (fail-closed:
regen.py then removes Gen/FactsC18.v, so exactly the C18 proofs stop compiling).

Emitted tables
  dispatch_bases    (dispatch class, its base classes)                         grpclib/events.py
  hook_methods      every `@_dispatches(Event) async def m(self, <positional>, *, <kw-only>)` whose body
                    is `return await self.__dispatch__(Event(k=v, ...))`        grpclib/events.py
  dispatch_targets  `self.__dispatch__ = _DispatchXEvents()` in Channel / Server
  hook_sites        every call `<self._dispatch|dispatch>.<hook>(...)` in client.py / server.py with
                    the names its awaited result is bound to and, per bound name, how the code that
                    follows consumes it (enclosing calls, `return`, `assign:<target>`, `invoke`).
"""
import ast
import os

from extract_facts import Unsupported, parse, class_node, zs

DISPATCH_EXPRS = ('self._dispatch', 'dispatch')
USE_FILES = [('grpclib/client.py', 'Channel'), ('grpclib/server.py', 'Server')]


def comment(text):
    """source text quoted inside a Coq comment must not open or close one"""
    return text.replace('(*', '( *').replace('*)', '* )').replace('"', "'")


def zsl(names):
    return '[' + '; '.join(zs(n) for n in names) + ']'


# ------------------------------------------------------------------------------------------------
# events.py

def dispatch_classes(tree):
    """classes deriving (transitively) from _Dispatch, in source order: (name, bases, node)"""
    known = {'_Dispatch'}
    out = []
    for n in tree.body:
        if isinstance(n, ast.ClassDef):
            bases = [ast.unparse(b) for b in n.bases]
            if any(b in known for b in bases):
                if not all(b in known for b in bases):
                    raise Unsupported('dispatch class %s mixes foreign bases %r' % (n.name, bases))
                known.add(n.name)
                out.append((n.name, bases, n))
    if not out:
        raise Unsupported('no _Dispatch subclasses')
    return out


def hook_method(cls, fn):
    if not isinstance(fn, ast.AsyncFunctionDef):
        raise Unsupported('%s.%s: @_dispatches on a non-coroutine' % (cls, fn.name))
    if len(fn.decorator_list) != 1:
        raise Unsupported('%s.%s: decorators' % (cls, fn.name))
    d = fn.decorator_list[0]
    if not (isinstance(d, ast.Call) and isinstance(d.func, ast.Name) and d.func.id == '_dispatches'
            and len(d.args) == 1 and isinstance(d.args[0], ast.Name) and not d.keywords):
        raise Unsupported('%s.%s: decorator shape' % (cls, fn.name))
    event = d.args[0].id
    a = fn.args
    if a.posonlyargs or a.vararg or a.kwarg or a.defaults or any(x is not None for x in a.kw_defaults):
        raise Unsupported('%s.%s: signature' % (cls, fn.name))
    if not a.args or a.args[0].arg != 'self':
        raise Unsupported('%s.%s: self' % (cls, fn.name))
    pos = [x.arg for x in a.args[1:]]
    kwonly = [x.arg for x in a.kwonlyargs]
    body = [s for s in fn.body if not (isinstance(s, ast.Expr) and isinstance(s.value, ast.Constant))]
    if len(body) != 1 or not isinstance(body[0], ast.Return) or not isinstance(body[0].value, ast.Await):
        raise Unsupported('%s.%s: body is not a single `return await ...`' % (cls, fn.name))
    call = body[0].value.value
    if not (isinstance(call, ast.Call) and ast.unparse(call.func) == 'self.__dispatch__'
            and len(call.args) == 1 and not call.keywords):
        raise Unsupported('%s.%s: not self.__dispatch__(<event>)' % (cls, fn.name))
    ctor = call.args[0]
    if not (isinstance(ctor, ast.Call) and isinstance(ctor.func, ast.Name) and not ctor.args):
        raise Unsupported('%s.%s: event constructor shape' % (cls, fn.name))
    if ctor.func.id != event:
        raise Unsupported('%s.%s: dispatches %s but constructs %s' % (cls, fn.name, event, ctor.func.id))
    kws = []
    for k in ctor.keywords:
        if k.arg is None or not isinstance(k.value, ast.Name):
            raise Unsupported('%s.%s: constructor keyword' % (cls, fn.name))
        kws.append((k.arg, k.value.id))
    return (cls, fn.name, event, pos, kwonly, kws)


def hooks_of(tree):
    rows, bases = [], []
    for name, bs, node in dispatch_classes(tree):
        bases.append((name, bs))
        for s in node.body:
            if isinstance(s, (ast.FunctionDef, ast.AsyncFunctionDef)) and s.decorator_list:
                if any('_dispatches' in ast.unparse(d) for d in s.decorator_list):
                    rows.append(hook_method(name, s))
                else:
                    raise Unsupported('%s.%s: unknown decorator' % (name, s.name))
            elif isinstance(s, (ast.FunctionDef, ast.AsyncFunctionDef)):
                raise Unsupported('%s.%s: undecorated method in a dispatch class' % (name, s.name))
    return bases, rows


# ------------------------------------------------------------------------------------------------
# client.py / server.py

def set_parents(tree):
    for p in ast.walk(tree):
        for c in ast.iter_child_nodes(p):
            c._parent = p


def enclosing(node, kinds):
    n = getattr(node, '_parent', None)
    while n is not None and not isinstance(n, kinds):
        n = getattr(n, '_parent', None)
    return n


def qualname(fn):
    parts = [fn.name]
    n = getattr(fn, '_parent', None)
    while n is not None:
        if isinstance(n, (ast.ClassDef, ast.FunctionDef, ast.AsyncFunctionDef)):
            parts.append(n.name)
        n = getattr(n, '_parent', None)
    return '.'.join(reversed(parts))


def pos_of(n):
    return (n.lineno, n.col_offset)


def consumer_tags(node):
    """how the value read at `node` is consumed by the statement it occurs in"""
    tags = []
    child, n = node, node._parent
    while not isinstance(n, ast.stmt):
        if isinstance(n, ast.Call):
            if child is n.func:
                tags.append('invoke')
            else:
                tags.append('call:' + ast.unparse(n.func))
        child, n = n, n._parent
    if isinstance(n, ast.Return):
        tags.append('return')
    elif isinstance(n, ast.Assign) and child is n.value:
        for t in n.targets:
            tags.append('assign:' + ast.unparse(t))
    elif isinstance(n, (ast.AnnAssign, ast.AugAssign)) and child is n.value:
        tags.append('assign:' + ast.unparse(n.target))
    return tags


def later_uses(fn, stmt, target):
    """reads of `target` (a Name, or an Attribute of a Name) in `fn` lexically after `stmt`, up to
    the next re-binding of the name"""
    end = (stmt.end_lineno, stmt.end_col_offset)
    if isinstance(target, ast.Name):
        base, attr_src = target.id, None
    elif isinstance(target, ast.Attribute) and isinstance(target.value, ast.Name):
        base, attr_src = target.value.id, ast.unparse(target)
    else:
        raise Unsupported('hook result bound to ' + ast.unparse(target))
    names = sorted((n for n in ast.walk(fn) if isinstance(n, ast.Name) and n.id == base
                    and pos_of(n) >= end), key=pos_of)
    uses = []
    for n in names:
        if isinstance(n.ctx, ast.Store):
            break
        if not isinstance(n.ctx, ast.Load):
            continue
        par = n._parent
        if attr_src is None:
            uses.append(consumer_tags(n))
        elif isinstance(par, ast.Attribute) and par.value is n:
            if ast.unparse(par) == attr_src:
                if isinstance(par.ctx, ast.Store):
                    break
                uses.append(consumer_tags(par))
            # another attribute of the same object: not a use of the bound one
        else:
            uses.append(consumer_tags(n))      # the object itself escapes (e.g. passed to the handler)
    return uses


def sites_of(tree, rel):
    set_parents(tree)
    rows = []
    for call in ast.walk(tree):
        if not (isinstance(call, ast.Call) and isinstance(call.func, ast.Attribute)
                and ast.unparse(call.func.value) in DISPATCH_EXPRS):
            continue
        hook = call.func.attr
        if hook in ('add_listener',):
            continue
        fn = enclosing(call, (ast.FunctionDef, ast.AsyncFunctionDef))
        if fn is None:
            raise Unsupported('%s: hook call outside a function' % rel)
        if any(isinstance(a, ast.Starred) for a in call.args) or any(k.arg is None for k in call.keywords):
            raise Unsupported('%s:%d: starred hook arguments' % (rel, call.lineno))
        par = call._parent
        if not isinstance(par, ast.Await):
            raise Unsupported('%s:%d: hook %s is not awaited' % (rel, call.lineno, hook))
        stmt = par._parent
        destructured, targets = False, []
        if isinstance(stmt, ast.Assign) and stmt.value is par and len(stmt.targets) == 1:
            t = stmt.targets[0]
            if isinstance(t, (ast.Tuple, ast.List)):
                destructured = True
                targets = list(t.elts)
            else:
                targets = [t]
        elif isinstance(stmt, ast.Expr) and stmt.value is par:
            targets = []                      # result dropped: recorded, the Coq lemma refuses it
        else:
            raise Unsupported('%s:%d: hook result used in an unrecognised statement: %s'
                              % (rel, call.lineno, ast.unparse(stmt)[:80]))
        rows.append({
            'file': rel, 'line': call.lineno, 'func': qualname(fn), 'hook': hook,
            'pos': [ast.unparse(a) for a in call.args],
            'kw': [k.arg for k in call.keywords],
            'destructured': destructured,
            'targets': [(ast.unparse(t), later_uses(fn, stmt, t)) for t in targets],
        })
    rows.sort(key=lambda r: r['line'])
    return rows


def dispatch_target(tree, rel, cls):
    node = class_node(tree, cls)
    found = []
    for s in ast.walk(node):
        if isinstance(s, ast.Assign) and any(ast.unparse(t) == 'self.__dispatch__' for t in s.targets):
            v = s.value
            if not (isinstance(v, ast.Call) and isinstance(v.func, ast.Name) and not v.args
                    and not v.keywords):
                raise Unsupported('%s: %s.__dispatch__ value' % (rel, cls))
            found.append(v.func.id)
    if len(found) != 1:
        raise Unsupported('%s: %s assigns __dispatch__ %d times' % (rel, cls, len(found)))
    return found[0]


# ------------------------------------------------------------------------------------------------

def tables(repo):
    ev = parse(repo, 'grpclib/events.py')
    bases, hooks = hooks_of(ev)
    targets, sites = [], []
    for rel, cls in USE_FILES:
        tree = parse(repo, rel)
        targets.append((os.path.basename(rel), cls, dispatch_target(tree, rel, cls)))
        sites += sites_of(tree, os.path.basename(rel))
    return bases, hooks, targets, sites


def generate(repo):
    bases, hooks, targets, sites = tables(repo)
    L = []
    add = L.append
    add('(* GENERATED by tools/facts_C18.py from %s -- do not edit; rewritten on every run *)' % repo)
    add('From Coq Require Import ZArith List.')
    add('Import ListNotations.')
    add('Open Scope Z_scope.')
    add('')
    add('(* grpclib/events.py: dispatch classes and their bases *)')
    add('Definition dispatch_bases : list (list Z * list (list Z)) := [')
    add(';\n'.join('  (%s, %s)' % (zs(n), zsl(bs)) for n, bs in bases))
    add('].   (* %s *)' % '; '.join('%s(%s)' % (n, ', '.join(bs)) for n, bs in bases))
    add('')
    add('(* grpclib/events.py: (dispatch class, method, event class, positional parameters, keyword-only')
    add('   parameters, keywords of the event constructor call as (field, argument name)) *)')
    add('Definition hook_methods : list (list Z * list Z * list Z * list (list Z) * list (list Z) *')
    add('                                list (list Z * list Z)) := [')
    rows = []
    for cls, m, e, pos, kw, ctor in hooks:
        rows.append('  (* %s.%s -> %s(%s) *)\n  (%s, %s, %s, %s, %s, [%s])' % (
            cls, m, e, ', '.join(pos + ['*'] + kw if kw else pos), zs(cls), zs(m), zs(e), zsl(pos),
            zsl(kw), '; '.join('(%s, %s)' % (zs(k), zs(v)) for k, v in ctor)))
    add(';\n'.join(rows))
    add('].')
    add('')
    add('(* (file, class, dispatch class instantiated as self.__dispatch__) *)')
    add('Definition dispatch_targets : list (list Z * list Z * list Z) := [%s].   (* %s *)' % (
        '; '.join('(%s, %s, %s)' % (zs(f), zs(c), zs(d)) for f, c, d in targets),
        '; '.join('%s:%s=%s' % t for t in targets)))
    add('')
    add('(* every hook call of client.py / server.py: (file, function, hook, positional arguments,')
    add('   keyword names, result destructured by a tuple target, [(bound target, [consumer tags of each')
    add('   later read])]) *)')
    add('Definition hook_sites : list (list Z * list Z * list Z * list (list Z) * list (list Z) * bool *')
    add('                              list (list Z * list (list (list Z)))) := [')
    rows = []
    for s in sites:
        tg = '; '.join('(%s, [%s])' % (zs(t), '; '.join(zsl(u) for u in uses)) for t, uses in s['targets'])
        rows.append('  (* %s *)\n  (%s, %s, %s, %s, %s, %s, [%s])' % (comment(
            '%s:%d %s: %s = await ...%s(%s) ; uses: %s' % (s['file'], s['line'], s['func'], ', '.join(t for t, _ in s['targets']) or '<dropped>',
            s['hook'], ', '.join(s['pos'] + [k + '=' for k in s['kw']]),
            ' | '.join('%s -> %s' % (t, ' , '.join('+'.join(u) or 'bare' for u in uses) or 'NONE')
                       for t, uses in s['targets']))),
            zs(s['file']), zs(s['func']), zs(s['hook']), zsl(s['pos']), zsl(s['kw']),
            'true' if s['destructured'] else 'false', tg))
    add(';\n'.join(rows))
    add('].')
    add('')
    return '\n'.join(L) + '\n'


if __name__ == '__main__':
    import sys
    sys.stdout.write(generate(os.environ.get('VERIF_REPO', '/repo')))
