"""facts_C18.py -- per-property translator of C18 (run by tools/regen.py -> coq/Gen/FactsC18.v).

Only the Python `ast` is used; every shape that is not recognised raises Unsupported (fail-closed:
regen.py then removes Gen/FactsC18.v, so exactly the C18 proofs stop compiling).

Emitted tables
  dispatch_bases    (dispatch class, its base classes)                         grpclib/events.py
  hook_methods      every `@_dispatches(Event) async def m(self, <positional>, *, <kw-only>)` whose body
                    is `return await self.__dispatch__(Event(k=v, ...))`        grpclib/events.py
  dispatch_targets  `self.__dispatch__ = _DispatchXEvents()` in Channel / Server
  hook_sites        every call `<self._dispatch|dispatch>.<hook>(...)` in client.py / server.py with
                    the names its awaited result is bound to and, per bound name, how the code that
                    follows consumes it (enclosing calls, `return`, `assign:<target>`, `invoke`).
"""
import ast
import os
import re

from extract_facts import Unsupported, parse, class_node, zs

DISPATCH_EXPRS = ('self._dispatch', 'dispatch')
USE_FILES = [('grpclib/client.py', 'Channel'), ('grpclib/server.py', 'Server')]


def comment(text):
    """source text quoted inside a Coq comment must not open or close one"""
    return text.replace('(*', '( *').replace('*)', '* )').replace('"', "'")


def zsl(names):
    return '[' + '; '.join(zs(n) for n in names) + ']'


# ------------------------------------------------------------------------------------------------
# the hook methods: facts about VALUES, read from the imported package (in a subprocess, so that the
# package under examination never enters this process), not from the spelling of events.py:
#   * the dispatch object is what `listen()` uses: <Channel|Server instance>.__dispatch__
#   * its hooks are its class's __dispatch_methods__ (event class -> method name)
#   * positional / keyword-only parameters from inspect.signature
#   * which parameter ends up in which event field: observed by calling the hook with one sentinel
#     per parameter while a probing listener is registered and reading every slot of the event

PROBE = r"""
import asyncio, inspect, json, sys
from grpclib import events
from grpclib.client import Channel
from grpclib.server import Server

def drive(coro):
    try:
        coro.send(None)
    except StopIteration as e:
        return e.value
    coro.close()
    raise RuntimeError('hook suspended')

loop = asyncio.new_event_loop()
asyncio.set_event_loop(loop)
out = {'targets': [], 'hooks': []}
for fname, cls, make in (('client.py', 'Channel', lambda: Channel()), ('server.py', 'Server', lambda: Server([]))):
    target = make()
    d = target.__dispatch__
    dcls = type(d).__name__
    out['targets'].append([fname, cls, dcls])
    out.setdefault('mro', []).extend(c.__name__ for c in type(d).__mro__[:-1])
    table = type(d).__dispatch_methods__
    if not isinstance(table, dict) or not table:
        raise RuntimeError('no __dispatch_methods__')
    for ev, meth in table.items():
        fn = getattr(type(d), meth)
        if not inspect.iscoroutinefunction(fn):
            raise RuntimeError('%s.%s is not a coroutine function' % (dcls, meth))
        sig = inspect.signature(fn)
        pos, kw = [], []
        for prm in list(sig.parameters.values())[1:]:
            if prm.default is not prm.empty:
                raise RuntimeError('%s.%s: default value' % (dcls, meth))
            if prm.kind == prm.POSITIONAL_OR_KEYWORD:
                pos.append(prm.name)
            elif prm.kind == prm.KEYWORD_ONLY:
                kw.append(prm.name)
            else:
                raise RuntimeError('%s.%s: parameter kind of %s' % (dcls, meth, prm.name))
        sent = {n: object() for n in pos + kw}
        seen = {}

        async def probe(event, seen=seen):
            seen['cls'] = type(event).__name__
            for slot in type(event).__slots__:
                seen.setdefault('slots', []).append([slot, getattr(event, slot)])
        events.listen(target, ev, probe)
        ret = drive(getattr(d, meth)(*[sent[n] for n in pos], **{n: sent[n] for n in kw}))
        if seen.get('cls') != ev.__name__:
            raise RuntimeError('%s.%s does not dispatch %s' % (dcls, meth, ev.__name__))
        ctor = []
        for slot, val in seen['slots']:
            who = [n for n, o in sent.items() if o is val]
            if len(who) != 1:
                raise RuntimeError('%s.%s: field %s does not hold exactly one parameter' % (dcls, meth, slot))
            ctor.append([slot, who[0]])
        out['hooks'].append([dcls, meth, ev.__name__, pos, kw, ctor])
loop.close()
json.dump(out, sys.stdout)
"""


def hooks_by_value(repo):
    import json
    import subprocess
    import sys
    env = dict(os.environ, PYTHONPATH=repo, PYTHONHASHSEED='0', PYTHONDONTWRITEBYTECODE='1')
    p = subprocess.run([sys.executable, '-W', 'ignore', '-c', PROBE], env=env, stdout=subprocess.PIPE,
                       stderr=subprocess.PIPE, timeout=120, cwd=repo)
    if p.returncode:
        raise Unsupported('probing the hook methods failed: ' + p.stderr.decode('utf-8', 'replace')[-400:])
    data = json.loads(p.stdout.decode())
    hooks = [tuple([h[0], h[1], h[2], h[3], h[4], [tuple(x) for x in h[5]]]) for h in data['hooks']]
    targets = [tuple(t) for t in data['targets']]
    bases = []
    for _, _, d in targets:
        if (d, []) not in bases:
            bases.append((d, []))
    return bases, hooks, targets, sorted(set(data['mro']))


# ------------------------------------------------------------------------------------------------
# client.py / server.py: the hook call sites and what happens to their results.  This part is about
# the data flow of the source, so it is read from the ast -- but by role, not by spelling:
#   * the receiver of a hook call is any expression that holds the dispatch object: a parameter whose
#     annotation names a dispatch class, an attribute such a parameter was stored in, a local alias
#   * the result may be destructured at once, or bound to a temporary that is destructured / indexed
#   * a bound name is followed through plain copies (`x = name`), and through the `return` of a private
#     helper into the callers of that helper
#   * consumers are named after what they ARE: the imported function (import aliases resolved), the
#     public attribute stored into, `return`, `invoke`, or "@k" = the k-th name bound by the same site

FOLLOW_DEPTH = 4


def set_parents(tree):
    for p in ast.walk(tree):
        for c in ast.iter_child_nodes(p):
            c._parent = p


def enclosing(node, kinds):
    n = getattr(node, '_parent', None)
    while n is not None and not isinstance(n, kinds):
        n = getattr(n, '_parent', None)
    return n


FUNCS = (ast.FunctionDef, ast.AsyncFunctionDef)


def qualname(fn):
    parts = [fn.name]
    n = getattr(fn, '_parent', None)
    while n is not None:
        if isinstance(n, (ast.ClassDef,) + FUNCS):
            parts.append(n.name)
        n = getattr(n, '_parent', None)
    return '.'.join(reversed(parts))


def pos_of(n):
    return (n.lineno, n.col_offset)


def import_aliases(tree):
    out = {}
    for n in ast.walk(tree):
        if isinstance(n, ast.ImportFrom):
            for a in n.names:
                if a.asname:
                    out[a.asname] = a.name
    return out


def dispatch_exprs(tree, dispatch_classes):
    """source text of the expressions that hold a dispatch object, per enclosing function (None = any)"""
    holders = set()           # 'self.<attr>' spelled anywhere in a class
    params = {}               # function node -> {parameter names}
    for fn in ast.walk(tree):
        if isinstance(fn, FUNCS):
            for a in fn.args.args + fn.args.kwonlyargs:
                if a.annotation is not None:
                    words = set(re.findall(r'[A-Za-z_][A-Za-z0-9_]*', ast.unparse(a.annotation)))
                    if words & set(dispatch_classes):
                        params.setdefault(fn, set()).add(a.arg)
                elif 'dispatch' in a.arg.lower():          # annotations stripped: fall back to the name
                    params.setdefault(fn, set()).add(a.arg)
    for fn, names in params.items():
        for n in ast.walk(fn):
            if isinstance(n, ast.Assign) and isinstance(n.value, ast.Name) and n.value.id in names:
                for t in n.targets:
                    if isinstance(t, ast.Attribute):
                        holders.add(ast.unparse(t))
    return holders, params


def is_dispatch_receiver(expr, fn, holders, params, depth=0):
    src = ast.unparse(expr)
    if src in holders:
        return True
    f = fn
    while f is not None:
        if isinstance(expr, ast.Name) and expr.id in params.get(f, ()):
            return True
        f = enclosing(f, FUNCS)
    if isinstance(expr, ast.Name) and depth < 3 and fn is not None:
        # a local alias: every binding of the name in this function is a dispatch holder
        binds = [n for n in ast.walk(fn) if isinstance(n, ast.Assign)
                 and any(isinstance(t, ast.Name) and t.id == expr.id for t in n.targets)]
        return bool(binds) and all(is_dispatch_receiver(b.value, fn, holders, params, depth + 1) for b in binds)
    return False


class Ctx:
    def __init__(self, tree, rel):
        self.tree, self.rel = tree, rel
        self.aliases = import_aliases(tree)


def func_label(ctx, f, site_targets):
    if isinstance(f, ast.Name):
        if f.id in site_targets:
            return '@%d' % site_targets.index(f.id)
        return ctx.aliases.get(f.id, f.id)
    return ast.unparse(f)


def consumer_tags(ctx, node, site_targets):
    """how the value read at `node` is consumed by the statement it occurs in; also returns the statement"""
    tags = []
    child, n = node, node._parent
    while not isinstance(n, ast.stmt):
        if isinstance(n, ast.Call):
            if child is n.func:
                tags.append('invoke')
            else:
                tags.append('call:' + func_label(ctx, n.func, site_targets))
        child, n = n, n._parent
    if isinstance(n, ast.Return):
        tags.append('return')
    elif isinstance(n, ast.Assign) and child is n.value:
        for t in n.targets:
            tags.append('assign:' + ast.unparse(t))
    elif isinstance(n, (ast.AnnAssign, ast.AugAssign)) and child is n.value:
        tags.append('assign:' + ast.unparse(n.target))
    return tags, n, child


def callers_of(ctx, fn):
    """statements `T = await <x>.fn(...)` / `return await <x>.fn(...)` for a private helper fn"""
    out = []
    for call in ast.walk(ctx.tree):
        if isinstance(call, ast.Call) and (
                (isinstance(call.func, ast.Attribute) and call.func.attr == fn.name) or
                (isinstance(call.func, ast.Name) and call.func.id == fn.name)):
            node = call._parent if isinstance(call._parent, ast.Await) else call
            out.append(node)
    return out


def uses_after(ctx, fn, after, target, site_targets, depth=0):
    """reads of `target` (Name, or Attribute of a Name) in `fn` lexically after position `after`, up to
    the next re-binding; plain copies and returns of private helpers are followed"""
    if isinstance(target, ast.Name):
        base, attr_src = target.id, None
    elif isinstance(target, ast.Attribute) and isinstance(target.value, ast.Name):
        base, attr_src = target.value.id, ast.unparse(target)
    else:
        raise Unsupported('hook result bound to ' + ast.unparse(target))
    names = sorted((n for n in ast.walk(fn) if isinstance(n, ast.Name) and n.id == base
                    and pos_of(n) >= after), key=pos_of)
    uses = []

    def record(node):
        tags, stmt, child = consumer_tags(ctx, node, site_targets)
        uses.append(tags)
        if depth >= FOLLOW_DEPTH:
            return
        # x = <name>   (a plain copy): what happens to x happens to the value
        if isinstance(stmt, ast.Assign) and stmt.value is node and len(stmt.targets) == 1 and \
                isinstance(stmt.targets[0], ast.Name):
            uses.extend(uses_after(ctx, fn, (stmt.end_lineno, stmt.end_col_offset), stmt.targets[0],
                                   site_targets, depth + 1))
        # return <name> from a private helper: the callers' bindings carry the value on
        if isinstance(stmt, ast.Return) and stmt.value is node and fn.name.startswith('_') and \
                not fn.name.startswith('__'):
            for c in callers_of(ctx, fn):
                cfn = enclosing(c, FUNCS)
                cst = c._parent
                if cfn is None:
                    continue
                if isinstance(cst, ast.Return):
                    uses.append(['return'])
                elif isinstance(cst, ast.Assign) and cst.value is c and len(cst.targets) == 1 and \
                        isinstance(cst.targets[0], (ast.Name, ast.Attribute)):
                    t = cst.targets[0]
                    uses.append(['assign:' + ast.unparse(t)])
                    if isinstance(t, ast.Name) or isinstance(t.value, ast.Name):
                        uses.extend(uses_after(ctx, cfn, (cst.end_lineno, cst.end_col_offset), t,
                                               site_targets, depth + 1))
    for n in names:
        if isinstance(n.ctx, ast.Store):
            break
        if not isinstance(n.ctx, ast.Load):
            continue
        par = n._parent
        if attr_src is None:
            record(n)
        elif isinstance(par, ast.Attribute) and par.value is n:
            if ast.unparse(par) == attr_src:
                if isinstance(par.ctx, ast.Store):
                    break
                record(par)
            # another attribute of the same object: not a use of the bound one
        else:
            record(n)      # the object itself escapes (e.g. it is handed to the handler)
    return uses


def bound_targets(fn, stmt, await_node):
    """(destructured, [target nodes], position after which the targets are live)"""
    end = (stmt.end_lineno, stmt.end_col_offset)
    if isinstance(stmt, ast.Expr) and stmt.value is await_node:
        return False, [], end                                   # result dropped
    if not (isinstance(stmt, ast.Assign) and len(stmt.targets) == 1):
        raise Unsupported('hook result used in an unrecognised statement: ' + ast.unparse(stmt)[:80])
    t = stmt.targets[0]
    if stmt.value is await_node:
        if isinstance(t, (ast.Tuple, ast.List)):
            return True, list(t.elts), end
        if isinstance(t, ast.Name):
            # a temporary holding the tuple: `a, b = tmp` or tmp[0], tmp[1] ... afterwards
            loads = sorted((n for n in ast.walk(fn) if isinstance(n, ast.Name) and n.id == t.id
                            and isinstance(n.ctx, ast.Load) and pos_of(n) >= end), key=pos_of)
            if len(loads) == 1:
                st = loads[0]._parent
                if isinstance(st, ast.Assign) and st.value is loads[0] and len(st.targets) == 1 and \
                        isinstance(st.targets[0], (ast.Tuple, ast.List)):
                    return True, list(st.targets[0].elts), (st.end_lineno, st.end_col_offset)
            idx = {}
            for n in loads:
                sub = n._parent
                if isinstance(sub, ast.Subscript) and sub.value is n and isinstance(sub.slice, ast.Constant) \
                        and isinstance(sub.slice.value, int):
                    idx.setdefault(sub.slice.value, []).append(sub)
                else:
                    return False, [t], end
            if idx and sorted(idx) == list(range(len(idx))):
                return True, [idx[k] for k in sorted(idx)], end     # lists of Subscript reads
        return False, [t], end
    # message = (await hook(message))[0]
    v = stmt.value
    if isinstance(v, ast.Subscript) and v.value is await_node and isinstance(v.slice, ast.Constant) \
            and v.slice.value == 0 and isinstance(t, (ast.Name, ast.Attribute)):
        return True, [t], end
    raise Unsupported('hook result used in an unrecognised statement: ' + ast.unparse(stmt)[:80])


def sites_of(tree, rel, hook_names, dispatch_classes):
    set_parents(tree)
    ctx = Ctx(tree, rel)
    holders, params = dispatch_exprs(tree, dispatch_classes)
    if not holders and not params:
        raise Unsupported('%s: nothing holds a dispatch object' % rel)
    rows = []
    for call in ast.walk(tree):
        if not (isinstance(call, ast.Call) and isinstance(call.func, ast.Attribute)):
            continue
        fn = enclosing(call, FUNCS)
        if not is_dispatch_receiver(call.func.value, fn, holders, params):
            continue
        hook = call.func.attr
        if hook not in hook_names:
            continue                       # add_listener and the like: not an event hook
        if fn is None:
            raise Unsupported('%s: hook call outside a function' % rel)
        if any(isinstance(a, ast.Starred) for a in call.args) or any(k.arg is None for k in call.keywords):
            raise Unsupported('%s:%d: starred hook arguments' % (rel, call.lineno))
        par = call._parent
        if not isinstance(par, ast.Await):
            raise Unsupported('%s:%d: hook %s is not awaited' % (rel, call.lineno, hook))
        node = par
        stmt = node._parent
        while not isinstance(stmt, ast.stmt):
            stmt = stmt._parent
        try:
            destructured, targets, after = bound_targets(fn, stmt, par)
        except Unsupported as e:
            raise Unsupported('%s:%d: %s' % (rel, call.lineno, e))
        names = [t.id if isinstance(t, ast.Name) else None for t in targets if not isinstance(t, list)]
        trows = []
        for k, t in enumerate(targets):
            if isinstance(t, list):            # tmp[k] reads
                uses = []
                for sub in t:
                    tags, st, _ = consumer_tags(ctx, sub, [])
                    uses.append(tags)
                    if isinstance(st, ast.Assign) and st.value is sub and len(st.targets) == 1 and \
                            isinstance(st.targets[0], ast.Name):
                        uses.extend(uses_after(ctx, fn, (st.end_lineno, st.end_col_offset), st.targets[0], []))
                trows.append(('#%d' % k, uses))
            else:
                trows.append((ast.unparse(t), uses_after(ctx, fn, after, t, names)))
        rows.append({
            'file': rel, 'line': call.lineno, 'func': qualname(fn), 'hook': hook,
            'pos': [ast.unparse(a) for a in call.args],
            'kw': [k.arg for k in call.keywords],
            'destructured': destructured,
            'targets': trows,
        })
    rows.sort(key=lambda r: r['line'])
    return rows


# ------------------------------------------------------------------------------------------------

def tables(repo):
    bases, hooks, targets, dispatch_classes = hooks_by_value(repo)
    sites = []
    for rel, cls in USE_FILES:
        tree = parse(repo, rel)
        base = os.path.basename(rel)
        mine = [d for f, c, d in targets if f == base]
        names = {h[1] for h in hooks if h[0] in mine}
        sites += sites_of(tree, base, names, dispatch_classes)
    return bases, hooks, targets, sites


def generate(repo):
    bases, hooks, targets, sites = tables(repo)
    L = []
    add = L.append
    add('(* GENERATED by tools/facts_C18.py from %s -- do not edit; rewritten on every run *)' % repo)
    add('From Coq Require Import ZArith List.')
    add('Import ListNotations.')
    add('Open Scope Z_scope.')
    add('')
    add('(* grpclib/events.py: dispatch classes and their bases *)')
    add('Definition dispatch_bases : list (list Z * list (list Z)) := [')
    add(';\n'.join('  (%s, %s)' % (zs(n), zsl(bs)) for n, bs in bases))
    add('].   (* %s *)' % '; '.join('%s(%s)' % (n, ', '.join(bs)) for n, bs in bases))
    add('')
    add('(* grpclib/events.py: (dispatch class, method, event class, positional parameters, keyword-only')
    add('   parameters, keywords of the event constructor call as (field, argument name)) *)')
    add('Definition hook_methods : list (list Z * list Z * list Z * list (list Z) * list (list Z) *')
    add('                                list (list Z * list Z)) := [')
    rows = []
    for cls, m, e, pos, kw, ctor in hooks:
        rows.append('  (* %s.%s -> %s(%s) *)\n  (%s, %s, %s, %s, %s, [%s])' % (
            cls, m, e, ', '.join(pos + ['*'] + kw if kw else pos), zs(cls), zs(m), zs(e), zsl(pos),
            zsl(kw), '; '.join('(%s, %s)' % (zs(k), zs(v)) for k, v in ctor)))
    add(';\n'.join(rows))
    add('].')
    add('')
    add('(* (file, class, dispatch class instantiated as self.__dispatch__) *)')
    add('Definition dispatch_targets : list (list Z * list Z * list Z) := [%s].   (* %s *)' % (
        '; '.join('(%s, %s, %s)' % (zs(f), zs(c), zs(d)) for f, c, d in targets),
        '; '.join('%s:%s=%s' % t for t in targets)))
    add('')
    add('(* every hook call of client.py / server.py: (file, function, hook, positional arguments,')
    add('   keyword names, result destructured by a tuple target, [(bound target, [consumer tags of each')
    add('   later read])]) *)')
    add('Definition hook_sites : list (list Z * list Z * list Z * list (list Z) * list (list Z) * bool *')
    add('                              list (list Z * list (list (list Z)))) := [')
    rows = []
    for s in sites:
        tg = '; '.join('(%s, [%s])' % (zs(t), '; '.join(zsl(u) for u in uses)) for t, uses in s['targets'])
        rows.append('  (* %s *)\n  (%s, %s, %s, %s, %s, %s, [%s])' % (comment(
            '%s:%d %s: %s = await ...%s(%s) ; uses: %s' % (s['file'], s['line'], s['func'], ', '.join(t for t, _ in s['targets']) or '<dropped>',
            s['hook'], ', '.join(s['pos'] + [k + '=' for k in s['kw']]),
            ' | '.join('%s -> %s' % (t, ' , '.join('+'.join(u) or 'bare' for u in uses) or 'NONE')
                       for t, uses in s['targets']))),
            zs(s['file']), zs(s['func']), zs(s['hook']), zsl(s['pos']), zsl(s['kw']),
            'true' if s['destructured'] else 'false', tg))
    add(';\n'.join(rows))
    add('].')
    add('')
    return '\n'.join(L) + '\n'


if __name__ == '__main__':
    import sys
    sys.stdout.write(generate(os.environ.get('VERIF_REPO', '/repo')))
