"""facts_C20.py -- structural facts of grpclib/plugin/main.py and grpclib/client.py for property C20,
copied into coq/Gen/FactsC20.v on every run.  `ast` only; fail-closed: any unrecognised shape raises.

Extracted:
  strip_suffixes        the suffix list of _strip_proto (tried in this order, first hit wins)
  base_replacements     the chain of single-character str.replace calls of _base_module_name
  pb2_suffix / grpc_suffix
  render_method_cls     the `if cardinality is const.Cardinality.X: method_cls = client.Y` chain of render
  client_method_cardinality   `_cardinality = Cardinality.X` of every client.*Method class
  route_format / qual_format / out_replace / out_suffix   literals used to build routes and file names
"""
import ast

from extract_facts import Unsupported, parse, func_node, zs


def _norm(node):
    return ast.unparse(node)


def _expect(cond, what):
    if not cond:
        raise Unsupported('C20: ' + what)


def strip_suffixes(tree):
    fn = func_node(tree, '_strip_proto')
    _expect([a.arg for a in fn.args.args] == ['proto_file_path'], '_strip_proto signature')
    body = fn.body
    _expect(len(body) == 2 and isinstance(body[0], ast.For) and isinstance(body[1], ast.Return),
            '_strip_proto body shape')
    loop = body[0]
    _expect(isinstance(loop.iter, ast.List) and all(isinstance(e, ast.Constant) and isinstance(e.value, str)
                                                     and e.value for e in loop.iter.elts),
            '_strip_proto suffix list')
    sufs = [e.value for e in loop.iter.elts]
    want = ('for suffix in %s:\n    if proto_file_path.endswith(suffix):\n'
            '        return proto_file_path[:-len(suffix)]' % _norm(loop.iter))
    _expect(_norm(loop) == want, '_strip_proto loop: ' + _norm(loop))
    _expect(_norm(body[1]) == 'return proto_file_path', '_strip_proto fallthrough')
    return sufs


def base_replacements(tree):
    fn = func_node(tree, '_base_module_name')
    _expect([a.arg for a in fn.args.args] == ['proto_file_path'], '_base_module_name signature')
    _expect(len(fn.body) == 2 and _norm(fn.body[0]) == 'basename = _strip_proto(proto_file_path)'
            and isinstance(fn.body[1], ast.Return), '_base_module_name body shape')
    e = fn.body[1].value
    repl = []
    while not (isinstance(e, ast.Name) and e.id == 'basename'):
        _expect(isinstance(e, ast.Call) and isinstance(e.func, ast.Attribute) and e.func.attr == 'replace'
                and len(e.args) == 2 and not e.keywords
                and all(isinstance(a, ast.Constant) and isinstance(a.value, str) and len(a.value) == 1
                        for a in e.args), '_base_module_name replace chain: ' + _norm(fn.body[1]))
        repl.append((e.args[0].value, e.args[1].value))
        e = e.func.value
    repl.reverse()
    return repl


def module_suffix(tree, name):
    fn = func_node(tree, name)
    _expect(len(fn.body) == 1 and isinstance(fn.body[0], ast.Return), name + ' body shape')
    e = fn.body[0].value
    _expect(isinstance(e, ast.BinOp) and isinstance(e.op, ast.Add)
            and _norm(e.left) == '_base_module_name(proto_file_path)'
            and isinstance(e.right, ast.Constant) and isinstance(e.right.value, str), name + ' expression')
    return e.right.value


def render_method_cls(tree):
    fn = func_node(tree, 'render')
    chains = []
    for node in ast.walk(fn):
        if isinstance(node, ast.If) and _norm(node.test).startswith('cardinality is '):
            chains.append(node)
    # the chain head is the one that is not the orelse of another member
    inner = {id(n.orelse[0]) for n in chains if len(n.orelse) == 1}
    heads = [n for n in chains if id(n) not in inner]
    _expect(len(heads) == 1, 'render: exactly one cardinality if-chain')
    rows, node = [], heads[0]
    while True:
        t = _norm(node.test)
        _expect(t.startswith('cardinality is const.Cardinality.'), 'render: test ' + t)
        _expect(len(node.body) == 1 and isinstance(node.body[0], ast.Assign)
                and _norm(node.body[0].targets[0]) == 'method_cls'
                and _norm(node.body[0].value).startswith('client.'), 'render: branch ' + _norm(node.body[0]))
        rows.append((t.rsplit('.', 1)[1], _norm(node.body[0].value)[len('client.'):]))
        _expect(len(node.orelse) == 1, 'render: chain end')
        nxt = node.orelse[0]
        if isinstance(nxt, ast.If):
            node = nxt
            continue
        _expect(_norm(nxt) == 'raise TypeError(cardinality)', 'render: chain fallthrough')
        break
    # how the class is used: its __name__ after `client.__name__`
    src = _norm(fn)
    _expect("buf.add('self.{} = {}.{}('.format(name, client.__name__, method_cls.__name__))" in src,
            'render: stub attribute line')
    return rows


def format_literals(tree):
    fn = func_node(tree, 'render')
    routes = [n for n in ast.walk(fn) if isinstance(n, ast.Assign) and _norm(n.targets[0]) == 'full_name']
    _expect(len(routes) == 2, 'render: two full_name assignments')
    lits = set()
    for n in routes:
        v = n.value
        _expect(isinstance(v, ast.Call) and isinstance(v.func, ast.Attribute) and v.func.attr == 'format'
                and isinstance(v.func.value, ast.Constant)
                and [_norm(a) for a in v.args] == ['service_name', 'name'] and not v.keywords,
                'render: full_name expression ' + _norm(n))
        lits.add(v.func.value.value)
    _expect(len(lits) == 1, 'render: Base and Stub use the same route format')
    quals = [n for n in ast.walk(fn) if isinstance(n, ast.If) and _norm(n.test) == 'package']
    _expect(len(quals) == 1, 'render: one `if package`')
    q = quals[0]
    _expect(len(q.body) == 1 and len(q.orelse) == 1 and _norm(q.orelse[0]) == 'service_name = service.name',
            'render: service_name without package')
    b = q.body[0]
    _expect(isinstance(b, ast.Assign) and _norm(b.targets[0]) == 'service_name'
            and isinstance(b.value, ast.Call) and isinstance(b.value.func, ast.Attribute)
            and b.value.func.attr == 'format' and isinstance(b.value.func.value, ast.Constant)
            and [_norm(a) for a in b.value.args] == ['package', 'service.name'],
            'render: service_name with package')
    return lits.pop(), b.value.func.value.value


def out_name(tree):
    fn = func_node(tree, 'main')
    hits = [n for n in ast.walk(fn) if isinstance(n, ast.Assign) and _norm(n.targets[0]) == 'file.name']
    _expect(len(hits) == 1, 'main: file.name assignment')
    v = hits[0].value
    _expect(isinstance(v, ast.BinOp) and isinstance(v.op, ast.Add) and isinstance(v.right, ast.Constant)
            and isinstance(v.left, ast.Call) and _norm(v.left.func) == 'module_name.replace'
            and all(isinstance(a, ast.Constant) and isinstance(a.value, str) and len(a.value) == 1
                    for a in v.left.args) and len(v.left.args) == 2, 'main: file.name expression')
    src = _norm(fn)
    _expect('module_name = _proto2grpc_module_name(file_to_generate)' in src, 'main: module_name')
    _expect('imports = [_proto2pb2_module_name(dep) for dep in list(proto_file.dependency) + [file_to_generate]]'
            in src, 'main: imports')
    return (v.left.args[0].value, v.left.args[1].value), v.right.value


def client_cardinalities(tree):
    rows = []
    for n in tree.body:
        if isinstance(n, ast.ClassDef) and n.name.endswith('Method') and n.name != 'ServiceMethod':
            _expect(len(n.bases) == 1 and _norm(n.bases[0]).startswith('ServiceMethod['),
                    'client.%s bases' % n.name)
            vals = [s.value for s in n.body if isinstance(s, ast.Assign)
                    and _norm(s.targets[0]) == '_cardinality']
            _expect(len(vals) == 1 and _norm(vals[0]).startswith('Cardinality.'),
                    'client.%s._cardinality' % n.name)
            rows.append((n.name, _norm(vals[0])[len('Cardinality.'):]))
    _expect(rows, 'client: no *Method classes')
    return rows


def generate(repo):
    pg = parse(repo, 'grpclib/plugin/main.py')
    cl = parse(repo, 'grpclib/client.py')
    sufs = strip_suffixes(pg)
    repl = base_replacements(pg)
    pb2 = module_suffix(pg, '_proto2pb2_module_name')
    grpc = module_suffix(pg, '_proto2grpc_module_name')
    rmc = render_method_cls(pg)
    route_fmt, qual_fmt = format_literals(pg)
    (oa, ob), osuf = out_name(pg)
    cmc = client_cardinalities(cl)
    L = ['(* GENERATED by tools/facts_C20.py from /repo -- do not edit; rewritten on every run *)',
         'From Coq Require Import ZArith List.', 'Import ListNotations.', 'Open Scope Z_scope.', '',
         '(* grpclib/plugin/main.py: _strip_proto suffixes, in the order tried *)',
         'Definition strip_suffixes : list (list Z) := [%s].   (* %r *)' % ('; '.join(zs(s) for s in sufs), sufs),
         '(* _base_module_name: single-character replacements, in the order applied *)',
         'Definition base_replacements : list (Z * Z) := [%s].   (* %r *)' % (
             '; '.join('(%d, %d)' % (ord(a), ord(b)) for a, b in repl), repl),
         'Definition pb2_suffix : list Z := %s.   (* %r *)' % (zs(pb2), pb2),
         'Definition grpc_suffix : list Z := %s.   (* %r *)' % (zs(grpc), grpc),
         '(* main: file.name = module_name.replace(a, b) + suffix *)',
         'Definition out_replace : Z * Z := (%d, %d).   (* %r *)' % (ord(oa), ord(ob), (oa, ob)),
         'Definition out_suffix : list Z := %s.   (* %r *)' % (zs(osuf), osuf),
         '(* render: route and qualified service name format strings *)',
         'Definition route_format : list Z := %s.   (* %r *)' % (zs(route_fmt), route_fmt),
         'Definition qual_format : list Z := %s.   (* %r *)' % (zs(qual_fmt), qual_fmt),
         '(* render: `if cardinality is const.Cardinality.X: method_cls = client.Y` chain, in order *)',
         'Definition render_method_cls : list (list Z * list Z) := [%s].   (* %r *)' % (
             '; '.join('(%s, %s)' % (zs(a), zs(b)) for a, b in rmc), rmc),
         '(* grpclib/client.py: class -> `_cardinality = Cardinality.X` *)',
         'Definition client_method_cardinality : list (list Z * list Z) := [%s].   (* %r *)' % (
             '; '.join('(%s, %s)' % (zs(a), zs(b)) for a, b in cmc), cmc),
         '']
    return '\n'.join(L) + '\n'


if __name__ == '__main__':
    import os
    import sys
    sys.stdout.write(generate(os.environ.get('VERIF_REPO', '/repo')))
