#!/venv/bin/python
"""Concrete demonstrations of the defects listed in DESIGN.md section 7 against /repo as it is now.
`tools/defect_demos.py [D1 D5 ...]` prints, per defect, BROKEN (the failing behaviour is observed)
or ok.  Used before/after each `fix:` commit; the checks carry the same inputs in corpus/."""
import asyncio
import os
import sys

os.environ.setdefault('PYTHONHASHSEED', '0')
sys.path.insert(0, os.environ.get('VERIF_REPO', '/repo'))
sys.path.insert(0, os.path.dirname(os.path.dirname(os.path.abspath(__file__))))
sys.dont_write_bytecode = True
import logging  # noqa
logging.disable(logging.CRITICAL)

from harness import vloop, wire, peer as P  # noqa
from harness.svc import Service, RawCodec, exc_name  # noqa
from grpclib.client import UnaryUnaryMethod, StreamStreamMethod  # noqa
from grpclib.const import Status  # noqa
from h2.events import *  # noqa
from h2.settings import SettingCodes  # noqa


def D1():
    """empty DATA frame in the middle of a message"""
    with vloop.session() as loop:
        ce = wire.ClientEnd(loop)
        m = UnaryUnaryMethod(ce.channel, '/v.S/M', bytes, bytes)
        t = loop.create_task(m(b'q'))
        loop.run_quiet(1)
        sid = [e for e in ce.peer.take_events() if isinstance(e, RequestReceived)][0].stream_id
        ce.peer.headers(sid, P.RESP_HEADERS)
        fr = P.grpc_frame(b'hello')
        ce.peer.data(sid, fr[:3])
        loop.run_quiet(1)
        ce.peer.raw(P.data_frame(sid, b''))
        ce.peer.data(sid, fr[3:])
        ce.peer.headers(sid, [('grpc-status', '0')], end_stream=True)
        loop.run_quiet(1)
        o = vloop.outcome(t)
        return o != ('ok', b'hello'), o


def D5():
    """end() blocked on a paused transport ignores connection loss and the deadline"""
    with vloop.session() as loop:
        ce = wire.ClientEnd(loop)
        m = StreamStreamMethod(ce.channel, '/v.S/M', bytes, bytes)

        async def call():
            async with m.open(timeout=5) as s:
                await s.send_request()
                ce.transport.pause()
                await s.end()
        t = loop.create_task(call())
        r = loop.run_quiet(100)
        return vloop.outcome(t)[0] == 'pending', (r, loop.time(), vloop.outcome(t))


def _server_status(headers, handler=None, wait=10):
    with vloop.session() as loop:
        async def h(stream):
            await stream.recv_message()
            await stream.send_message(b'r')
        se = wire.ServerEnd(loop, [Service('v.S', {'M': (handler or h, 'UU')})])
        loop.run_quiet(1)
        se.peer.take_events()
        sid = se.peer.request(headers)
        se.peer.data(sid, P.grpc_frame(b'abc'), end_stream=True)
        loop.run_quiet(wait)
        evs = se.peer.take_events()
        out = []
        for e in evs:
            if isinstance(e, (ResponseReceived, TrailersReceived)):
                out.append((type(e).__name__, dict(e.headers).get('grpc-status'),
                            dict(e.headers).get(':status')))
            elif isinstance(e, (StreamReset, StreamEnded, DataReceived)):
                out.append((type(e).__name__,))
        return out, se.proto.processor.streams, se.peer.h2.open_outbound_streams


def D7():
    """grpc-timeout already expired on arrival -> must be DEADLINE_EXCEEDED (4)"""
    out, _, _ = _server_status(P.REQ_HEADERS + [('grpc-timeout', '0n')])
    st = [o[1] for o in out if len(o) > 1 and o[1] is not None]
    return st != ['4'], out


def D3():
    """malformed -bin metadata / missing :path / missing :method -> no response at all"""
    res = {}
    for name, hs in [('bad-bin', P.REQ_HEADERS + [('x-bin', 'A')]),
                     ('no-path', [h for h in P.REQ_HEADERS if h[0] != ':path']),
                     ('no-method', [h for h in P.REQ_HEADERS if h[0] != ':method'])]:
        out, streams, open_out = _server_status(hs)
        res[name] = (out, len(streams), open_out)
    broken = any(not [o for o in v[0] if o[0] in ('ResponseReceived', 'StreamReset')] or v[1] or v[2]
                 for v in res.values())
    return broken, res


def D11():
    """frames an endpoint must ignore raise NotImplementedError out of data_received"""
    res = {}
    for name, fr in [('unknown-0x0b', P.frame_bytes(0x0b, 0, 0, b'abc')),
                     ('altsvc', P.frame_bytes(0x0a, 0, 0, b'\x00\x03foobar')),
                     ('unknown-on-stream', P.frame_bytes(0x4f, 0xff, 1, b''))]:
        with vloop.session() as loop:
            ce = wire.ClientEnd(loop)
            m = UnaryUnaryMethod(ce.channel, '/v.S/M', bytes, bytes)
            t = loop.create_task(m(b'q'))
            loop.run_quiet(1)
            try:
                ce.peer.raw(fr)
                res[name] = 'ok'
            except BaseException as e:
                res[name] = type(e).__name__
    # informational response
    with vloop.session() as loop:
        ce = wire.ClientEnd(loop)
        m = UnaryUnaryMethod(ce.channel, '/v.S/M', bytes, bytes)
        t = loop.create_task(m(b'q'))
        loop.run_quiet(1)
        sid = [e for e in ce.peer.take_events() if isinstance(e, RequestReceived)][0].stream_id
        try:
            ce.peer.headers(sid, [(':status', '100')])
            ce.peer.headers(sid, P.RESP_HEADERS)
            ce.peer.data(sid, P.grpc_frame(b'r'))
            ce.peer.headers(sid, [('grpc-status', '0')], end_stream=True)
            loop.run_quiet(1)
            res['1xx'] = vloop.outcome(t)
        except BaseException as e:
            res['1xx'] = type(e).__name__
    return any(v not in ('ok', ('ok', b'r')) for v in res.values()), res


def D12():
    """ServiceCheck check_timeout has no effect"""
    from grpclib.health.check import ServiceCheck
    with vloop.session() as loop:
        async def slow():
            await asyncio.sleep(50)
            return True
        c = ServiceCheck(slow, check_ttl=1, check_timeout=10)
        t = loop.create_task(c.__check__())
        loop.run_quiet(100)
        first = (loop.time(), vloop.outcome(t))
        # a later, fast check must still be able to succeed (no sticky error)

        async def fast():
            return True
        c._func = fast
        loop.advance(5)
        t2 = loop.create_task(c.__check__())
        loop.run_quiet(100)
        second = vloop.outcome(t2)
        return not (first[0] <= 10.0 and first[1] == ('ok', False) and second == ('ok', True)), (first, second)


def D13():
    """decode_timeout accepts values outside the gRPC grammar"""
    from grpclib.metadata import decode_timeout
    res = {}
    for v in ['5S\n', '123456789S', '٣S', '5S', '99999999n']:
        try:
            res[v] = decode_timeout(v)
        except ValueError:
            res[v] = 'ValueError'
    bad = [v for v in ['5S\n', '123456789S', '٣S'] if res[v] != 'ValueError']
    return bool(bad) or res['5S'] != 5 or res['99999999n'] == 'ValueError', res


def D17():
    """raising MAX_CONCURRENT_STREAMS does not wake calls waiting for a stream slot"""
    with vloop.session() as loop:
        ce = wire.ClientEnd(loop)
        m = StreamStreamMethod(ce.channel, '/v.S/M', bytes, bytes)

        async def opener():
            async with m.open() as s:
                await s.send_request()
                await asyncio.sleep(1000)
                await s.cancel()
        t0 = loop.create_task(opener())
        loop.run_quiet(1)
        ce.peer.settings({SettingCodes.MAX_CONCURRENT_STREAMS: 1})
        loop.run_quiet(1)
        started = []

        async def second():
            async with m.open() as s:
                await s.send_request()
                started.append(loop.time())
                await s.cancel()
        t1 = loop.create_task(second())
        loop.run_quiet(1)
        assert not started
        loop.advance(10)
        ce.peer.settings({SettingCodes.MAX_CONCURRENT_STREAMS: 5})
        loop.run_quiet(100)
        return started != [10.0], started


def D16():
    """keepalive closed the connection; before connection_lost is delivered a new call gets the dead one"""
    from grpclib.config import Configuration
    with vloop.session() as loop:
        ce = wire.ClientEnd(loop, config=Configuration(_keepalive_time=10, _keepalive_timeout=5,
                                                       _keepalive_permit_without_calls=True))
        m = UnaryUnaryMethod(ce.channel, '/v.S/M', bytes, bytes)
        t = loop.create_task(m(b'q'))
        loop.run_quiet(1)
        # peer never acks the ping: at t=15 Connection.close() runs; connection_lost follows by call_soon
        res = {}

        def probe():
            # runs in the same loop iteration as Connection.close(), before connection_lost
            t2 = loop.create_task(m(b'q2'))
            res['t2'] = t2
        tr = ce.transport
        orig_close = tr.close

        def close_then_probe():
            probe()
            orig_close()
        tr.close = close_then_probe
        loop.run_quiet(100)
        o = vloop.outcome(res['t2']) if 't2' in res else None
        bad = o is not None and o[0] == 'exc' and isinstance(o[1], AttributeError)
        return bad, (o, ce.connects)


def D20():
    """Server.close() followed by connection_lost cancels the same handler twice"""
    with vloop.session() as loop:
        log = []

        async def h(stream):
            try:
                await asyncio.sleep(100)
            except asyncio.CancelledError:
                log.append('cancelled')
                try:
                    await asyncio.sleep(1)      # cleanup
                    log.append('cleanup-done')
                except asyncio.CancelledError:
                    log.append('cancelled-again')
                    raise
                raise
        se = wire.ServerEnd(loop, [Service('v.S', {'M': (h, 'UU')})])
        se.server._server = type('S', (), {'close': lambda s: None, 'wait_closed': None})()
        se.server._server_closed_fut = loop.create_future()
        loop.run_quiet(1)
        sid = se.peer.request(P.REQ_HEADERS)
        loop.run_quiet(1)
        se.server.close()
        loop.run_quiet(0.5)
        se.transport.lose()
        loop.run_quiet(10)
        return 'cancelled-again' in log, log


def D9():
    """RST_STREAM before the handler task's first step: stream never released"""
    with vloop.session() as loop:
        async def h(stream):
            await stream.recv_message()
        se = wire.ServerEnd(loop, [Service('v.S', {'M': (h, 'UU')})])
        loop.run_quiet(1)
        sid = se.peer.next_stream_id()
        se.peer.h2.send_headers(sid, P.REQ_HEADERS)
        se.peer.h2.send_data(sid, P.grpc_frame(b'x' * 1000))
        se.peer.h2.reset_stream(sid)
        se.peer.flush()          # HEADERS, DATA, RST in one read
        loop.run_quiet(10)
        return len(se.proto.processor.streams) != 0, dict(se.proto.processor.streams)


def D2():
    """client: malformed details-bin / missing :status do not give the GRPCError that explains the call"""
    from grpclib.encoding.proto import ProtoStatusDetailsCodec
    res = {}
    for name, hdrs, trl in [
        ('bad-details-b64', P.RESP_HEADERS, [('grpc-status', '5'), ('grpc-status-details-bin', 'A')]),
        ('bad-details-proto', P.RESP_HEADERS, [('grpc-status', '5'), ('grpc-status-details-bin', '/////w')]),
        ('no-:status', [('content-type', 'application/grpc')], [('grpc-status', '5')]),
    ]:
        with vloop.session() as loop:
            ce = wire.ClientEnd(loop, status_details_codec=ProtoStatusDetailsCodec())
            m = UnaryUnaryMethod(ce.channel, '/v.S/M', bytes, bytes)
            t = loop.create_task(m(b'q'))
            loop.run_quiet(1)
            sid = [e for e in ce.peer.take_events() if isinstance(e, RequestReceived)][0].stream_id
            ce.peer.headers(sid, hdrs)
            ce.peer.headers(sid, trl, end_stream=True)
            loop.run_quiet(1)
            o = vloop.outcome(t)
            res[name] = exc_name(o[1]) if o[0] == 'exc' else o
    return any(not str(v).startswith('GRPCError:') for v in res.values()), res


ALL = ['D1', 'D2', 'D3', 'D5', 'D7', 'D9', 'D11', 'D12', 'D13', 'D16', 'D17', 'D20']

if __name__ == '__main__':
    names = sys.argv[1:] or ALL
    for n in names:
        try:
            broken, detail = globals()[n]()
        except Exception as e:
            import traceback
            broken, detail = True, 'demo raised: ' + traceback.format_exc()[-600:]
        print('%-4s %s   %s' % (n, 'BROKEN' if broken else 'ok', str(detail)[:420]))
