#!/usr/bin/env python3
"""Re-run, with ALL legs, the check recorded for every kept seeded change (seeded/<id>/meta.json -> verif.property)
against its patch, in scratch copies (tools/patch_verify.py), several at a time, and refresh the record
(development aid; not part of any registered check).

  tools/seeded_recheck.py [-j N] [name-prefix ...]
"""
import json
import os
import subprocess
import sys
from concurrent.futures import ThreadPoolExecutor

VERIF = os.path.dirname(os.path.dirname(os.path.abspath(__file__)))


def one(name):
    d = os.path.join(VERIF, 'seeded', name)
    try:
        meta = json.load(open(os.path.join(d, 'meta.json')))
    except Exception as e:
        return name, 'no meta: %r' % e
    prop = meta.get('verif', {}).get('property') or meta.get('property')
    p = subprocess.run([sys.executable, os.path.join(VERIF, 'tools', 'patch_verify.py'),
                        os.path.join(d, 'patch.diff'), 'sr-' + name, prop],
                       cwd=VERIF, stdout=subprocess.PIPE, stderr=subprocess.STDOUT, timeout=3600)
    rec = None
    for ln in p.stdout.decode('utf-8', 'replace').split('\n'):
        try:
            r = json.loads(ln)
        except Exception:
            continue
        if r.get('property') == prop:
            rec = r
    if rec is None:
        return name, 'no result: ' + p.stdout.decode('utf-8', 'replace')[-300:]
    v = meta.setdefault('verif', {})
    v['property'] = prop
    v['check'] = {'rc': rec.get('rc'), 'mode': 'all legs, scratch copies of /repo and /verif',
                  'lines': rec.get('lines', [])[:8], 'wall_s': rec.get('wall_s')}
    v['detected'] = rec.get('rc') == 1 and rec.get('violations', 0) > 0
    v['failing_input_found'] = bool(rec.get('with_failing_input'))
    with open(os.path.join(d, 'meta.json'), 'w') as f:
        json.dump(meta, f, indent=1)
    return name, 'detected=%s failing_input=%s' % (v['detected'], v['failing_input_found'])


def main():
    args = sys.argv[1:]
    j = 8
    if '-j' in args:
        j = int(args[args.index('-j') + 1])
        del args[args.index('-j'):args.index('-j') + 2]
    names = sorted(os.listdir(os.path.join(VERIF, 'seeded')))
    if args:
        names = [n for n in names if any(n.startswith(a) for a in args)]
    with ThreadPoolExecutor(j) as ex:
        for name, msg in ex.map(one, names):
            print(name, msg, flush=True)


if __name__ == '__main__':
    main()
