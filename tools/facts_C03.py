"""facts_C03.py -- structural facts of grpclib/server.py for property C03 -> coq/Gen/FactsC03.v.

`ast` only (grpclib is never imported); fail-closed: any statement shape that is not recognised
raises Unsupported, which removes Gen/FactsC03.v so that exactly C03 stops compiling.

Extracted:
  * request_handler: the validation prefix as an ORDERED list of (guard, h2 status, grpc status,
    grpc message) -- Model/ServerCall.v interprets this list, so order, guards, status codes and
    message texts of the early aborts come from the source;
  * _abort: the header names it emits and "RST when closable" (shape check);
  * Stream.__aexit__: the guard of the GRPCError branch, the status/message chosen for Exception, for the unary-reply check and for the
    normal exit, and that other BaseExceptions are propagated;
  * the `except asyncio.TimeoutError` clause of request_handler: the status raised;
  * the precondition checks (`if ...: raise ProtocolError`) of the four sending calls, in order, as
    source text (Proofs/C03Proofs.v compares them with what the model implements);
  * the header literals of send_initial_metadata / send_trailing_metadata, the reset condition;
  * GRPC_CONTENT_TYPE and ProtoCodec.__content_subtype__.
"""
import ast
import re

from extract_facts import Unsupported, parse, zs, func_node, class_node, enum_members


def u(node):
    return ast.unparse(node)


def status_values(repo):
    tree = parse(repo, 'grpclib/const.py')
    out = {}
    for name, val in enum_members(tree, 'Status'):
        if not (isinstance(val, ast.Constant) and isinstance(val.value, int)):
            raise Unsupported('Status member ' + name)
        out[name] = val.value
    return out


def strip_doc(body):
    return [s for s in body if not (isinstance(s, ast.Expr) and isinstance(s.value, ast.Constant)
                                    and isinstance(s.value.value, str))]


def const_str(node):
    if isinstance(node, ast.Constant) and isinstance(node.value, str):
        return node.value
    raise Unsupported('string literal expected: ' + u(node))


def abort_call(stmts, status):
    """[await _abort(_stream, H, [Status.X, 'msg']); return] -> (H, grpc status | None, msg | None)"""
    if not (len(stmts) == 2 and isinstance(stmts[1], ast.Return) and stmts[1].value is None
            and isinstance(stmts[0], ast.Expr) and isinstance(stmts[0].value, ast.Await)):
        raise Unsupported('abort branch: ' + '; '.join(u(s) for s in stmts))
    c = stmts[0].value.value
    if not (isinstance(c, ast.Call) and u(c.func) == '_abort' and not c.keywords
            and 2 <= len(c.args) <= 4 and u(c.args[0]) == '_stream'):
        raise Unsupported('abort call: ' + u(c))
    h = c.args[1]
    if not (isinstance(h, ast.Constant) and isinstance(h.value, int)):
        raise Unsupported('abort h2 status: ' + u(h))
    gs = None
    if len(c.args) >= 3:
        s = u(c.args[2])
        if not (s.startswith('Status.') and s[7:] in status):
            raise Unsupported('abort grpc status: ' + s)
        gs = status[s[7:]]
    msg = const_str(c.args[3]) if len(c.args) == 4 else None
    return h.value, gs, msg


def request_prefix(fn, status):
    body = strip_doc(fn.body)
    if not (len(body) == 1 and isinstance(body[0], ast.Try)):
        raise Unsupported('request_handler: outer try expected')
    outer = body[0]
    seen = set()
    entries = []
    KNOWN_ASSIGN = {
        "headers_map = dict(headers)": 'map',
        "content_type = headers_map.get('content-type')": 'ct',
        "base_content_type, _, sub_type = content_type.partition('+')": 'part',
        "sub_type = sub_type or ProtoCodec.__content_subtype__": 'subdef',
        "method_name = headers_map.get(':path')": 'path',
        "method = mapping.get(method_name)": 'method',
        "user_agent = headers_map.get('user-agent')": 'ua',
    }
    ended = False
    for s in outer.body:
        src = u(s)
        if isinstance(s, ast.Assign):
            if src not in KNOWN_ASSIGN:
                raise Unsupported('request_handler assignment: ' + src)
            seen.add(KNOWN_ASSIGN[src])
        elif isinstance(s, ast.If):
            if s.orelse:
                raise Unsupported('request_handler: if with else: ' + src[:80])
            t = s.test
            ab = abort_call(s.body, status)
            if (isinstance(t, ast.Compare) and len(t.ops) == 1 and isinstance(t.ops[0], ast.NotEq)
                    and isinstance(t.left, ast.Call) and u(t.left.func) == 'headers_map.get'
                    and len(t.left.args) == 1 and not t.left.keywords and 'map' in seen):
                g = 'GetNe %s %s' % (zs(const_str(t.left.args[0])), zs(const_str(t.comparators[0])))
            elif u(t) == 'content_type is None' and 'ct' in seen:
                g = 'IsNone %s' % zs('content-type')
            elif (u(t) == 'base_content_type != GRPC_CONTENT_TYPE or sub_type != codec.__content_subtype__'
                  and {'ct', 'part', 'subdef'} <= seen):
                g = 'CtMismatch'
            elif u(t) == 'method is None' and {'path', 'method'} <= seen:
                g = 'UnknownPath'
            else:
                raise Unsupported('request_handler guard: ' + u(t))
            entries.append((g, ab))
        elif isinstance(s, ast.Try):
            if not (len(s.body) == 1 and isinstance(s.body[0], ast.Assign) and len(s.handlers) == 1
                    and not s.orelse and not s.finalbody and u(s.handlers[0].type) == 'ValueError'):
                raise Unsupported('request_handler try: ' + src[:80])
            call = s.body[0].value
            if not (isinstance(call, ast.Call) and u(call.args[0]) == 'headers' and len(call.args) == 1):
                raise Unsupported('request_handler try call: ' + u(call))
            f = u(call.func)
            if f not in ('Deadline.from_headers', 'decode_metadata'):
                raise Unsupported('request_handler try callee: ' + f)
            entries.append(('TryValueError %s' % zs(f), abort_call(s.handlers[0].body, status)))
        elif isinstance(s, ast.AsyncWith):
            if not u(s.items[0].context_expr).startswith('Stream(_stream, method_name, method.cardinality'):
                raise Unsupported('request_handler: async with ' + u(s.items[0].context_expr)[:60])
            ended = True
            inner = s
            break
        else:
            raise Unsupported('request_handler statement: ' + src[:80])
    if not ended:
        raise Unsupported('request_handler: async with Stream(...) not found')
    # outer handlers: ProtocolError and Exception are logged, nothing else; finally releases
    hs = [u(h.type) for h in outer.handlers]
    if hs != ['ProtocolError', 'Exception'] or [u(x) for x in outer.finalbody] != ['release_stream()']:
        raise Unsupported('request_handler outer handlers: %r' % hs)
    for h in outer.handlers:
        if not (len(h.body) == 1 and u(h.body[0]).startswith('log.exception(')):
            raise Unsupported('request_handler outer handler body')
    # the inner try around the handler call
    tr = [x for x in inner.body if isinstance(x, ast.Try)]
    if len(tr) != 1:
        raise Unsupported('request_handler: inner try')
    tr = tr[0]
    if not (len(tr.body) == 1 and isinstance(tr.body[0], ast.With)
            and [u(i.context_expr) for i in tr.body[0].items] == ['deadline_wrapper', 'wrapper']):
        raise Unsupported('request_handler: with deadline_wrapper, wrapper')
    kinds = [u(h.type) for h in tr.handlers]
    if kinds != ['GRPCError', 'asyncio.TimeoutError', 'StreamTerminatedError', 'Exception']:
        raise Unsupported('request_handler inner handlers: %r' % kinds)

    def raised_status(stmts):
        r = stmts[-1]
        if not isinstance(r, ast.Raise):
            raise Unsupported('raise expected')
        if r.exc is None:
            return None
        s_ = u(r.exc)
        if not (s_.startswith('GRPCError(Status.') and s_.endswith(')') and s_[17:-1] in status):
            raise Unsupported('TimeoutError clause raises ' + s_)
        return status[s_[17:-1]]
    th = tr.handlers[1].body
    if not (len(th) == 1 and isinstance(th[0], ast.If) and u(th[0].test) == 'wrapper.cancel_failed'
            and len(th[0].orelse) == 1 and isinstance(th[0].orelse[0], ast.If)
            and u(th[0].orelse[0].test) == 'wrapper.cancelled'):
        raise Unsupported('TimeoutError clause shape')
    dl_failed = raised_status(th[0].body)
    dl_cancelled = raised_status(th[0].orelse[0].body)
    dl_other = raised_status(th[0].orelse[0].orelse)
    if dl_failed is None or dl_cancelled is None or dl_other is not None:
        raise Unsupported('TimeoutError clause statuses')
    for h in (tr.handlers[0], tr.handlers[2], tr.handlers[3]):
        last = h.body[-1] if not isinstance(h.body[-1], ast.If) else None
        if last is not None and not (isinstance(last, ast.Raise) and last.exc is None):
            raise Unsupported('inner handler must re-raise')
    return entries, dl_failed, dl_cancelled


def abort_shape(fn):
    body = [u(s) for s in strip_doc(fn.body)]
    expect = [
        "headers = [(':status', str(h2_status))]",
        "if grpc_status is not None:\n    headers.append(('grpc-status', str(grpc_status.value)))",
        "if grpc_message is not None:\n    headers.append(('grpc-message', grpc_message))",
        "await h2_stream.send_headers(headers, end_stream=True)",
        "if h2_stream.closable:\n    h2_stream.reset_nowait()",
    ]
    if body != expect:
        raise Unsupported('_abort body changed:\n' + '\n'.join(body))
    return [':status', 'grpc-status', 'grpc-message']


def aexit_facts(fn, status):
    body = strip_doc(fn.body)
    if not (isinstance(body[0], ast.If) and
            u(body[0].test) == 'self._send_trailing_metadata_done or self._cancel_done or self._stream._transport.is_closing()'
            and [u(x) for x in body[0].body] == ['return True']):
        raise Unsupported('__aexit__ early exit')
    if u(body[1]) != 'protocol_error = None' or not isinstance(body[2], ast.If):
        raise Unsupported('__aexit__ second/third statement')
    top = body[2]
    if u(top.test) != 'exc_val is not None':
        raise Unsupported('__aexit__ test ' + u(top.test))
    inner = [s for s in top.body if isinstance(s, ast.If)]
    # the GRPCError branch is taken unless the error says OK on a unary reply without its message; such an
    # error falls through to the Exception branch (repaired defect D42)
    if len(inner) != 1 or u(inner[0].test) != (
            'isinstance(exc_val, GRPCError) and (not (exc_val.status is Status.OK and '
            '(not self._cardinality.server_streaming) and (not self._send_message_done)))'):
        raise Unsupported('__aexit__ GRPCError branch: ' + (u(inner[0].test) if inner else '-'))
    g = {u(s.targets[0]): u(s.value) for s in inner[0].body if isinstance(s, ast.Assign)}
    if g != {'status': 'exc_val.status', 'status_message': 'exc_val.message', 'status_details': 'exc_val.details'}:
        raise Unsupported('__aexit__ GRPCError assignments %r' % g)
    e = inner[0].orelse
    if not (len(e) == 1 and isinstance(e[0], ast.If) and u(e[0].test) == 'isinstance(exc_val, Exception)'):
        raise Unsupported('__aexit__ Exception branch')

    def st_msg(stmts):
        a = {u(s.targets[0]): s.value for s in stmts if isinstance(s, ast.Assign)}
        s_ = u(a['status'])
        if not (s_.startswith('Status.') and s_[7:] in status):
            raise Unsupported('__aexit__ status ' + s_)
        m = a['status_message']
        msg = None if (isinstance(m, ast.Constant) and m.value is None) else const_str(m)
        if u(a['status_details']) != 'None':
            raise Unsupported('__aexit__ details')
        return status[s_[7:]], msg
    exc = st_msg(e[0].body)
    prop = [x for x in e[0].orelse if not isinstance(x, ast.Expr)]
    if [u(x) for x in prop] != ['return None']:
        raise Unsupported('__aexit__ BaseException branch: %r' % [u(x) for x in prop])
    if not (len(top.orelse) == 1 and isinstance(top.orelse[0], ast.If) and
            u(top.orelse[0].test) == 'not self._cardinality.server_streaming and (not self._send_message_done)'):
        raise Unsupported('__aexit__ unary check: ' + (u(top.orelse[0].test) if top.orelse else '-'))
    unary = st_msg(top.orelse[0].body)
    ok = st_msg(top.orelse[0].orelse)
    t = body[3]
    if not (isinstance(t, ast.Try) and len(t.body) == 1 and
            u(t.body[0]).startswith('await self.send_trailing_metadata(status=status, status_message=status_message')
            and [u(h.type) for h in t.handlers] == ['h2.exceptions.StreamClosedError']
            and [u(x) for x in t.handlers[0].body] == ['pass']):
        raise Unsupported('__aexit__ send_trailing_metadata try')
    rest = [u(x) for x in body[4:]]
    if rest != ["if protocol_error is not None:\n    raise ProtocolError(protocol_error)", 'return True']:
        raise Unsupported('__aexit__ tail %r' % rest)
    return exc, unary, ok


def api_checks(cls):
    """for the four sending calls: the source text of every `if c: raise ProtocolError(..)` (nested ifs are
    joined with ' && '), in order, plus other facts of their bodies"""
    out = []

    def walk(stmts, ctx, acc):
        for s in stmts:
            if isinstance(s, ast.If):
                if (len(s.body) == 1 and isinstance(s.body[0], ast.Raise) and
                        u(s.body[0].exc).startswith('ProtocolError(')):
                    acc.append(' && '.join(ctx + [u(s.test)]))
                else:
                    walk(s.body, ctx + [u(s.test)], acc)
                    walk(s.orelse, ctx + ['not (' + u(s.test) + ')'], acc)
    for name in ('send_initial_metadata', 'send_message', 'send_trailing_metadata', 'cancel'):
        fn = func_node_in(cls, name)
        acc = []
        walk(strip_doc(fn.body), [], acc)
        out.append((name, acc))
    return out


def func_node_in(cls, name):
    for n in cls.body:
        if isinstance(n, (ast.FunctionDef, ast.AsyncFunctionDef)) and n.name == name:
            return n
    raise Unsupported('method ' + name)


def literal_headers(fn, which):
    """names in the `headers = [...]` list literals of a function, in source order"""
    out = []
    for n in ast.walk(fn):
        if isinstance(n, ast.Assign) and u(n.targets[0]) == 'headers' and isinstance(n.value, ast.List):
            out.append([(const_str(e.elts[0]), u(e.elts[1])) for e in n.value.elts])
        elif isinstance(n, ast.AnnAssign) and u(n.target) == 'headers' and isinstance(n.value, ast.List):
            out.append([(const_str(e.elts[0]), u(e.elts[1])) for e in n.value.elts])
    return out


def generate(repo):
    status = status_values(repo)
    tree = parse(repo, 'grpclib/server.py')
    entries, dl_failed, dl_cancelled = request_prefix(func_node(tree, 'request_handler'), status)
    abort_names = abort_shape(func_node(tree, '_abort'))
    cls = class_node(tree, 'Stream')
    exc, unary, ok = aexit_facts(func_node_in(cls, '__aexit__'), status)
    checks = api_checks(cls)
    # header literals
    sim = literal_headers(func_node_in(cls, 'send_initial_metadata'), 'initial')
    stm = literal_headers(func_node_in(cls, 'send_trailing_metadata'), 'trailing')
    resp = [(':status', "'200'"), ('content-type', 'self._content_type')]
    if sim != [resp]:
        raise Unsupported('send_initial_metadata headers literal %r' % sim)
    if stm != [[], resp]:
        raise Unsupported('send_trailing_metadata headers literals %r' % stm)
    fn = func_node_in(cls, 'send_trailing_metadata')
    src = [u(s) for s in strip_doc(fn.body)]
    if src[-1] != 'if status != Status.OK and self._stream.closable:\n    self._stream.reset_nowait()':
        raise Unsupported('send_trailing_metadata reset clause: ' + src[-1])
    if src[-3:-1] != ['await self._stream.send_headers(headers, end_stream=True)',
                      'self._send_trailing_metadata_done = True']:
        raise Unsupported('send_trailing_metadata tail: %r' % src[-3:-1])
    appends = [u(n.args[0]) for n in ast.walk(fn)
               if isinstance(n, ast.Call) and u(n.func) == 'headers.append']
    if appends[0] != "('grpc-status', str(status.value))" or not appends[1].startswith("('grpc-message', encode_grpc_message("):
        raise Unsupported('send_trailing_metadata appends %r' % appends)
    ctp = func_node_in(cls, '_content_type')
    if u(strip_doc(ctp.body)[0]) != "return GRPC_CONTENT_TYPE + '+' + self._codec.__content_subtype__":
        raise Unsupported('_content_type')
    base = parse(repo, 'grpclib/encoding/base.py')
    gct = [const_str(n.value) for n in base.body if isinstance(n, ast.Assign) and u(n.targets[0]) == 'GRPC_CONTENT_TYPE']
    proto = parse(repo, 'grpclib/encoding/proto.py')
    sub = [const_str(s.value) for s in class_node(proto, 'ProtoCodec').body
           if isinstance(s, ast.Assign) and u(s.targets[0]) == '__content_subtype__']
    if len(gct) != 1 or len(sub) != 1:
        raise Unsupported('content type constants')

    def opt_z(v):
        return 'None' if v is None else 'Some %d' % v

    def opt_s(v):
        return 'None' if v is None else 'Some %s' % zs(v)
    L = []
    L.append('(* GENERATED by tools/facts_C03.py from /repo/grpclib/server.py -- do not edit; rewritten on every run *)')
    L.append('From Coq Require Import ZArith List.')
    L.append('Import ListNotations.')
    L.append('Open Scope Z_scope.')
    L.append('')
    L.append('(* the guards of the validation prefix of request_handler *)')
    L.append('Inductive rguard :=')
    L.append('| GetNe (k v : list Z)            (* headers_map.get(k) != v *)')
    L.append('| IsNone (k : list Z)             (* headers_map.get(k) is None *)')
    L.append("| CtMismatch                      (* base != GRPC_CONTENT_TYPE or (sub or 'proto') != codec subtype *)")
    L.append("| UnknownPath                     (* mapping.get(headers_map.get(':path')) is None *)")
    L.append('| TryValueError (f : list Z).     (* f(headers) raises ValueError *)')
    L.append('')
    L.append('(* request_handler: (guard, :status, grpc-status, grpc-message) of every early abort, in source order *)')
    L.append('Definition abort_table : list (rguard * Z * option Z * option (list Z)) := [')
    rows = ['  (%s, %d, %s, %s)' % (g, h, opt_z(gs), opt_s(m)) for g, (h, gs, m) in entries]
    cmts = ['   (* %s *)' % re.sub(r'[^A-Za-z0-9 :_./-]', ' ', str(m)) for g, (h, gs, m) in entries]
    L.append('\n'.join(r + (';' if i + 1 < len(rows) else '') + c
                       for i, (r, c) in enumerate(zip(rows, cmts))))
    L.append('].')
    L.append('(* _abort emits these header names, END_STREAM, then RST_STREAM when the stream is still closable *)')
    L.append('Definition abort_header_names : list (list Z) := [%s].' % '; '.join(zs(n) for n in abort_names))
    L.append('')
    L.append('(* Stream.__aexit__: (status, message) for an Exception that is not a GRPCError, for a unary reply')
    L.append('   without a message, and for the normal exit; any other BaseException is propagated (return None) *)')
    L.append('Definition aexit_exception : Z * option (list Z) := (%d, %s).' % (exc[0], opt_s(exc[1])))
    L.append('Definition aexit_unary_missing : Z * option (list Z) := (%d, %s).' % (unary[0], opt_s(unary[1])))
    L.append('Definition aexit_normal : Z * option (list Z) := (%d, %s).' % (ok[0], opt_s(ok[1])))
    L.append('(* the GRPCError branch of __aexit__ excludes `status is OK and unary reply and no message sent`;')
    L.append('   such an error is handled by the Exception branch *)')
    L.append('Definition aexit_grpc_ok_unary_as_exception : bool := true.')
    L.append('(* request_handler, except asyncio.TimeoutError: status raised when cancel_failed / when cancelled *)')
    L.append('Definition deadline_status_failed : Z := %d.' % dl_failed)
    L.append('Definition deadline_status_cancelled : Z := %d.' % dl_cancelled)
    L.append('')
    L.append('(* `if c: raise ProtocolError` checks of the sending calls, in order, as source text *)')
    L.append('Definition api_checks : list (list Z * list (list Z)) := [')
    L.append(';\n'.join('  (%s, [%s])' % (zs(n), '; '.join(zs(c) for c in cs)) for n, cs in checks))
    L.append('].')
    L.append('')
    L.append('Definition grpc_content_type : list Z := %s.   (* %r *)' % (zs(gct[0]), gct[0]))
    L.append('Definition proto_subtype : list Z := %s.   (* %r *)' % (zs(sub[0]), sub[0]))
    L.append('Definition status_ok : Z := %d.' % status['OK'])
    return '\n'.join(L) + '\n'


if __name__ == '__main__':
    import os
    import sys
    sys.stdout.write(generate(os.environ.get('VERIF_REPO', '/repo')))
