"""facts_C03.py -- facts about grpclib's server call path for property C03 -> coq/Gen/FactsC03.v.

BY MEANING, not by spelling: nothing here reads the syntax of server.py.  The facts are DECISION TABLES obtained
by running the real code of the repository under translation (a real `Server` protocol instance on the in-memory
transport with the scripted h2 client of the harness, virtual time) on a fixed, finite set of probe requests and
probe handlers, and reading the answers off the wire:

  * abort_table -- the early refusals of a request: for each of the seven defects a request can have (method,
    content-type missing / unacceptable, te, unknown path, invalid grpc-timeout, malformed metadata) the
    (:status, grpc-status, grpc-message) the server answers with, ORDERED by which defect wins when two are
    present (every combinable pair is probed).  Each defect is probed in several spellings, each must be refused
    identically with the handler not called, exactly one HEADERS+END_STREAM (+ RST_STREAM while the client side
    is open); accepted spellings must be accepted.  Model/ServerCall.v interprets this table.
  * the (status, message) sent at exit for an Exception, for a unary reply without its message, for a normal
    return; that a GRPCError's own (status, message) is passed through; whether GRPCError(OK) on a unary reply
    without a message is handled as an exception; that a BaseException is propagated without a frame (D4);
  * the status sent when the deadline fires (cancellation honoured / swallowed);
  * content-type constants and Status.OK by value.

Fail-closed: a probe that is answered in a way the model has no place for (two spellings of one defect answered
differently, an inconsistent precedence, a handler called for a refused request, ...) raises Unsupported, which
removes Gen/FactsC03.v so that exactly C03 stops compiling.  Refactorings that do not change what the server
puts on the wire leave this file byte-identical.
"""
import os
import sys

from extract_facts import Unsupported, zs

HERE = os.path.dirname(os.path.abspath(__file__))
VERIF = os.path.dirname(HERE)

KNOWN_PATH = '/v.S/M'
BASE = [(':method', 'POST'), (':scheme', 'http'), (':path', KNOWN_PATH), (':authority', 'x'),
        ('te', 'trailers'), ('content-type', 'application/grpc')]
FAR = ('grpc-timeout', '100S')


def without(name, hs=None):
    return [h for h in (hs or BASE) if h[0] != name]


def replaced(name, value, hs=None):
    return [(h[0], value) if h[0] == name else h for h in (hs or BASE)]


def added(name, value, hs=None):
    return list(hs or BASE) + [(name, value)]


# defect -> (guard term of Model/ServerCall.v, [header-list mutations that have the defect])
DEFECTS = [
    ('method', 'GetNe %s %s' % (zs(':method'), zs('POST')),
     [lambda h: without(':method', h), lambda h: replaced(':method', 'GET', h),
      lambda h: replaced(':method', 'post', h), lambda h: replaced(':method', '', h),
      lambda h: added(':method', 'PUT', h)]),
    ('no-content-type', 'IsNone %s' % zs('content-type'), [lambda h: without('content-type', h)]),
    ('content-type', 'CtMismatch',
     [lambda h: replaced('content-type', 'application/grpc+json', h),
      lambda h: replaced('content-type', 'application/json', h),
      lambda h: replaced('content-type', 'Application/grpc', h),
      lambda h: replaced('content-type', '', h),
      lambda h: replaced('content-type', 'application/grpc+proto+x', h)]),
    ('te', 'GetNe %s %s' % (zs('te'), zs('trailers')),
     [lambda h: without('te', h), lambda h: replaced('te', 'Trailers', h), lambda h: replaced('te', 'gzip', h),
      lambda h: replaced('te', '', h)]),
    ('path', 'UnknownPath',
     [lambda h: without(':path', h), lambda h: replaced(':path', '/v.S/Nope', h), lambda h: replaced(':path', '', h)]),
    ('timeout', 'TryValueError %s' % zs('Deadline.from_headers'),
     [lambda h: added('grpc-timeout', '5x', h), lambda h: added('grpc-timeout', '', h),
      lambda h: added('grpc-timeout', '123456789S', h), lambda h: added('grpc-timeout', '1.5S', h),
      lambda h: added('grpc-timeout', 'x', added('grpc-timeout', '100S', h))]),
    ('metadata', 'TryValueError %s' % zs('decode_metadata'),
     [lambda h: added('x-bin', 'A', h), lambda h: added('k.l_m-bin', 'AAAAA', h)]),
]
ACCEPTED = [
    BASE, replaced('content-type', 'application/grpc+proto'), replaced('content-type', 'application/grpc+'),
    [(':method', 'PUT')] + BASE, added('grpc-timeout', '100S'), added('x-bin', 'QQ'), added('x-key', 'text ~'),
    added('grpc-foo-bin', 'A'),
]
EXCLUSIVE = {frozenset(('no-content-type', 'content-type'))}


class Probe:
    def __init__(self, repo):
        for p in (repo, VERIF):
            if p in sys.path:
                sys.path.remove(p)
        sys.path.insert(0, VERIF)
        sys.path.insert(0, repo)
        import grpclib
        if not os.path.abspath(grpclib.__file__).startswith(os.path.abspath(repo) + os.sep):
            raise Unsupported('grpclib imported from %s, not from %s' % (grpclib.__file__, repo))
        from harness import c03_impl
        self.impl = c03_impl
        self.n = 0

    def run(self, headers, ops=('M',), fin=('ret',), card='UU', eof=True, **kw):
        case = {'headers': [list(h) for h in headers], 'card': card,
                'body': {'msgs': 1, 'partial': False, 'eof': eof}, 'ops': [o if isinstance(o, str) else list(o) for o in ops],
                'fin': list(fin), 'policy': kw.get('policy', 'honour'), 'fin2': list(kw.get('fin2', ('ret',))),
                'ext': 'none', 'ext_at': None, 'codec': kw.get('codec')}
        self.n += 1
        obs = self.impl.run_case(case)
        if obs.get('violations'):
            raise Unsupported('probe broke HTTP/2 rules: %r' % (obs['violations'],))
        return obs


def header_dict(frame):
    return dict((k, v) for k, v in frame[1])


def refusal(obs, eof, what):
    """a refused request: exactly one HEADERS+END_STREAM (+ RST_STREAM while the client side is open), the
    handler not called -> ((:status, grpc-status|None, grpc-message|None), header names)"""
    fr = obs['frames']
    shape = [f[0] for f in fr]
    if obs['end'] != 'not-run':
        raise Unsupported('%s: the handler was called (%r)' % (what, obs['end']))
    if shape != (['H'] if eof else ['H', 'R']) or not fr[0][2]:
        raise Unsupported('%s: refusal is not HEADERS+END_STREAM%s: %r' % (what, '' if eof else ' RST_STREAM', fr))
    d = header_dict(fr[0])
    names = [k for k, _ in fr[0][1]]
    if ':status' not in d or not d[':status'].isdigit() or set(names) - {':status', 'grpc-status', 'grpc-message'}:
        raise Unsupported('%s: unexpected refusal headers %r' % (what, fr[0][1]))
    gs = d.get('grpc-status')
    if gs is not None and not gs.isdigit():
        raise Unsupported('%s: grpc-status %r' % (what, gs))
    return (int(d[':status']), None if gs is None else int(gs), d.get('grpc-message')), names


def final_status(obs, what, want_terminal=True):
    """(grpc-status, grpc-message) of the terminal HEADERS of a call whose handler ran, None if there is none"""
    from urllib.parse import unquote
    for f in obs['frames']:
        if f[0] in ('H', 'T'):
            d = header_dict(f)
            if 'grpc-status' in d:
                if not f[2] or not d['grpc-status'].isdigit():
                    raise Unsupported('%s: malformed terminal %r' % (what, f))
                m = d.get('grpc-message')
                return int(d['grpc-status']), None if m is None else unquote(m)
    if want_terminal:
        raise Unsupported('%s: no grpc-status on the wire: %r' % (what, obs['frames']))
    return None


def abort_facts(pr):
    triple = {}
    names_seen = []
    for name, guard, muts in DEFECTS:
        for i, mut in enumerate(muts):
            for eof in (True, False):
                t, names = refusal(pr.run(mut(BASE), eof=eof), eof, 'defect %s #%d' % (name, i))
                names_seen.append(names)
                if triple.setdefault(name, t) != t:
                    raise Unsupported('defect %s answered %r and %r' % (name, triple[name], t))
    for hs in ACCEPTED:
        obs = pr.run(hs)
        if obs['end'] != 'ret':
            raise Unsupported('acceptable request refused: %r -> %r' % (hs[-2:], obs['frames']))
    # a server whose codec is not the proto one: its own subtype is accepted, the bare application/grpc (which
    # means +proto), the empty subtype and +proto are refused like any other unacceptable content-type
    for sub in ('json', 'x.my-codec'):
        own = replaced('content-type', 'application/grpc+' + sub)
        obs = pr.run(own, codec=sub)
        if obs['end'] != 'ret':
            raise Unsupported('codec %s: its own content-type refused: %r' % (sub, obs['frames']))
        for ct in ('application/grpc', 'application/grpc+', 'application/grpc+proto', 'application/grpc+' + sub + 'x'):
            for eof in (True, False):
                t, _ = refusal(pr.run(replaced('content-type', ct), eof=eof, codec=sub), eof,
                               'codec %s, content-type %s' % (sub, ct))
                if t != triple['content-type']:
                    raise Unsupported('codec %s: content-type %r answered %r' % (sub, ct, t))
        for name, _, muts in DEFECTS:          # the other refusals do not depend on the codec
            if name not in ('content-type',):
                t, _ = refusal(pr.run(muts[0](own), codec=sub), True, 'codec %s, defect %s' % (sub, name))
                if t != triple[name]:
                    raise Unsupported('codec %s: defect %s answered %r' % (sub, name, t))
    # precedence: every combinable pair of defects
    wins = {n: 0 for n, _, _ in DEFECTS}
    beats = {}
    for i, (a, _, ma) in enumerate(DEFECTS):
        for b, _, mb in DEFECTS[i + 1:]:
            if frozenset((a, b)) in EXCLUSIVE or triple[a] == triple[b]:
                continue
            for hs in (mb[0](ma[0](BASE)), ma[-1](mb[-1](BASE))):
                t, _ = refusal(pr.run(hs), True, 'defects %s+%s' % (a, b))
                if t == triple[a]:
                    w, l = a, b
                elif t == triple[b]:
                    w, l = b, a
                else:
                    raise Unsupported('defects %s+%s answered %r' % (a, b, t))
                if beats.setdefault(frozenset((a, b)), w) != w:
                    raise Unsupported('precedence of %s and %s depends on the spelling' % (a, b))
            wins[beats[frozenset((a, b))]] += 1
    canon = {n: i for i, (n, _, _) in enumerate(DEFECTS)}
    order = sorted(canon, key=lambda n: (-wins[n], canon[n]))
    pos = {n: i for i, n in enumerate(order)}
    for pair, w in beats.items():
        (l,) = pair - {w}
        if pos[w] > pos[l]:
            raise Unsupported('precedence of the refusals is not a total order: %r' % (sorted(beats.items(), key=str),))
    # mutually exclusive defects keep their canonical relative order (it can not be observed)
    longest = max(names_seen, key=len)
    if any(n != longest[:len(n)] for n in names_seen):
        raise Unsupported('refusal header order varies: %r' % (names_seen,))
    guards = {n: g for n, g, _ in DEFECTS}
    return [(guards[n],) + triple[n] for n in order], longest


def exit_facts(pr):
    f = {}

    def same(key, val, what):
        if f.setdefault(key, val) != val:
            raise Unsupported('%s: %r vs %r' % (what, f[key], val))
    # any Exception that is not a GRPCError
    for card, ops in (('UU', ('M',)), ('SS', ()), ('US', ('M', 'M')), ('SU', ())):
        for kind in ('exc', 'timeout', 'streamterm', 'protocol'):
            fin = ('exc',) if kind == 'exc' else ('exc', kind)
            same('exception', final_status(pr.run(BASE, ops, fin, card), 'raise ' + kind), 'status for an exception')
        same('exception', final_status(pr.run(added(*FAR), ops, ('exc', 'timeout'), card), 'own timeout'),
             'the handler\'s own TimeoutError under a live deadline')
    # normal return
    for card, ops in (('UU', ('M',)), ('SS', ()), ('US', ('M', 'M')), ('SU', ('R', 'M'))):
        same('normal', final_status(pr.run(BASE, ops, ('ret',), card), 'return'), 'status for a normal return')
    for card in ('UU', 'SU'):
        same('unary', final_status(pr.run(BASE, ('R',), ('ret',), card), 'return without message'),
             'status for a unary reply without its message')
    # GRPCError: its own status and message
    for st, msg, card, ops in ((5, 'nf', 'UU', ('M',)), (0, None, 'UU', ('M',)), (0, 'ok', 'SS', ()),
                               (16, '', 'US', ()), (13, 'a%2Fb', 'SU', ())):
        got = final_status(pr.run(BASE, ops, ('grpc', st, msg), card), 'raise GRPCError')
        if got != (st, msg):
            raise Unsupported('GRPCError(%r, %r) answered %r' % (st, msg, got))
    # GRPCError(OK) on a unary reply without a message
    got = {final_status(pr.run(BASE, (), ('grpc', 0, m), card), 'GRPCError(OK) without message', False)
           for card in ('UU', 'SU') for m in (None, 'x')}
    if got == {f['exception']}:
        f['grpc_ok_unary_as_exception'] = True
    elif got == {None}:
        f['grpc_ok_unary_as_exception'] = False
    else:
        raise Unsupported('GRPCError(OK) on a unary reply without a message answered %r' % (got,))
    # a BaseException that is not an Exception
    got = {final_status(pr.run(BASE, ops, ('base',), card), 'raise BaseException', False)
           for card, ops in (('UU', ('M',)), ('SS', ()))}
    if got == {None}:
        f['base_propagates'] = True
    elif len(got) == 1:
        f['base_propagates'] = False
        f['base_status'] = got.pop()
    else:
        raise Unsupported('BaseException answered %r' % (got,))
    # the deadline fires while the handler waits: honoured / swallowed then anything
    for card in ('UU', 'SS'):
        st = final_status(pr.run(added(*FAR), ('M',), ('wait',), card), 'deadline honoured')
        same('deadline_cancelled', st, 'deadline honoured')
        for fin2 in (('ret',), ('exc',), ('base',), ('grpc', 5, 'x'), ('exc', 'timeout')):
            st = final_status(pr.run(added(*FAR), ('M',), ('wait',), card, policy='swallow', fin2=fin2),
                              'deadline swallowed')
            same('deadline_failed', st, 'deadline swallowed')
    # ... and a deadline that has expired on arrival: like the honoured one, handler not called
    for t in ('0n', '0S', '00000000H'):
        obs = pr.run(added('grpc-timeout', t))
        if obs['end'] != 'not-run' or final_status(obs, 'expired') != f['deadline_cancelled']:
            raise Unsupported('deadline expired on arrival (%s) answered %r' % (t, obs['frames']))
    for k in ('deadline_cancelled', 'deadline_failed'):
        if f[k][1] is not None:
            raise Unsupported('DEADLINE status carries a message: %r' % (f[k],))
    if f['normal'][1] is not None:
        raise Unsupported('normal status carries a message: %r' % (f['normal'],))
    return f


def generate(repo):
    import logging
    logging.disable(logging.CRITICAL)
    pr = Probe(repo)
    table, abort_names = abort_facts(pr)
    ex = exit_facts(pr)
    from grpclib.const import Status
    from grpclib.encoding.base import GRPC_CONTENT_TYPE
    from grpclib.encoding.proto import ProtoCodec
    # the response HEADERS of an accepted call carry the content type of the codec
    obs = pr.run(BASE)
    ct = header_dict(obs['frames'][0]).get('content-type')
    if ct != GRPC_CONTENT_TYPE + '+' + ProtoCodec.__content_subtype__:
        raise Unsupported('response content-type %r' % ct)
    # ... whatever the response shape: HEADERS, trailers-only at exit, explicit trailers-only
    for sub in ('json', 'x.my-codec'):
        own = replaced('content-type', 'application/grpc+' + sub)
        for ops, fin in ((('M',), ('ret',)), ((), ('exc',)), ((), ('grpc', 5, 'nf')), ((('T', 7, 'pd'),), ('ret',)),
                         (('I',), ('ret',))):
            obs = pr.run(own, ops, fin, 'SS', codec=sub)
            got = header_dict(obs['frames'][0]).get('content-type') if obs['frames'] else None
            if got != GRPC_CONTENT_TYPE + '+' + sub:
                raise Unsupported('codec %s: response content-type %r (%r)' % (sub, got, ops))

    def opt_z(v):
        return 'None' if v is None else 'Some %d' % v

    def opt_s(v):
        return 'None' if v is None else 'Some %s' % zs(v)

    def pair(p):
        return '(%d, %s)' % (p[0], opt_s(p[1]))
    L = []
    L.append('(* GENERATED by tools/facts_C03.py from the behaviour of /repo (%d probe calls) -- do not edit; '
             'rewritten on every run *)' % pr.n)
    L.append('From Coq Require Import ZArith List.')
    L.append('Import ListNotations.')
    L.append('Open Scope Z_scope.')
    L.append('')
    L.append('(* the defects a request can be refused for *)')
    L.append('Inductive rguard :=')
    L.append('| GetNe (k v : list Z)            (* dict(headers).get(k) != v *)')
    L.append('| IsNone (k : list Z)             (* dict(headers).get(k) is None *)')
    L.append("| CtMismatch                      (* content-type present but not grpc / not the codec's subtype *)")
    L.append('| UnknownPath                     (* :path absent or not a key of the mapping *)')
    L.append('| TryValueError (f : list Z).     (* f(headers) raises ValueError *)')
    L.append('')
    L.append('(* (defect, :status, grpc-status, grpc-message) of every early refusal, in order of precedence *)')
    L.append('Definition abort_table : list (rguard * Z * option Z * option (list Z)) := [')
    rows = ['  (%s, %d, %s, %s)' % (g, h, opt_z(gs), opt_s(m)) for g, h, gs, m in table]
    L.append(';\n'.join(rows))
    L.append('].')
    L.append('(* a refusal is HEADERS with these names + END_STREAM, then RST_STREAM while the client side is open *)')
    L.append('Definition abort_header_names : list (list Z) := [%s].' % '; '.join(zs(n) for n in abort_names))
    L.append('')
    L.append('(* at exit from the handler: (status, message) for an Exception that is not a GRPCError, for a unary reply')
    L.append('   without a message, and for the normal return *)')
    L.append('Definition aexit_exception : Z * option (list Z) := %s.' % pair(ex['exception']))
    L.append('Definition aexit_unary_missing : Z * option (list Z) := %s.' % pair(ex['unary']))
    L.append('Definition aexit_normal : Z * option (list Z) := %s.' % pair(ex['normal']))
    L.append('(* GRPCError(Status.OK) on a unary reply without a message is handled as any other exception *)')
    L.append('Definition aexit_grpc_ok_unary_as_exception : bool := %s.'
             % ('true' if ex['grpc_ok_unary_as_exception'] else 'false'))
    L.append('(* a BaseException that is not an Exception is propagated and nothing is sent (D4) *)')
    L.append('Definition aexit_base_propagates : bool := %s.' % ('true' if ex['base_propagates'] else 'false'))
    L.append('(* status sent when the deadline fired: cancellation swallowed by the handler / honoured *)')
    L.append('Definition deadline_status_failed : Z := %d.' % ex['deadline_failed'][0])
    L.append('Definition deadline_status_cancelled : Z := %d.' % ex['deadline_cancelled'][0])
    L.append('')
    L.append('Definition grpc_content_type : list Z := %s.' % zs(GRPC_CONTENT_TYPE))
    L.append('Definition proto_subtype : list Z := %s.' % zs(ProtoCodec.__content_subtype__))
    L.append('Definition status_ok : Z := %d.' % Status.OK.value)
    return '\n'.join(L) + '\n'


if __name__ == '__main__':
    sys.stdout.write(generate(os.environ.get('VERIF_REPO', '/repo')))
