#!/bin/bash
# development aid: re-run tools/seeded_verify.py over every kept seeded change (and the not yet kept ones under /tmp)
cd "$(dirname "$0")/.."
mode=$1   # "" (scratch tree, proof leg skipped) or --full (patch applied to /repo itself, all legs)
for d in seeded/*/; do
  name=$(basename $d)
  prop=$(python3 -c "import json,sys; m=json.load(open('$d/meta.json')); print(m.get('verif',{}).get('property') or m.get('property'))")
  rm -rf /var/tmp/seedsrc-$name; cp -r $d /var/tmp/seedsrc-$name
  python3 tools/seeded_verify.py /var/tmp/seedsrc-$name $prop $name $mode 2>&1 | grep -v WARNING | tail -2 | head -1
  rm -rf /var/tmp/seedsrc-$name
done
