"""facts_C16.py -- what Model/Channel.v needs to know about grpclib's connection management, stated by MEANING
and copied into coq/Gen/FactsC16.v (property C16).  Fail-closed: anything not understood raises, the generated
file disappears and Props/C16.v stops compiling (tie broken).

Two kinds of facts, none of them about spelling:

(1) PATH facts of `Channel.__connect__` (static: the await structure cannot be probed).  The function is
    normalised with tools/pynorm.py (docstrings/annotations dropped, private helpers -- sync, or coroutines
    awaited at once -- inlined, tests in NNF, early-return form, temporaries inlined) and then every control path
    is enumerated as a sequence of events:
        T1/T0   the channel's "connected" property evaluated to true / false
        ACQ/REL the channel's asyncio.Lock acquired / released (`async with`, or acquire()/release())
        CREATE  `await <loop>.create_connection(...)` / `create_unix_connection(...)`   (the only other await allowed)
        OK      ... returned;  EXC  ... raised an Exception that a handler caught;  ESC  ... raised something no
                handler caught (CancelledError);  RERAISE  bare `raise` in the handler
        STORE   the protocol returned by CREATE is stored into the channel's protocol attribute
        CLEAR   any other assignment to that attribute;  RET  `return <the protocol attribute>` (no re-check)
    Assignments of constants to other attributes (`_state` bookkeeping) and pure configuration tests
    (`self._path is not None`) are not events.  What the proofs use: the connected test is evaluated first and the
    fast path returns without await; the test is re-evaluated after acquiring the lock; exactly one CREATE, inside
    the lock, and no other await inside the lock; the protocol is stored only after a successful CREATE with no
    await in between; an Exception of CREATE is re-raised to this caller with the lock released and nothing stored;
    the function returns the stored attribute without re-checking.
    Roles are found, not named: the lock is the attribute used in `async with self.<L>` (checked by value to be an
    asyncio.Lock), the protocol attribute is the STORE target (and must be what RET returns and what the probes
    below set), the connected property is the property the tests read.

(2) PROBED facts (by value: the modules of the repository under test are imported and REAL objects are driven
    through their public methods over a fake transport): a real H2Protocol(Handler(), config, h2 config) after
    connection_made(fake transport), with two streams registered through processor.register(); then, per state
        fresh | connection_lost delivered | Connection.close() ran (keepalive) | transport closing |
        GOAWAY received (error code x last_stream_id, incl. NO_ERROR/2**31-1)
    * the value of the channel's connected property                         (`_connected` is the conjunction of:
      protocol present, handler not closed, connection not closing)
    * whether every registered stream was terminated, whether transport.close() was called
    * the effect of Channel.close() in that state: every registered stream terminated, transport closed (once),
      the channel holds no protocol and is not connected afterwards, a second close() is harmless; the same for
      `__aexit__`
    * Connection.close() is idempotent (one transport.close()), is_closing() afterwards
"""
import ast
import asyncio
import os

import pynorm
from extract_facts import Unsupported, parse, class_node, load

T1, T0, ACQ, REL, CREATE, OK, EXC, ESC, STORE, RERAISE, RET, RAISE_OTHER, CLEAR = range(1, 14)
CREATE_NAMES = ('create_connection', 'create_unix_connection')


# ------------------------------------------------------------------------------------------------
# (1) paths of Channel.__connect__

def _is_self_attr(e):
    return isinstance(e, ast.Attribute) and isinstance(e.value, ast.Name) and e.value.id == 'self'


def _pure(e):
    for n in ast.walk(e):
        if isinstance(n, (ast.Call, ast.Await, ast.Yield, ast.YieldFrom, ast.NamedExpr, ast.Lambda)):
            return False
    return True


class Paths:
    def __init__(self, cls_node):
        self.props = set()
        for m in cls_node.body:
            if isinstance(m, ast.FunctionDef) and any(
                    isinstance(d, ast.Name) and d.id == 'property' for d in m.decorator_list):
                self.props.add(m.name)
        self.atoms = set()
        self.locks = set()
        self.stores = set()
        self.sets = []           # (attr) of constant assignments, decided after the walk
        self.rets = set()

    # each walker returns a list of (tokens, outcome, env) ; outcome: 'fall' | 'return' | ('raise', kind)
    def seq(self, body, env):
        states = [([], 'fall', env)]
        for st in body:
            nxt = []
            for toks, out, e in states:
                if out != 'fall':
                    nxt.append((toks, out, e))
                    continue
                for t2, o2, e2 in self.stmt(st, e):
                    nxt.append((toks + t2, o2, e2))
            states = nxt
        return states

    def is_create(self, e):
        return (isinstance(e, ast.Await) and isinstance(e.value, ast.Call)
                and isinstance(e.value.func, ast.Attribute) and e.value.func.attr in CREATE_NAMES)

    def lock_of(self, e, env):
        if isinstance(e, ast.Name) and e.id in env.get('alias', {}):
            e = env['alias'][e.id]
        if _is_self_attr(e):
            return e.attr
        return None

    def test_atom(self, t):
        """(prop, polarity) if the test is `self.<property>` or its negation"""
        pol = True
        while isinstance(t, ast.UnaryOp) and isinstance(t.op, ast.Not):
            t, pol = t.operand, not pol
        if _is_self_attr(t) and t.attr in self.props:
            return t.attr, pol
        return None

    def stmt(self, st, env):
        if isinstance(st, ast.Pass):
            return [([], 'fall', env)]
        if isinstance(st, ast.If):
            atom = self.test_atom(st.test)
            if atom is not None:
                prop, pol = atom
                self.atoms.add(prop)
                out = []
                for val in (True, False):          # value of the property
                    branch = st.body if val == pol else st.orelse
                    for t, o, e in self.seq(branch, env):
                        out.append(([T1 if val else T0] + t, o, e))
                return out
            if not _pure(st.test) or any(_is_self_attr(n) and n.attr in self.props for n in ast.walk(st.test)):
                raise Unsupported('test not understood: ' + ast.unparse(st.test))
            return self.seq(st.body, env) + self.seq(st.orelse, env)
        if isinstance(st, ast.AsyncWith):
            if len(st.items) != 1 or st.items[0].optional_vars is not None:
                raise Unsupported('async with shape')
            lk = self.lock_of(st.items[0].context_expr, env)
            if lk is None:
                raise Unsupported('async with on ' + ast.unparse(st.items[0].context_expr))
            self.locks.add(lk)
            return [([ACQ] + t + [REL], o, e) for t, o, e in self.seq(st.body, env)]
        if isinstance(st, ast.Try):
            return self.try_(st, env)
        if isinstance(st, ast.Return):
            v = st.value
            if isinstance(v, ast.Call) and isinstance(v.func, ast.Name) and v.func.id == 'cast' and len(v.args) == 2:
                v = v.args[1]
            if v is not None and _is_self_attr(v):
                self.rets.add(v.attr)
                return [([RET], 'return', env)]
            raise Unsupported('return of ' + (ast.unparse(st.value) if st.value else 'None'))
        if isinstance(st, ast.Raise):
            if st.exc is None:
                kind = env.get('handling')
                if kind is None:
                    raise Unsupported('bare raise outside a handler')
                return [([RERAISE], ('raise', kind), env)]
            return [([RAISE_OTHER], ('raise', 'E'), env)]
        if isinstance(st, ast.Expr):
            v = st.value
            if isinstance(v, ast.Await) and isinstance(v.value, ast.Call) and isinstance(v.value.func, ast.Attribute) \
                    and v.value.func.attr == 'acquire':
                lk = self.lock_of(v.value.func.value, env)
                if lk is None:
                    raise Unsupported('acquire on ' + ast.unparse(v.value.func.value))
                self.locks.add(lk)
                return [([ACQ], 'fall', env)]
            if isinstance(v, ast.Call) and isinstance(v.func, ast.Attribute) and v.func.attr == 'release':
                lk = self.lock_of(v.func.value, env)
                if lk is None:
                    raise Unsupported('release on ' + ast.unparse(v.func.value))
                self.locks.add(lk)
                return [([REL], 'fall', env)]
            if self.is_create(v):
                return self.create(env, None)
            raise Unsupported('expression statement ' + ast.unparse(v))
        if isinstance(st, ast.Assign) and len(st.targets) == 1:
            tgt, v = st.targets[0], st.value
            if self.is_create(v):
                return self.create(env, tgt)
            if _is_self_attr(tgt):
                # value derived from the result of CREATE?
                derived = any(isinstance(n, ast.Name) and n.id in env.get('res', ()) for n in ast.walk(v))
                if derived:
                    self.stores.add(tgt.attr)
                    return [([STORE], 'fall', env)]
                if not _pure(v):
                    raise Unsupported('assignment ' + ast.unparse(st))
                self.sets.append(tgt.attr)
                return [([('SET', tgt.attr)], 'fall', env)]
            if isinstance(tgt, ast.Name) and _pure(v):
                e2 = dict(env)
                if any(isinstance(n, ast.Name) and n.id in env.get('res', ()) for n in ast.walk(v)):
                    e2['res'] = set(env.get('res', ())) | {tgt.id}
                else:
                    al = dict(env.get('alias', {}))
                    al[tgt.id] = v
                    e2['alias'] = al
                return [([], 'fall', e2)]
            raise Unsupported('assignment ' + ast.unparse(st))
        raise Unsupported('statement ' + type(st).__name__ + ': ' + ast.unparse(st)[:80])

    def create(self, env, tgt):
        """`[tgt =] await loop.create_connection(...)`: returns, raises an Exception, raises a BaseException"""
        out = []
        e_ok = dict(env)
        toks = [CREATE, OK]
        if tgt is not None:
            names = [n.id for n in ast.walk(tgt) if isinstance(n, ast.Name)]
            if _is_self_attr(tgt):
                self.stores.add(tgt.attr)
                toks.append(STORE)
            elif names:
                e_ok['res'] = set(env.get('res', ())) | set(names)
            else:
                raise Unsupported('target of the connection attempt')
        out.append((toks, 'fall', e_ok))
        out.append(([CREATE], ('raise', 'E'), env))
        out.append(([CREATE], ('raise', 'B'), env))
        return out

    def try_(self, st, env):
        def catches(h, kind):
            if h.type is None:
                return True
            if isinstance(h.type, ast.Name) and h.type.id == 'BaseException':
                return True
            if isinstance(h.type, ast.Name) and h.type.id == 'Exception':
                return kind == 'E'
            raise Unsupported('except clause ' + ast.unparse(h.type))
        res = []
        for toks, out, e in self.seq(st.body, env):
            if isinstance(out, tuple):
                kind = out[1]
                h = next((h for h in st.handlers if catches(h, kind)), None)
                if h is None:
                    res.append((toks, out, e))
                    continue
                if h.name is not None:
                    raise Unsupported('named exception handler')
                e2 = dict(e)
                e2['handling'] = kind
                for t2, o2, e3 in self.seq(h.body, e2):
                    e4 = dict(e3)
                    e4.pop('handling', None)
                    res.append((toks + [EXC] + t2, o2, e4))
            elif out == 'fall':
                for t2, o2, e3 in self.seq(st.orelse, e):
                    res.append((toks + t2, o2, e3))
            else:
                res.append((toks, out, e))
        if st.finalbody:
            fin = []
            for toks, out, e in res:
                for t2, o2, e3 in self.seq(st.finalbody, e):
                    fin.append((toks + t2, out if o2 == 'fall' else o2, e3))
            res = fin
        return res


def connect_paths(repo):
    tree = parse(repo, 'grpclib/client.py')
    try:
        fn = pynorm.canonical_function(tree, 'Channel', '__connect__', rename=False)
    except pynorm.Unsupported as e:
        raise Unsupported('pynorm: %s' % e)
    if not isinstance(fn, ast.AsyncFunctionDef):
        raise Unsupported('__connect__ is not a coroutine function')
    p = Paths(class_node(pynorm.strip_noise(tree), 'Channel'))
    states = p.seq(fn.body, {})
    if len(p.atoms) != 1 or len(p.locks) != 1 or len(p.stores) != 1:
        raise Unsupported('roles not unique: connected=%s lock=%s protocol=%s' % (p.atoms, p.locks, p.stores))
    proto = next(iter(p.stores))
    if p.rets != {proto}:
        raise Unsupported('__connect__ returns %s, stores %s' % (p.rets, proto))
    paths = set()
    for toks, out, _ in states:
        t = []
        for x in toks:
            if isinstance(x, tuple):
                if x[1] == proto:
                    t.append(CLEAR)
                continue
            t.append(x)
        if isinstance(out, tuple) and out[1] == 'B' and RERAISE not in t and EXC not in t:
            # an escaping BaseException: mark where it left (after CREATE), then the unwinding events follow
            i = len(t) - 1 - t[::-1].index(CREATE)
            t = t[:i + 1] + [ESC] + t[i + 1:]
        if out == 'fall':
            raise Unsupported('a path of __connect__ ends without return')
        if RET in t:
            # the value reaches the caller after every unwinding event (`return` inside try/finally or inside
            # `async with` releases first)
            if t.count(RET) != 1:
                raise Unsupported('two returns on one path')
            t = [x for x in t if x != RET] + [RET]
        paths.add(tuple(t))
    return sorted(paths), next(iter(p.atoms)), next(iter(p.locks)), proto


# ------------------------------------------------------------------------------------------------
# (2) probes on real objects

class FakeTransport:
    def __init__(self):
        self.closing = False
        self.close_calls = 0
        self.written = 0

    def write(self, data):
        self.written += len(data)

    def is_closing(self):
        return self.closing

    def close(self):
        self.close_calls += 1
        self.closing = True

    def get_extra_info(self, name, default=None):
        return default

    def abort(self):
        self.close()


class FakeStream:
    def __init__(self, sid):
        self.id = sid
        self.terminated = 0
        self.wrapper = None

    def __terminated__(self, reason):
        self.terminated += 1


def goaway_bytes(code, last, debug):
    from hyperframe.frame import SettingsFrame, GoAwayFrame
    return SettingsFrame(0).serialize() + GoAwayFrame(0, last_stream_id=last, error_code=code,
                                                      additional_data=debug).serialize()


STATES = [('fresh', None), ('lost', None), ('kaclose', None), ('tr_closing', None),
          ('goaway', (0, 0, b'')), ('goaway', (0, 2 ** 31 - 1, b'')), ('goaway', (0, 2 ** 31 - 1, b'bye')),
          ('goaway', (2, 1, b'')), ('goaway', (11, 2 ** 31 - 1, b'x'))]


def probes(repo, connected_prop, proto_attr, lock_attr):
    import logging
    logging.disable(logging.CRITICAL)
    client = load(repo, 'grpclib.client')
    protocol = load(repo, 'grpclib.protocol')
    config = load(repo, 'grpclib.config')
    from h2.config import H2Configuration
    loop = asyncio.new_event_loop()
    try:
        asyncio.set_event_loop(loop)

        def mk():
            cfg = config.Configuration().__for_client__()
            h2c = H2Configuration(client_side=True, header_encoding='ascii', validate_inbound_headers=False,
                                  validate_outbound_headers=False, normalize_inbound_headers=False,
                                  normalize_outbound_headers=False)
            p = protocol.H2Protocol(client.Handler(), cfg, h2c)
            tr = FakeTransport()
            p.connection_made(tr)
            streams = [FakeStream(1), FakeStream(3)]
            for s in streams:
                p.processor.register(s)
            ch = client.Channel()
            if not isinstance(getattr(ch, lock_attr, None), asyncio.Lock):
                raise Unsupported('Channel.%s is not an asyncio.Lock' % lock_attr)
            if getattr(ch, proto_attr, 'missing') is not None:
                raise Unsupported('a new Channel already holds a protocol')
            if getattr(ch, connected_prop) is not False:
                raise Unsupported('a new Channel claims to be connected')
            setattr(ch, proto_attr, p)
            return ch, p, tr, streams

        def drive(p, tr, state, arg):
            if state == 'lost':
                p.connection_lost(None)
            elif state == 'kaclose':
                p.connection.close()
            elif state == 'tr_closing':
                tr.closing = True
            elif state == 'goaway':
                p.data_received(goaway_bytes(*arg))

        connected, after_state, after_close, after_aexit = [], [], [], []
        for state, arg in STATES:
            ch, p, tr, streams = mk()
            drive(p, tr, state, arg)
            connected.append(int(bool(getattr(ch, connected_prop))))
            after_state.append([int(all(s.terminated for s in streams)), int(tr.close_calls > 0),
                                int(bool(p.connection.is_closing()))])
            # Channel.close() in that state
            lock0 = getattr(ch, lock_attr)
            ch.close()
            row = [int(all(s.terminated for s in streams)), tr.close_calls,
                   int(getattr(ch, proto_attr, None) is None), int(bool(getattr(ch, connected_prop)))]
            ch.close()
            row.append(tr.close_calls)
            row.append(int(getattr(ch, lock_attr, None) is lock0))      # close() keeps the channel's lock
            after_close.append(row)
            # the same through `async with channel` exit
            ch, p, tr, streams = mk()
            drive(p, tr, state, arg)
            lock0 = getattr(ch, lock_attr)
            co = ch.__aexit__(None, None, None)
            try:
                co.send(None)
                raise Unsupported('Channel.__aexit__ suspends')
            except StopIteration:
                pass
            after_aexit.append([int(all(s.terminated for s in streams)), tr.close_calls,
                                int(getattr(ch, proto_attr, None) is None), int(bool(getattr(ch, connected_prop))),
                                int(getattr(ch, lock_attr, None) is lock0)])
        # a channel without protocol
        ch = client.Channel()
        ch.close()
        none_row = [int(getattr(ch, proto_attr, None) is None), int(bool(getattr(ch, connected_prop)))]
        # Connection.close() twice; delivered connection_lost after Connection.close(); loss twice
        ch, p, tr, streams = mk()
        p.connection.close()
        p.connection.close()
        conn_row = [tr.close_calls, int(bool(p.connection.is_closing())), int(any(s.terminated for s in streams))]
        p.connection_lost(None)
        p.connection_lost(None)
        conn_row += [int(all(s.terminated for s in streams)), tr.close_calls, int(bool(getattr(ch, connected_prop)))]
        return connected, after_state, after_close, after_aexit, none_row, conn_row
    finally:
        try:
            loop.close()
        finally:
            asyncio.set_event_loop(None)
        logging.disable(logging.NOTSET)


# ------------------------------------------------------------------------------------------------

def zl(l):
    return '[' + '; '.join(str(int(x)) for x in l) + ']'


def zll(ll):
    return '[' + ';\n   '.join(zl(l) for l in ll) + ']'


def generate(repo):
    paths, connected_prop, lock_attr, proto_attr = connect_paths(repo)
    connected, after_state, after_close, after_aexit, none_row, conn_row = probes(
        repo, connected_prop, proto_attr, lock_attr)
    out = ['(* GENERATED by tools/facts_C16.py from grpclib/client.py, grpclib/protocol.py -- do not edit *)',
           'From Coq Require Import ZArith List.', 'Import ListNotations.', 'Open Scope Z_scope.',
           '(* events: T1=1 T0=2 ACQ=3 REL=4 CREATE=5 OK=6 EXC=7 ESC=8 STORE=9 RERAISE=10 RET=11 RAISE_OTHER=12 CLEAR=13 *)',
           'Definition connect_paths : list (list Z) :=\n  %s.' % zll(paths),
           '(* states: fresh, connection_lost, Connection.close(), transport closing, GOAWAY x5 *)',
           'Definition connected_by_state : list Z := %s.' % zl(connected),
           '(* per state: all registered streams terminated, transport.close() called, connection.is_closing() *)',
           'Definition effects_by_state : list (list Z) :=\n  %s.' % zll(after_state),
           '(* Channel.close() in that state: streams terminated, transport.close() calls, holds no protocol, connected,'
           ' transport.close() calls after a second close(), the lock object is unchanged *)',
           'Definition close_by_state : list (list Z) :=\n  %s.' % zll(after_close),
           'Definition aexit_by_state : list (list Z) :=\n  %s.' % zll(after_aexit),
           'Definition close_without_protocol : list Z := %s.' % zl(none_row),
           '(* Connection.close() x2: transport.close() calls, is_closing, any stream terminated; then connection_lost x2:'
           ' all terminated, transport.close() calls, connected *)',
           'Definition connection_close_twice : list Z := %s.' % zl(conn_row)]
    return '\n'.join(out) + '\n'


if __name__ == '__main__':
    print(generate(os.environ.get('VERIF_REPO', '/repo')))
