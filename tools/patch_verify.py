#!/usr/bin/env python3
"""Run the registered checks, ALL legs (regeneration, proofs, correspondence, oracle), against a patched
scratch copy of /repo, inside a scratch copy of /verif, so that many patches can be examined in parallel
without touching /repo or /verif's build directory (development aid; not part of any registered check).

  tools/patch_verify.py <patch.diff> <name> <prop>[,<prop>...] [--suite] [--seed N]

1. scratch worktree of /repo's HEAD under /var/tmp, patch applied
2. with --suite: the pinned test-suite is run on it
3. scratch copy of /verif (without .git, seeded, replays) under /var/tmp; `./check <prop> --tier quick`
   there with VERIF_REPO=<worktree>, for each property asked for
4. one JSON line per property on stdout; both scratch directories are removed
"""
import json
import os
import subprocess
import sys
import time

VERIF = os.path.dirname(os.path.dirname(os.path.abspath(__file__)))


def sh(cmd, cwd=None, env=None, timeout=3000):
    e = dict(os.environ)
    e.update(env or {})
    try:
        p = subprocess.run(cmd, cwd=cwd, env=e, shell=isinstance(cmd, str), stdout=subprocess.PIPE,
                           stderr=subprocess.STDOUT, timeout=timeout)
        return p.returncode, p.stdout.decode('utf-8', 'replace')
    except subprocess.TimeoutExpired as ex:
        return 124, (ex.stdout or b'').decode('utf-8', 'replace') + '\nTIMEOUT'


def main():
    patch, name, props = sys.argv[1:4]
    props = props.split(',')
    name = name.replace('/', '-')
    seed = '1'
    if '--seed' in sys.argv:
        seed = sys.argv[sys.argv.index('--seed') + 1]
    wt = '/var/tmp/pv-wt-%s-%d' % (name, os.getpid())
    vc = '/var/tmp/pv-vc-%s-%d' % (name, os.getpid())
    rc, o = sh(['git', '-C', '/repo', 'worktree', 'add', '--detach', '-q', wt, 'HEAD'])
    if rc:
        print(json.dumps({'name': name, 'error': 'worktree: ' + o[-200:]}))
        return 2
    try:
        if patch != '-':
            rc, o = sh(['git', '-C', wt, 'apply', patch])
            if rc:
                print(json.dumps({'name': name, 'error': 'apply: ' + o[-300:]}))
                return 2
        suite = None
        if '--suite' in sys.argv:
            rc, o = sh(['/venv/bin/python', '-m', 'pytest', '-q', '-p', 'no:cacheprovider', '--timeout=900'], cwd=wt)
            suite = rc
        sh(['rsync', '-a', '--exclude', '.git', '--exclude', 'seeded', '--exclude', 'replays', '--exclude', 'harmless',
            VERIF + '/', vc + '/'])
        os.makedirs(os.path.join(vc, 'replays'), exist_ok=True)
        for p in props:
            t0 = time.time()
            rcc, oc = sh(['./check', p, '--tier', 'quick'], cwd=vc, env={'VERIF_REPO': wt, 'VERIF_SEED': seed})
            lines = [ln for ln in oc.split('\n') if ln.startswith('VIOLATION') or ' tier=' in ln]
            viol = [ln for ln in lines if ln.startswith('VIOLATION')]
            rec = {'name': name, 'property': p, 'suite_rc': suite, 'rc': rcc, 'wall_s': round(time.time() - t0, 1),
                   'violations': len(viol),
                   'with_failing_input': len([ln for ln in viol if 'no-failing-input-found' not in ln]),
                   'lines': [ln[:300] for ln in lines[:6]]}
            # say what broke: keep the first replay file's headline
            for ln in viol[:1]:
                rp = ln.split('replay=')[1].split()[0]
                rp = os.path.join(vc, os.path.relpath(rp, VERIF)) if rp.startswith(VERIF) else os.path.join(vc, rp)
                try:
                    r = json.load(open(rp))
                    rec['replay_head'] = {k: (str(r[k])[:1500]) for k in list(r)[:8]}
                except Exception as ex:
                    rec['replay_head'] = 'unreadable: %r' % ex
            if rcc not in (0, 1) or (rcc == 1 and not viol):
                rec['tail'] = oc[-600:]
            print(json.dumps(rec), flush=True)
    finally:
        sh(['git', '-C', '/repo', 'worktree', 'remove', '--force', wt])
        sh(['rm', '-rf', vc])
    return 0


if __name__ == '__main__':
    sys.exit(main())
