"""facts_C03Probes.py -> coq/Gen/FactsC03Probes.v: what the repository under translation DOES on a fixed set of
probe handler programs, as Coq terms of Model/ServerCall.v (inputs) and of its frame / result types (outputs).

Proofs/C03Proofs.v proves (vm_compute) that the MODEL maps these inputs to these outputs.  This replaces the
former comparison of source text (`if ...: raise ProtocolError` spellings, header-list literals, the reset
clause): the precondition checks of the four sending calls, which frames each call emits in which state
(HEADERS / trailers vs trailers-only / RST_STREAM after non-OK while closable / nothing after a refusal) and what
h2 does to a half-closed stream are stated by their observable meaning.  Nothing here reads the syntax of the
source; a refactoring that keeps the behaviour keeps this file byte-identical.  Fail-closed: an observation that
has no counterpart in the model's vocabulary raises Unsupported.
"""
import os
import sys

from extract_facts import Unsupported, zs
import facts_C03 as F

I, M, C, R, S = 'I', 'M', 'C', 'R', 'S'
T0 = ('T', 0, None)
T5 = ('T', 5, 'nf')
IX, MX = 'I!a', 'M!h'
T5X = ('T', 5, 'nf', 'a')
T0X = ('T', 0, None, 'h')

PROGRAMS = [
    [], [I], [M], [I, I], [I, M], [M, I], [M, M], [M, M, M], [T0], [T5], [M, T0], [M, T5], [I, T0], [I, T5],
    [T5, T5], [M, T0, T0], [M, T0, T5], [T5, I], [T5, M], [M, T0, I], [M, T0, M], [C], [C, C], [C, I], [C, M],
    [C, T5], [C, T0], [M, C], [I, C, M], [T0, C], [T5, C], [M, T0, C], [T0, M, C], [T0, I, C], [I, T5, C],
    [R, M], [R, R, R], [R, M, R, T0], [S, M, S],
    [IX], [IX, I], [MX], [MX, M], [M, MX], [T5X], [T5X, T5], [M, T0X, T0], [I, MX, T5X],
]
FINS = [('ret',), ('exc',), ('grpc', 9, 'why'), ('base',)]


def op_term(o):
    if o == 'R':
        return 'Recv'
    if o == 'C':
        return 'Cancel'
    if o == 'S':
        return 'Sleep'
    if isinstance(o, str) and o[0] in 'IM':
        return '%s %s' % ('SendInitial' if o[0] == 'I' else 'SendMessage', 'true' if len(o) > 1 else 'false')
    if isinstance(o, tuple) and o[0] == 'T':
        return 'SendTrailing %d %s %s' % (o[1], 'None' if o[2] is None else '(Some %s)' % zs(o[2]),
                                          'true' if len(o) > 3 else 'false')
    raise Unsupported('probe op %r' % (o,))


def fin_term(f):
    if f[0] == 'ret':
        return 'Return'
    if f[0] == 'exc':
        return 'RaiseException XPlain'
    if f[0] == 'base':
        return 'RaiseBase'
    return 'RaiseGRPC %d %s' % (f[1], 'None' if f[2] is None else '(Some %s)' % zs(f[2]))


RES = {'ok': 'ROk', 'refused': 'RRefused', 'h2err': 'RH2Err', 'msg': 'RMsg', 'eof': 'REof', 'assert': 'RAssert',
       'error': 'RError', 'cancelled': 'RCancelled'}


def frame_term(f, content_type, reply_hex):
    from urllib.parse import unquote
    if f[0] == 'R':
        if f[1] != 0:
            raise Unsupported('RST_STREAM with error code %r' % (f[1],))
        return 'FRst'
    if f[0] == 'D':
        if f[1] != reply_hex or f[2]:
            raise Unsupported('DATA frame is not one reply message without END_STREAM: %r' % (f,))
        return 'FData'
    if f[0] not in ('H', 'T'):
        raise Unsupported('frame %r' % (f,))
    d = dict((k, v) for k, v in f[1])
    names = [k for k, _ in f[1]]
    gs = d.get('grpc-status')
    if gs is not None and not gs.isdigit():
        raise Unsupported('grpc-status %r' % gs)
    m = d.get('grpc-message')
    msg = 'None' if m is None else '(Some %s)' % zs(unquote(m))
    if f[0] == 'T':
        if names != [n for n in ('grpc-status', 'grpc-message') if n in d] or gs is None or not f[2]:
            raise Unsupported('trailers %r' % (f,))
        return 'FTrailers %s %s' % (gs, msg)
    want = [n for n in (':status', 'content-type', 'grpc-status', 'grpc-message') if n in d]
    if names != want or ':status' not in d or not d[':status'].isdigit():
        raise Unsupported('response headers %r' % (f,))
    if 'content-type' in d and d['content-type'] != content_type:
        raise Unsupported('content-type %r' % d['content-type'])
    return 'FHeaders %s %s %s %s %s' % (d[':status'], 'true' if 'content-type' in d else 'false',
                                        'None' if gs is None else '(Some %s)' % gs, msg,
                                        'true' if f[2] else 'false')


def generate(repo):
    import logging
    logging.disable(logging.CRITICAL)
    pr = F.Probe(repo)
    from grpclib.encoding.base import GRPC_CONTENT_TYPE
    from grpclib.encoding.proto import ProtoCodec
    from harness import peer as P
    reply_hex = P.grpc_frame(pr.impl.REPLY).hex()
    rows_in, rows_out = [], []
    JSON_PROGRAMS = [[], [I], [M], [T5], [M, T0], [I, T5], [T5, C], [M, M], [IX], [MX], [T5X]]
    plan = [(prog, None) for prog in PROGRAMS] + [(prog, sub) for sub in ('json', 'x.my-codec') for prog in JSON_PROGRAMS]
    for prog, sub in plan:
        ct_req = 'application/grpc' if sub is None else 'application/grpc+' + sub
        ct = GRPC_CONTENT_TYPE + '+' + (sub or ProtoCodec.__content_subtype__)
        for card in ('UU', 'SS'):
            for eof in (True, False):
                fins = FINS if len(prog) <= 2 else FINS[:1]
                for fin in fins:
                    if not eof and sum(1 for o in prog if o == R) > 1:
                        continue        # the handler would wait for a second message the probe never sends
                    obs = pr.run(F.replaced('content-type', ct_req), [o if isinstance(o, str) else list(o) for o in prog],
                                 fin, card, eof, codec=sub)
                    if obs['hang'] or obs['end'] in (None, 'not-run', 'cancelled'):
                        raise Unsupported('probe %r did not run to its end: %r' % (prog, obs['end']))
                    try:
                        res = [RES[r] for r in obs['results']]
                    except KeyError as e:
                        raise Unsupported('call result %s in probe %r' % (e, prog))
                    frames = [frame_term(f, ct, reply_hex) for f in obs['frames']]
                    rows_in.append('  (%s, %s, %s, %s, [%s], %s)' % (
                        card, 'true' if eof else 'false', zs(sub or ProtoCodec.__content_subtype__), zs(ct_req),
                        '; '.join(op_term(o) for o in prog), fin_term(fin)))
                    rows_out.append('  ([%s], [%s])' % ('; '.join(frames), '; '.join(res)))
    L = []
    L.append('(* GENERATED by tools/facts_C03Probes.py from the behaviour of /repo (%d probe calls) -- do not edit *)'
             % pr.n)
    L.append('From Coq Require Import ZArith List.')
    L.append('From GV Require Import Gen.FactsC03 Model.ServerCall.')
    L.append('Import ListNotations.')
    L.append('Open Scope Z_scope.')
    L.append('')
    L.append('(* probe calls on an acceptable request: (cardinality, END_STREAM received, content subtype of the')
    L.append("   server's codec, content-type of the request, program, ending) *)")
    L.append('Definition golden_in : list (card * bool * list Z * list Z * list op * fin0) := [')
    L.append(';\n'.join(rows_in))
    L.append('].')
    L.append('(* what the server did: (frames on the stream, result of every call of the program) *)')
    L.append('Definition golden_out : list (list frame * list opres) := [')
    L.append(';\n'.join(rows_out))
    L.append('].')
    return '\n'.join(L) + '\n'


if __name__ == '__main__':
    sys.stdout.write(generate(os.environ.get('VERIF_REPO', '/repo')))
