"""facts_C02.py -- source facts of the client response path (property C02)  ->  coq/Gen/FactsC02.v

Fail-closed (anything not understood raises Unsupported, tools/regen.py then removes the stale output and
exactly the C02 theorems stop compiling) -- but the facts state MEANING, not spelling.

By VALUE (the modules of the repository under test are imported, public names only):
  grpc_content_type, proto_content_subtype, and the numeric value of the statuses named below.

By an EXPANDED, ORDERED WALK of the PUBLIC methods of client.Stream (recv_initial_metadata,
recv_trailing_metadata, __aexit__) and of the four public __call__ methods.  The walk follows evaluation order;
a call of a private helper of the same class / module (`self._x(..)`, `_x(..)`, also awaited) is replaced by
the walk of its body, so extracting, inlining, renaming or merging private helpers, renaming locals and
private attributes, early returns versus if/elif/else, De Morgan'd tests, temporaries, try/except/else versus
try/except + tail, comments, annotations and docstrings are all invisible.  What is recorded is a sequence of
role-level events, reduced to first occurrences:
  key K           a response header name is consulted: `m.get(K ..)`, `m[K]`, `K in m` (names of module-level
                  string constants are resolved by value, e.g. the details key)
  call M          a public coroutine/method of the stream itself is invoked (recv_initial_metadata, ...)
  isinstance C    the class an in-flight exception is tested against
  status N        a literal Status member passed to a raised GRPCError (where it occurs relative to the keys)
  default N       the default of a `.get(x, Status.N)` on the :status path
  except C        exception classes caught on the way
and for the __call__ bodies the public stream operations (open, send_message, send_request, recv_message,
async iteration, `assert .. is not None`), consecutive repetitions collapsed.

Facts emitted (theorem C02_source_facts compares them with what Model/ClientCall.v transcribes):
  ri_keys / rt_keys / exit_events   which headers the three entry points consult and in which order, which
                                    public receives the context exit performs, which exception class is upgraded
  non200_default_status             the status for a :status that is not in the table (incl. a missing one)
  content_type_status               the only literal status raised between consulting content-type and
                                    consulting grpc-status
  grpc_status_error_status          the only literal status raised after consulting grpc-status
  rt_caught / exit_caught           exception classes caught on the trailing-metadata path / at the exit
  call_uu/us/su/ss                  what the four __call__ bodies do with the stream
Dropped since no theorem used them: the literal statement lists of the helpers, the spelled tests of
_maybe_finish / __aexit__ / _raise_for_grpc_status (their behaviour is tied by the correspondence runs).
"""
import ast

from extract_facts import Unsupported, parse, zs, z, class_node, load

PUBLIC_STREAM_CALLS = {'recv_initial_metadata', 'recv_trailing_metadata', 'recv_message', 'send_message',
                       'send_request', 'end', 'cancel', 'open'}
MAX_DEPTH = 12


def need(cond, what):
    if not cond:
        raise Unsupported('C02 facts: ' + what)


class Walk:
    def __init__(self, tree, cls, module):
        self.tree = tree
        self.module = module
        self.cls = cls
        self.methods = {}
        classes = {c.name: c for c in tree.body if isinstance(c, ast.ClassDef)}
        todo, seen = [cls], []
        while todo:                       # the class and its bases defined in the same module (MRO-ish)
            c = todo.pop(0)
            if c in seen or c not in classes:
                continue
            seen.append(c)
            for n in classes[c].body:
                if isinstance(n, (ast.FunctionDef, ast.AsyncFunctionDef)):
                    self.methods.setdefault(n.name, n)
            for b in classes[c].bases:
                b = b.value if isinstance(b, ast.Subscript) else b
                if isinstance(b, ast.Name):
                    todo.append(b.id)
        self.functions = {n.name: n for n in tree.body if isinstance(n, (ast.FunctionDef, ast.AsyncFunctionDef))}
        self.events = []
        self.stack = []

    # ---- resolution of names by value
    def const_str(self, node):
        if isinstance(node, ast.Constant) and isinstance(node.value, str):
            return node.value
        if isinstance(node, ast.Name):
            v = getattr(self.module, node.id, None)
            if isinstance(v, str):
                return v
        return None

    def status_name(self, node):
        if isinstance(node, ast.Attribute) and isinstance(node.value, ast.Name) and node.value.id == 'Status':
            return node.attr
        return None

    def emit(self, *ev):
        self.events.append(tuple(ev))

    # ---- the walk (evaluation order)
    def expand(self, fn):
        need(len(self.stack) < MAX_DEPTH and fn.name not in self.stack, 'recursive / too deep helper ' + fn.name)
        self.stack.append(fn.name)
        for s in fn.body:
            self.visit(s)
        self.stack.pop()

    def visit(self, node):
        if isinstance(node, (ast.FunctionDef, ast.AsyncFunctionDef, ast.Lambda, ast.ClassDef)):
            return                       # nested definitions are not executed here
        if isinstance(node, ast.Expr) and isinstance(node.value, ast.Constant):
            return                       # docstring
        if isinstance(node, ast.AnnAssign):
            if node.value is not None:
                self.visit(node.value)
            return
        if isinstance(node, ast.Raise):
            if node.exc is not None:
                if isinstance(node.exc, ast.Call) and isinstance(node.exc.func, ast.Name) \
                        and node.exc.func.id == 'GRPCError' and node.exc.args:
                    first = node.exc.args[0]
                    for a in node.exc.args:
                        self.visit(a)
                    n = self.status_name(first)
                    if n is not None:
                        self.emit('status', n)
                    elif not isinstance(first, ast.Name):
                        # a computed status (e.g. the table lookup): its default was recorded by the visit
                        pass
                else:
                    self.visit(node.exc)
            return
        if isinstance(node, ast.Try):
            for s in node.body:
                self.visit(s)
            for h in node.handlers:
                names = []
                t = h.type
                for e in (t.elts if isinstance(t, ast.Tuple) else [t]):
                    names.append(ast.unparse(e) if e is not None else 'BaseException')
                for n in sorted(names):
                    self.emit('except', n)
                for s in h.body:
                    self.visit(s)
            for s in node.orelse + node.finalbody:
                self.visit(s)
            return
        if isinstance(node, ast.Assert):
            t = node.test
            if isinstance(t, ast.Compare) and len(t.ops) == 1 and isinstance(t.ops[0], ast.IsNot) \
                    and isinstance(t.comparators[0], ast.Constant) and t.comparators[0].value is None:
                self.emit('op', 'assert-not-none')
            return
        if isinstance(node, (ast.AsyncFor,)):
            self.visit(node.iter)
            self.emit('op', 'aiter')
            for s in node.body + node.orelse:
                self.visit(s)
            return
        if isinstance(node, (ast.ListComp, ast.SetComp, ast.GeneratorExp, ast.DictComp)):
            for g in node.generators:
                self.visit(g.iter)
                if g.is_async:
                    self.emit('op', 'aiter')
                for c in g.ifs:
                    self.visit(c)
            for e in ([node.key, node.value] if isinstance(node, ast.DictComp) else [node.elt]):
                self.visit(e)
            return
        if isinstance(node, ast.Compare):
            self.visit(node.left)
            for op, c in zip(node.ops, node.comparators):
                self.visit(c)
            if len(node.ops) == 1 and isinstance(node.ops[0], (ast.In, ast.NotIn)):
                k = self.const_str(node.left)
                if k is not None:
                    self.emit('key', k)
            return
        if isinstance(node, ast.Subscript):
            self.visit(node.value)
            k = self.const_str(node.slice)
            if k is not None and isinstance(node.ctx, ast.Load):
                self.emit('key', k)
            else:
                self.visit(node.slice)
            return
        if isinstance(node, ast.Call):
            return self.visit_call(node)
        for ch in ast.iter_child_nodes(node):
            self.visit(ch)

    def visit_call(self, node):
        f = node.func
        # receiver and arguments first
        if isinstance(f, ast.Attribute):
            self.visit(f.value)
        for a in node.args:
            self.visit(a)
        for k in node.keywords:
            self.visit(k.value)
        if isinstance(f, ast.Attribute):
            recv_self = isinstance(f.value, ast.Name) and f.value.id == 'self'
            if f.attr == 'get' and node.args:
                k = self.const_str(node.args[0])
                if k is not None:
                    self.emit('key', k)
                if len(node.args) == 2:
                    n = self.status_name(node.args[1])
                    if n is not None:
                        self.emit('default', n)
                return
            if recv_self and f.attr.startswith('_') and not f.attr.startswith('__') and f.attr in self.methods:
                return self.expand(self.methods[f.attr])
            if f.attr in PUBLIC_STREAM_CALLS:
                # public operations of the call object: self.* inside Stream, <stream>.* inside __call__
                if self.cls != 'Stream':
                    self.emit('op', f.attr)
                elif recv_self:
                    self.emit('call', f.attr)
            return
        if isinstance(f, ast.Name):
            if f.id == 'isinstance' and len(node.args) == 2:
                self.emit('isinstance', ast.unparse(node.args[1]))
                return
            if f.id.startswith('_') and f.id in self.functions:
                return self.expand(self.functions[f.id])


def first_occurrences(events, kinds):
    out = []
    for e in events:
        if e[0] in kinds and e not in out:
            out.append(e)
    return out


def collapse(events):
    out = []
    for e in events:
        if not out or out[-1] != e:
            out.append(e)
    return out


def walk(tree, module, cls, name):
    w = Walk(tree, cls, module)
    need(name in w.methods, '%s.%s not found' % (cls, name))
    w.expand(w.methods[name])
    return w.events


def ev_str(e):
    return '%s %s' % e


def generate(repo):
    client = load(repo, 'grpclib.client')
    base = load(repo, 'grpclib.encoding.base')
    proto = load(repo, 'grpclib.encoding.proto')
    const = load(repo, 'grpclib.const')
    status = {m.name: m.value for m in const.Status}
    need(all(isinstance(v, int) for v in status.values()), 'Status values')
    gct = base.GRPC_CONTENT_TYPE
    sub = proto.ProtoCodec.__content_subtype__
    need(isinstance(gct, str) and isinstance(sub, str), 'content-type constants')

    tree = parse(repo, 'grpclib/client.py')
    ri = walk(tree, client, 'Stream', 'recv_initial_metadata')
    rt = walk(tree, client, 'Stream', 'recv_trailing_metadata')
    ex = walk(tree, client, 'Stream', '__aexit__')

    def keys(evs):
        return [e[1] for e in first_occurrences(evs, ('key',))]

    def singleton(names, what):
        s = sorted(set(names))
        need(len(s) == 1 and s[0] in status, '%s: %r' % (what, s))
        return status[s[0]]

    # statuses by position relative to the keys consulted
    def segment_statuses(evs, after_key, before_key=None):
        seen_after, out = False, []
        for e in evs:
            if e == ('key', after_key):
                seen_after = True
            elif before_key is not None and e == ('key', before_key):
                if seen_after:
                    break
            elif e[0] == 'status' and seen_after:
                out.append(e[1])
        return out

    ri_keys = keys(ri)
    need(':status' in ri_keys and 'content-type' in ri_keys and 'grpc-status' in ri_keys, 'keys of recv_initial_metadata')
    defaults = [e[1] for e in ri if e[0] == 'default']
    before_ct = []
    for e in ri:
        if e == ('key', 'content-type'):
            break
        if e[0] == 'status':
            before_ct.append(e[1])
    need(not before_ct, 'a literal status is raised before content-type is consulted: %r' % before_ct)
    non200 = singleton(defaults, 'default status of the :status table lookup')
    ct_status = singleton(segment_statuses(ri, 'content-type', 'grpc-status'), 'statuses raised for content-type')
    gs_status = singleton(segment_statuses(rt, 'grpc-status') + segment_statuses(ri, 'grpc-status'),
                          'statuses raised for grpc-status')

    exit_events = first_occurrences(ex, ('call', 'isinstance', 'key'))
    rt_caught = sorted({e[1] for e in rt if e[0] == 'except'})
    exit_caught = sorted({e[1] for e in ex if e[0] == 'except'})

    L = []
    add = L.append
    add('(* GENERATED by tools/facts_C02.py from the repository under test -- do not edit; rewritten on every run *)')
    add('From Coq Require Import ZArith List.')
    add('Import ListNotations.')
    add('Open Scope Z_scope.')
    add('')
    add('Definition grpc_content_type : list Z := %s.   (* %r *)' % (zs(gct), gct))
    add('Definition proto_content_subtype : list Z := %s.   (* %r *)' % (zs(sub), sub))
    add('Definition non200_default_status : Z := %s.' % z(non200))
    add('Definition content_type_status : Z := %s.' % z(ct_status))
    add('Definition grpc_status_error_status : Z := %s.' % z(gs_status))
    add('')
    add('(* header names consulted, in order of first use, helpers expanded *)')
    add('Definition ri_keys : list (list Z) := [%s].   (* %s *)' % ('; '.join(zs(k) for k in ri_keys), ' | '.join(ri_keys)))
    rt_keys = keys(rt)
    add('Definition rt_keys : list (list Z) := [%s].   (* %s *)' % ('; '.join(zs(k) for k in rt_keys), ' | '.join(rt_keys)))
    add('(* context exit: public receives, the exception class that is upgraded, headers consulted for the upgrade *)')
    add('Definition exit_events : list (list Z) := [%s].' % '; '.join(zs(ev_str(e)) for e in exit_events))
    add('  (* %s *)' % ' | '.join(ev_str(e) for e in exit_events))
    add('Definition rt_caught : list (list Z) := [%s].   (* %s *)' % ('; '.join(zs(c) for c in rt_caught), rt_caught))
    add('Definition exit_caught : list (list Z) := [%s].   (* %s *)' % ('; '.join(zs(c) for c in exit_caught), exit_caught))
    add('')
    add('(* what the four __call__ bodies do with the stream (consecutive repetitions collapsed) *)')
    for cls, coqname in (('UnaryUnaryMethod', 'call_uu'), ('UnaryStreamMethod', 'call_us'),
                         ('StreamUnaryMethod', 'call_su'), ('StreamStreamMethod', 'call_ss')):
        evs = collapse([e for e in walk(tree, client, cls, '__call__') if e[0] == 'op'])
        add('Definition %s : list (list Z) := [%s].   (* %s *)' % (
            coqname, '; '.join(zs(e[1]) for e in evs), ' '.join(e[1] for e in evs)))
    return '\n'.join(L) + '\n'


if __name__ == '__main__':
    import os
    import sys
    sys.stdout.write(generate(os.environ.get('VERIF_REPO', '/repo')))
