#!/usr/bin/env python3
"""Verify one seeded change and run the registered check against it.

  tools/seeded_verify.py <dir with patch.diff demo.py meta.json> <property> <name> [--full]

1. fresh scratch worktree of /repo's HEAD under /var/tmp; apply the patch
2. the pinned test-suite must still pass with the patch
3. demo.py must FAIL (exit != 0) with the patch and PASS (exit 0) without it
4. ./check <property> against the patched scratch tree (proof leg skipped unless --full, in which
   case the patch is applied to /repo itself, the full check is run, and /repo is restored)
5. the change is kept as /verif/seeded/<name>/ (patch.diff, demo.py, meta.json) with what was run
The scratch worktree is removed afterwards."""
import json
import os
import shutil
import subprocess
import sys
import time

VERIF = os.path.dirname(os.path.dirname(os.path.abspath(__file__)))


def sh(cmd, cwd=None, env=None, timeout=1800):
    e = dict(os.environ)
    e.update(env or {})
    p = subprocess.run(cmd, cwd=cwd, env=e, shell=isinstance(cmd, str), stdout=subprocess.PIPE,
                       stderr=subprocess.STDOUT, timeout=timeout)
    return p.returncode, p.stdout.decode('utf-8', 'replace')


def main():
    src, prop, name = sys.argv[1:4]
    full = '--full' in sys.argv
    wt = '/var/tmp/sv-%s-%d' % (name, os.getpid())
    out = {'property': prop, 'name': name, 'source_dir': src}
    rc, o = sh(['git', '-C', '/repo', 'worktree', 'add', '--detach', '-q', wt, 'HEAD'])
    if rc:
        print('worktree failed', o)
        return 2
    try:
        patch = os.path.join(src, 'patch.diff')
        demo = os.path.join(src, 'demo.py')
        # some demonstrations hard-code their author's worktree path: point them at this scratch tree
        import re as _re
        text = open(demo).read()
        text2 = _re.sub(r'/tmp/wt2?-C\d\d', wt, text)
        if text2 != text:
            demo = os.path.join(wt, '_seeded_demo.py')
            with open(demo, 'w') as f:
                f.write(text2)
        rc, o = sh(['git', '-C', wt, 'apply', '--3way', patch])
        if rc:
            rc, o = sh(['git', '-C', wt, 'apply', patch])
        out['applies'] = rc == 0
        if rc:
            out['apply_error'] = o[-500:]
            print(json.dumps(out, indent=1))
            return 1
        rc, o = sh(['/venv/bin/python', '-m', 'pytest', '-q', '-p', 'no:cacheprovider', '--timeout=900'], cwd=wt)
        out['suite_with_patch'] = 'pytest rc=%d: %s' % (rc, o.strip().split('\n')[-1][-120:])
        out['suite_passes'] = rc == 0
        rc1, o1 = sh(['/venv/bin/python', demo, wt], cwd=wt, env={'PYTHONPATH': wt}, timeout=300)
        out['demo_with_patch'] = {'rc': rc1, 'tail': o1.strip()[-300:]}
        # run the check against the patched scratch tree
        t0 = time.time()
        if full:
            rc, o = sh(['git', '-C', '/repo', 'apply', patch])
            try:
                rcc, oc = sh(['./check', prop, '--tier', 'quick'], cwd=VERIF, timeout=3000)
            finally:
                sh(['git', '-C', '/repo', 'checkout', '--', '.'])
        else:
            rcc, oc = sh(['./check', prop, '--tier', 'quick'], cwd=VERIF,
                         env={'VERIF_REPO': wt, 'VERIF_SKIP_PROOF': '1'}, timeout=3000)
        lines = [ln for ln in oc.split('\n') if ln.startswith(('VIOLATION', 'KNOWN-FINDING')) or ' tier=' in ln]
        out['check'] = {'rc': rcc, 'mode': 'full legs on /repo' if full else 'scratch tree, proof leg skipped',
                        'lines': lines[:8], 'wall_s': round(time.time() - t0, 1)}
        out['detected'] = rcc == 1 and any(ln.startswith('VIOLATION') for ln in lines)
        out['failing_input_found'] = any(ln.startswith('VIOLATION') and 'no-failing-input-found' not in ln
                                         for ln in lines)
        sh(['git', '-C', wt, 'reset', '-q', '--hard', 'HEAD'])
        rc0, o0 = sh(['/venv/bin/python', demo, wt], cwd=wt, env={'PYTHONPATH': wt}, timeout=300)
        out['demo_without_patch'] = {'rc': rc0, 'tail': o0.strip()[-200:]}
        out['confirmed'] = bool(out['suite_passes'] and rc1 != 0 and rc0 == 0)
        if out['confirmed']:
            dst = os.path.join(VERIF, 'seeded', name)
            os.makedirs(dst, exist_ok=True)
            if os.path.realpath(dst) != os.path.realpath(src):
                shutil.copy(patch, os.path.join(dst, 'patch.diff'))
                shutil.copy(os.path.join(src, 'demo.py'), os.path.join(dst, 'demo.py'))
            meta = {}
            try:
                meta = json.load(open(os.path.join(src, 'meta.json')))
            except Exception:
                pass
            meta['verif'] = out
            with open(os.path.join(dst, 'meta.json'), 'w') as f:
                json.dump(meta, f, indent=1)
    finally:
        sh(['git', '-C', '/repo', 'worktree', 'remove', '--force', wt])
    print(json.dumps({k: out[k] for k in ('name', 'applies', 'suite_passes', 'confirmed', 'detected',
                                          'failing_input_found') if k in out}))
    print('   ', out.get('check', {}).get('lines'))
    return 0


if __name__ == '__main__':
    sys.exit(main())
