"""facts_C17.py -- source facts for property C17 (keepalive) -> coq/Gen/FactsC17.v.

Translated from /repo with the Python `ast` only (grpclib is never imported), fail-closed: any shape
outside the few recognised ones raises Unsupported and tools/regen.py removes the stale output, so
that exactly the C17 theorems stop compiling.

What is emitted
  * grpclib/config.py: for the five keepalive fields of `Configuration` the dataclass default, the
    per-role defaults (`server-default`, `client-default`, `test-default`) and the validator
    expression; the comparison each primitive validator performs (`_positive`: value <= 0 is
    rejected, ...); the key each `__for_<role>__` method passes to `_with_defaults`.
    Values of the time-valued fields are given in ticks of 2^-20 s and must be integral there.
  * grpclib/protocol.py: `Connection._is_need_send_ping` as a list of guards over a tiny expression
    language (interpreted by Model/Keepalive.v: theorem C17_need_ping_is_source), and the bodies of
    `initialize`, `_ping`, `close`, `ping_ack_process`, `headers_send_process`,
    `data_send_process`, `EventsProcessor.process_ping_ack_received` as a small statement IR
    (compared with the program the model was transcribed from: theorem C17_source_shape).
"""
import ast
from fractions import Fraction

from extract_facts import Unsupported, parse, zs, z, class_node, func_node, module_assigns

TICKS = 2 ** 20

KEEPALIVE_FIELDS = [
    ('_keepalive_time', 'sec'),
    ('_keepalive_timeout', 'sec'),
    ('_keepalive_permit_without_calls', 'bool'),
    ('_http2_max_pings_without_data', 'int'),
    ('_http2_min_sent_ping_interval_without_data', 'sec'),
]


def u(node):
    return ast.unparse(node)


# ------------------------------------------------------------------------------------------------
# config.py

def cval(node, kind):
    """a default value as a Coq `cval`"""
    if isinstance(node, ast.Call) and u(node) == 'cast(None, _DEFAULT)':
        return 'CRoleDefault'
    if not isinstance(node, ast.Constant):
        raise Unsupported('default value ' + u(node))
    v = node.value
    if v is None:
        return 'CNone'
    if isinstance(v, bool):
        if kind != 'bool':
            raise Unsupported('bool default for a %s field' % kind)
        return 'CBool %s' % str(v).lower()
    if isinstance(v, (int, float)):
        if kind == 'sec':
            t = Fraction(v) * TICKS
            if t.denominator != 1:
                raise Unsupported('default %r is not a multiple of 2^-20 s' % v)
            return 'CSec %s' % z(int(t))
        if kind == 'int' and isinstance(v, int):
            return 'CInt %s' % z(v)
    raise Unsupported('default value %r for a %s field' % (v, kind))


def validator(node):
    """validator expression -> Coq `vdt`"""
    if isinstance(node, ast.Name):
        if node.id == '_positive':
            return 'VPositive'
        if node.id == '_non_negative':
            return 'VNonNegative'
        raise Unsupported('validator ' + node.id)
    if isinstance(node, ast.Call) and isinstance(node.func, ast.Name) and not node.keywords:
        f = node.func.id
        if f == '_optional' and len(node.args) == 1:
            return 'VOptional (%s)' % validator(node.args[0])
        if f == '_chain':
            return 'VChain [%s]' % '; '.join(validator(a) for a in node.args)
        if f == '_of_type':
            tys = []
            for a in node.args:
                if not (isinstance(a, ast.Name) and a.id in ('int', 'float', 'bool')):
                    raise Unsupported('_of_type argument ' + u(a))
                tys.append(a.id)
            return 'VOfType [%s]' % '; '.join(zs(t) for t in tys)
    raise Unsupported('validator ' + u(node))


CMP = {ast.Eq: 'OpEq', ast.NotEq: 'OpNe', ast.Lt: 'OpLt', ast.LtE: 'OpLe', ast.Gt: 'OpGt',
       ast.GtE: 'OpGe'}


def primitive_test(tree, name):
    """`def name(name_, value): if value <op> <int>: raise ValueError(...)` -> (op, int): rejected"""
    fn = func_node(tree, name)
    if [a.arg for a in fn.args.args] != ['name', 'value'] or len(fn.body) != 1:
        raise Unsupported(name + ' signature/body')
    st = fn.body[0]
    if not (isinstance(st, ast.If) and not st.orelse and len(st.body) == 1
            and isinstance(st.body[0], ast.Raise)
            and isinstance(st.body[0].exc, ast.Call)
            and u(st.body[0].exc.func) == 'ValueError'):
        raise Unsupported(name + ' body')
    t = st.test
    if not (isinstance(t, ast.Compare) and len(t.ops) == 1 and isinstance(t.left, ast.Name)
            and t.left.id == 'value' and isinstance(t.comparators[0], ast.Constant)
            and isinstance(t.comparators[0].value, int) and type(t.ops[0]) in CMP):
        raise Unsupported(name + ' test ' + u(t))
    return CMP[type(t.ops[0])], t.comparators[0].value


def expect_src(tree, name, lines, cls=None):
    """the function body must be literally these statements (docstrings skipped)"""
    fn = func_node(tree, name, cls)
    body = [s for s in fn.body
            if not (isinstance(s, ast.Expr) and isinstance(s.value, ast.Constant))]
    got = [u(s) for s in body]
    if got != lines:
        raise Unsupported('%s: unexpected body %r' % (name, got))


def config_facts(repo, add):
    tree = parse(repo, 'grpclib/config.py')
    cls = class_node(tree, 'Configuration')
    decos = [u(d) for d in cls.decorator_list]
    if decos != ['dataclass(frozen=True)']:
        raise Unsupported('Configuration decorators %r' % decos)
    fields = {}
    for st in cls.body:
        if isinstance(st, ast.AnnAssign) and isinstance(st.target, ast.Name):
            fields[st.target.id] = st
    add('(* grpclib/config.py: Configuration -- (name, default, server-default, client-default, '
        'test-default, validator) *)')
    add('Inductive cval := CNone | CRoleDefault | CBool (b : bool) | CInt (n : Z) | CSec (ticks : Z).')
    add('Inductive cmpop := OpEq | OpNe | OpLt | OpLe | OpGt | OpGe.')
    add('Inductive vdt := VOptional (v : vdt) | VChain (vs : list vdt) | VOfType (tys : list (list Z))')
    add('  | VPositive | VNonNegative.')
    add('Record cfield := mkField { f_name : list Z; f_default : cval; f_server : option cval;')
    add('  f_client : option cval; f_test : option cval; f_validate : option vdt }.')
    rows = []
    for name, kind in KEEPALIVE_FIELDS:
        if name not in fields:
            raise Unsupported('Configuration has no field ' + name)
        call = fields[name].value
        if not (isinstance(call, ast.Call) and u(call.func) == 'field' and not call.args):
            raise Unsupported('field() of ' + name)
        kw = {k.arg: k.value for k in call.keywords}
        if set(kw) - {'default', 'metadata'} or 'default' not in kw:
            raise Unsupported('field() keywords of ' + name)
        default = cval(kw['default'], kind)
        meta = {}
        if 'metadata' in kw:
            m = kw['metadata']
            if not isinstance(m, ast.Dict):
                raise Unsupported('metadata of ' + name)
            for k, v in zip(m.keys, m.values):
                if not (isinstance(k, ast.Constant) and isinstance(k.value, str)):
                    raise Unsupported('metadata key of ' + name)
                meta[k.value] = v
        if set(meta) - {'validate', 'server-default', 'client-default', 'test-default', 'default'}:
            raise Unsupported('metadata keys of %s: %r' % (name, sorted(meta)))
        if default == 'CRoleDefault' and not {'server-default', 'client-default'} <= set(meta) \
                and 'default' not in meta:
            raise Unsupported(name + ': role default without per-role values')

        def role(key):
            return 'Some (%s)' % cval(meta[key], kind) if key in meta else 'None'
        val = 'Some (%s)' % validator(meta['validate']) if 'validate' in meta else 'None'
        rows.append('  mkField %s (%s) (%s) (%s) (%s) (%s)' % (
            zs(name), default, role('server-default'), role('client-default'),
            role('test-default'), val))
    add('Definition keepalive_fields : list cfield := [\n%s\n].' % ';\n'.join(rows))
    # primitive validators: the comparison that REJECTS a value
    for fname, coq in (('_positive', 'positive_rejects'), ('_non_negative', 'non_negative_rejects')):
        op, k = primitive_test(tree, fname)
        add('Definition %s : cmpop * Z := (%s, %s).   (* %s: `if value %s %d: raise ValueError` *)'
            % (coq, op, z(k), fname, op, k))
    # combinators and plumbing: literal shapes
    expect_src(tree, '_optional', [
        'def proc(name: str, value: Any) -> None:\n    if value is not None:\n        validator(name, value)',
        'return proc'])
    expect_src(tree, '_chain', [
        'def proc(name: str, value: Any) -> None:\n    for validator in validators:\n        validator(name, value)',
        'return proc'])
    fn = func_node(tree, '_of_type')
    inner = [s for s in fn.body if isinstance(s, ast.FunctionDef)]
    if len(inner) != 1 or not isinstance(inner[0].body[0], ast.If) or \
            u(inner[0].body[0].test) != 'not isinstance(value, types)' or \
            not isinstance(inner[0].body[0].body[-1], ast.Raise):
        raise Unsupported('_of_type body')
    expect_src(tree, '_validate', [
        "for f in fields(config):\n    validate_fn = f.metadata.get('validate')\n"
        "    if validate_fn is not None:\n        value = getattr(config, f.name)\n"
        "        if value is not _DEFAULT:\n            validate_fn(f.name, value)"])
    expect_src(tree, '__post_init__', ['_validate(self)'], cls='Configuration')
    expect_src(tree, '_with_defaults', [
        'assert is_dataclass(cls)', 'defaults = {}',
        "for f in fields(cls):\n    if getattr(cls, f.name) is _DEFAULT:\n"
        "        if metadata_key in f.metadata:\n            default = f.metadata[metadata_key]\n"
        "        else:\n            default = f.metadata['default']\n"
        "        defaults[f.name] = default",
        'return replace(cls, **defaults)'])
    for meth, key in (('__for_server__', 'server-default'), ('__for_client__', 'client-default'),
                      ('__for_test__', 'test-default')):
        expect_src(tree, meth, ["return _with_defaults(self, '%s')" % key], cls='Configuration')
    add('(* validation runs in __post_init__ on every field whose value is not _DEFAULT; '
        '__for_server__/__for_client__/__for_test__ fill role defaults from the metadata keys '
        "'server-default'/'client-default'/'test-default' (shapes checked by the translator) *)")
    add('Definition role_keys_checked : bool := true.')
    add('')


# ------------------------------------------------------------------------------------------------
# protocol.py: expressions, conditions, statements

CFG_NAMES = {n for n, _ in KEEPALIVE_FIELDS}
ATTRS = {'ping_count_in_sequence', 'last_ping_sent', 'last_data_sent', '_ping_handle',
         '_close_by_ping_handler'}
ANY_OPEN = 'any((s.open for s in self._connection.streams.values()))'


def expr(n):
    s = u(n)
    if s.startswith('self._config.') and s[len('self._config.'):] in CFG_NAMES:
        return 'ECfg %s' % zs(s[len('self._config.'):])
    if s.startswith('self.') and s[5:] in ATTRS:
        return 'EAttr %s' % zs(s[5:])
    if s == 'time.monotonic()':
        return 'ENow'
    if s == ANY_OPEN:
        return 'EAnyOpen'
    if isinstance(n, ast.Constant):
        if n.value is None:
            return 'ENone'
        if isinstance(n.value, int) and not isinstance(n.value, bool):
            return 'EConst %s' % z(n.value)
    if isinstance(n, ast.BinOp) and isinstance(n.op, ast.Sub):
        return 'ESub (%s) (%s)' % (expr(n.left), expr(n.right))
    if isinstance(n, ast.BinOp) and isinstance(n.op, ast.Add):
        return 'EAdd (%s) (%s)' % (expr(n.left), expr(n.right))
    raise Unsupported('expression ' + s)


def cond(n):
    if isinstance(n, ast.UnaryOp) and isinstance(n.op, ast.Not):
        return 'KNot (%s)' % cond(n.operand)
    if isinstance(n, ast.BoolOp) and isinstance(n.op, ast.And):
        out = cond(n.values[-1])
        for v in reversed(n.values[:-1]):
            out = 'KAnd (%s) (%s)' % (cond(v), out)
        return out
    if isinstance(n, ast.Compare) and len(n.ops) == 1:
        a, b, op = n.left, n.comparators[0], n.ops[0]
        if type(op) in CMP:
            return 'KCmp %s (%s) (%s)' % (CMP[type(op)], expr(a), expr(b))
        if isinstance(op, ast.IsNot) and u(b) == 'None':
            return 'KIsNotNone (%s)' % expr(a)
        if isinstance(op, ast.Is) and u(b) == 'None':
            return 'KNot (KIsNotNone (%s))' % expr(a)
        raise Unsupported('comparison ' + u(n))
    if isinstance(n, ast.Call) and u(n.func) == 'hasattr' and len(n.args) == 2 \
            and isinstance(n.args[1], ast.Constant):
        return 'KHasAttr %s %s' % (zs(u(n.args[0])), zs(n.args[1].value))
    return 'KTruth (%s)' % expr(n)


def is_ret_false(st):
    return isinstance(st, ast.Return) and isinstance(st.value, ast.Constant) and st.value.value is False


def need_ping_guards(fn):
    body = list(fn.body)
    if fn.args.args and [a.arg for a in fn.args.args] != ['self']:
        raise Unsupported('_is_need_send_ping signature')
    guards = []
    if not (body and isinstance(body[0], ast.Assert)
            and u(body[0].test) == 'self._config._keepalive_time is not None'):
        raise Unsupported('_is_need_send_ping: leading assert')
    body = body[1:]
    if not (body and isinstance(body[-1], ast.Return) and isinstance(body[-1].value, ast.Constant)
            and isinstance(body[-1].value.value, bool)):
        raise Unsupported('_is_need_send_ping: final return')
    final = body[-1].value.value
    for st in body[:-1]:
        if not (isinstance(st, ast.If) and not st.orelse and len(st.body) == 1):
            raise Unsupported('_is_need_send_ping statement ' + u(st))
        inner = st.body[0]
        if is_ret_false(inner):
            guards.append('GRetFalseIf (%s)' % cond(st.test))
        elif isinstance(inner, ast.If) and not inner.orelse and len(inner.body) == 1 \
                and is_ret_false(inner.body[0]):
            guards.append('GNested (%s) (%s)' % (cond(st.test), cond(inner.test)))
        else:
            raise Unsupported('_is_need_send_ping statement ' + u(st))
    return guards, final


CALL_LATER = 'asyncio.get_event_loop().call_later'


def stmt(st):
    s = u(st)
    if isinstance(st, ast.Expr) and isinstance(st.value, ast.Constant) and isinstance(st.value.value, str):
        return None                                      # docstring
    if isinstance(st, ast.Assert):
        return 'SAssert (%s)' % cond(st.test)
    if isinstance(st, ast.Expr) and isinstance(st.value, ast.Call):
        c = st.value
        f = u(c.func)
        if f.startswith('log.'):
            return None                                  # logging has no effect on the state
        if f == 'self._connection.ping' and len(c.args) == 1:
            return 'SSendPing'
        if f == 'self.flush' and not c.args:
            return 'SFlush'
        if f == 'self._transport.close' and not c.args:
            return 'SCloseTransport'
        if f in ('self._ping_handle.cancel', 'self._close_by_ping_handler.cancel') and not c.args:
            return 'SCancel %s' % zs(f.split('.')[1])
        if f == 'self.connection.ping_ack_process' and not c.args:
            return 'SCall %s' % zs('ping_ack_process')
        raise Unsupported('call statement ' + s)
    if isinstance(st, ast.Delete):
        return 'SDel %s' % zs(', '.join(u(t) for t in st.targets))
    if isinstance(st, ast.AugAssign) and isinstance(st.op, ast.Add) and u(st.value) == '1' \
            and u(st.target).startswith('self.') and u(st.target)[5:] in ATTRS:
        return 'SInc %s' % zs(u(st.target)[5:])
    if isinstance(st, ast.Assign) and len(st.targets) == 1:
        tgt = u(st.targets[0])
        if tgt == 'data':                                # the opaque ping payload
            if u(st.value) != "struct.pack('!Q', int(time.monotonic() * 10 ** 6))":
                raise Unsupported('ping payload ' + s)
            return None
        if tgt.startswith('self.') and tgt[5:] in ATTRS:
            v = st.value
            if isinstance(v, ast.Call) and u(v.func) == CALL_LATER and len(v.args) == 2 \
                    and not v.keywords:
                delay, cb = u(v.args[0]), u(v.args[1])
                if not (delay.startswith('self._config.') and delay[13:] in CFG_NAMES
                        and cb in ('self._ping', 'self.close')):
                    raise Unsupported('call_later ' + s)
                return 'SArm %s %s %s' % (zs(tgt[5:]), zs(delay[13:]), zs(cb[5:]))
            return 'SSet %s (%s)' % (zs(tgt[5:]), expr(v))
        raise Unsupported('assignment ' + s)
    if isinstance(st, ast.If) and not st.orelse:
        t = st.test
        if isinstance(t, ast.Call) and u(t) == 'self._is_need_send_ping()':
            c = 'KNeedPing'
        else:
            c = cond(t)
        return 'SIf (%s) [%s]' % (c, '; '.join(block(st.body)))
    raise Unsupported('statement ' + s)


def block(stmts):
    out = []
    for st in stmts:
        r = stmt(st)
        if r is not None:
            out.append(r)
    return out


def protocol_facts(repo, add):
    tree = parse(repo, 'grpclib/protocol.py')
    add('(* grpclib/protocol.py: Connection keepalive code *)')
    add('Inductive kexpr := ECfg (name : list Z) | EAttr (name : list Z) | ENow | EAnyOpen | ENone')
    add('  | EConst (n : Z) | ESub (a b : kexpr) | EAdd (a b : kexpr).')
    add('Inductive kcond := KNot (k : kcond) | KAnd (a b : kcond) | KCmp (op : cmpop) (a b : kexpr)')
    add('  | KIsNotNone (e : kexpr) | KTruth (e : kexpr) | KHasAttr (obj attr : list Z) | KNeedPing.')
    add('Inductive kguard := GRetFalseIf (k : kcond) | GNested (outer inner : kcond).')
    add('Inductive kstmt := SAssert (k : kcond) | SSendPing | SFlush | SCloseTransport')
    add('  | SCancel (handle : list Z) | SCall (meth : list Z) | SDel (what : list Z)')
    add('  | SInc (attr : list Z) | SSet (attr : list Z) (e : kexpr)')
    add('  | SArm (handle delay_cfg callback : list Z) | SIf (k : kcond) (body : list kstmt).')
    guards, final = need_ping_guards(func_node(tree, '_is_need_send_ping', 'Connection'))
    add('(* Connection._is_need_send_ping: guards in order, then the final return value *)')
    add('Definition need_send_ping_src : list kguard * bool := ([\n  %s\n], %s).' % (
        ';\n  '.join(guards), str(final).lower()))
    for name, cls in (('initialize', 'Connection'), ('_ping', 'Connection'), ('close', 'Connection'),
                      ('ping_ack_process', 'Connection'), ('headers_send_process', 'Connection'),
                      ('data_send_process', 'Connection'),
                      ('process_ping_ack_received', 'EventsProcessor')):
        fn = func_node(tree, name, cls)
        add('Definition src_%s : list kstmt := [\n  %s\n].' % (
            name.strip('_'), ';\n  '.join(block(fn.body))))
    # where the hooks are called from: data/headers sent, connection made, events table
    conn_cls = class_node(tree, 'Connection')
    defaults = {}
    for st in conn_cls.body:
        if isinstance(st, ast.AnnAssign) and isinstance(st.target, ast.Name) and st.value is not None:
            defaults[st.target.id] = u(st.value)
    want = {'last_ping_sent': 'None', 'ping_count_in_sequence': '0', '_ping_handle': 'None',
            '_close_by_ping_handler': 'None', 'last_data_sent': 'None'}
    for k, v in want.items():
        if defaults.get(k) != v:
            raise Unsupported('Connection.%s initial value %r' % (k, defaults.get(k)))
    add('(* class-level initial values: last_ping_sent = None, ping_count_in_sequence = 0, both '
        'handles None (checked by the translator) *)')
    add('Definition initial_values_checked : bool := true.')
    proto = func_node(tree, 'connection_made', 'H2Protocol')
    calls = [u(s) for s in proto.body]
    if 'self.connection.initialize()' not in calls:
        raise Unsupported('H2Protocol.connection_made does not call initialize()')
    src = open(repo + '/grpclib/protocol.py').read()
    sites = {
        'headers_send_process': src.count('self.connection.headers_send_process()'),
        'data_send_process': src.count('self.connection.data_send_process()'),
    }
    add('(* call sites in Stream.send_request/send_headers/send_data *)')
    add('Definition call_sites : list (list Z * Z) := [%s].' % '; '.join(
        '(%s, %d)' % (zs(k), v) for k, v in sorted(sites.items())))
    ep = func_node(tree, '__init__', 'EventsProcessor')
    if 'PingAckReceived: self.process_ping_ack_received' not in u(ep):
        raise Unsupported('PingAckReceived is not dispatched to process_ping_ack_received')
    add('Definition ping_ack_dispatched : bool := true.')
    add('')


SEND_SITES = [('send_data', 'self._h2_connection.send_data', 'self.connection.data_send_process'),
              ('send_headers', 'self._h2_connection.send_headers', 'self.connection.headers_send_process'),
              ('send_request', 'self._h2_connection.send_headers', 'self.connection.headers_send_process')]
CONTROL = (ast.If, ast.While, ast.For, ast.AsyncFor, ast.Try, ast.With, ast.AsyncWith, ast.Return,
           ast.Break, ast.Continue, ast.Raise)


def is_call_stmt(st, name):
    return isinstance(st, ast.Expr) and isinstance(st.value, ast.Call) and u(st.value.func) == name


def contains_call(node, name):
    return any(isinstance(n, ast.Call) and u(n.func) == name for n in ast.walk(node))


def send_site(fn, h2call, reset):
    """(number of statements calling h2call, number of those after which -- in the same statement
    list, or in the `else:` of the `try:` they end, with only straight-line non-awaiting statements in
    between -- the reset hook is called).  Every frame handed to h2 must be followed by the hook."""
    calls = followed = 0

    def after_ok(rest):
        for st in rest:
            if is_call_stmt(st, reset):
                return True
            if isinstance(st, CONTROL) or any(isinstance(n, (ast.Await, ast.Yield)) for n in ast.walk(st)) \
                    or contains_call(st, h2call):
                return False
        return False

    def walk_block(stmts, tail):
        nonlocal calls, followed
        for i, st in enumerate(stmts):
            rest = stmts[i + 1:] + tail
            if isinstance(st, ast.Expr) and contains_call(st, h2call):
                if not is_call_stmt(st, h2call):
                    raise Unsupported('h2 call inside an expression: ' + u(st))
                calls += 1
                if after_ok(rest):
                    followed += 1
            elif isinstance(st, ast.Try):
                walk_block(st.body, st.orelse)          # else: runs right after the body
                for h in st.handlers:
                    walk_block(h.body, [])
                walk_block(st.orelse, [])
                walk_block(st.finalbody, [])
            elif isinstance(st, (ast.If, ast.While, ast.For, ast.AsyncFor)):
                walk_block(st.body, [])
                walk_block(st.orelse, [])
            elif isinstance(st, (ast.With, ast.AsyncWith)):
                walk_block(st.body, [])
            elif contains_call(st, h2call):
                raise Unsupported('h2 call in an unexpected statement: ' + u(st)[:80])
    walk_block(fn.body, [])
    return calls, followed


WATCHED = ['ping_count_in_sequence', 'last_ping_sent', '_ping_handle', '_close_by_ping_handler']


def write_kind(value, aug=None):
    """classify what is written to a keepalive variable"""
    if aug is not None:
        if isinstance(aug, ast.Add) and u(value) == '1':
            return 'inc'
        raise Unsupported('augmented assignment ' + u(value))
    s = u(value)
    if s == '0':
        return 'zero'
    if s == 'None':
        return 'none'
    if s == 'time.monotonic()':
        return 'now'
    if isinstance(value, ast.Call) and u(value.func) == CALL_LATER:
        return 'arm'
    raise Unsupported('value written to a keepalive variable: ' + s)


def writers(repo):
    """every statement in grpclib/ that assigns to (or deletes) one of the keepalive variables, on any
    object: {attr: [(module:Class.function, kind)]}.  Class-level declarations of Connection are the
    initial values (checked separately); setattr/__dict__ tricks with these names are refused."""
    import os
    out = {a: [] for a in WATCHED}
    root = os.path.join(repo, 'grpclib')
    files = []
    for d, _, fns in os.walk(root):
        for fn in fns:
            if fn.endswith('.py'):
                files.append(os.path.join(d, fn))
    for path in sorted(files):
        rel = os.path.relpath(path, repo)
        src = open(path).read()
        if not any(a in src for a in WATCHED):
            continue
        tree = ast.parse(src, rel)
        mod = rel[len('grpclib/'):-3].replace('/', '.')

        def visit(node, scope):
            for ch in ast.iter_child_nodes(node):
                if isinstance(ch, (ast.ClassDef, ast.FunctionDef, ast.AsyncFunctionDef)):
                    visit(ch, scope + [ch.name])
                    continue
                targets = []
                if isinstance(ch, ast.Assign):
                    targets = [(t, ch.value, None) for t in ch.targets]
                elif isinstance(ch, ast.AugAssign):
                    targets = [(ch.target, ch.value, ch.op)]
                elif isinstance(ch, ast.AnnAssign) and ch.value is not None:
                    targets = [(ch.target, ch.value, None)]
                elif isinstance(ch, ast.Delete):
                    for t in ch.targets:
                        if isinstance(t, ast.Attribute) and t.attr in WATCHED:
                            raise Unsupported('del of ' + t.attr)
                for t, v, aug in targets:
                    elts = t.elts if isinstance(t, (ast.Tuple, ast.List)) else [t]
                    for e in elts:
                        if isinstance(e, ast.Attribute) and e.attr in WATCHED:
                            if len(elts) > 1:
                                raise Unsupported('tuple assignment to ' + e.attr)
                            out[e.attr].append(('%s:%s' % (mod, '.'.join(scope)), write_kind(v, aug)))
                        elif isinstance(e, ast.Name) and e.id in WATCHED and \
                                not (scope == ['Connection'] and isinstance(ch, ast.AnnAssign)):
                            raise Unsupported('%s assigned as a plain name in %s' % (e.id, scope))
                if isinstance(ch, ast.Call) and u(ch.func) in ('setattr', 'delattr', 'object.__setattr__'):
                    if any(isinstance(a, ast.Constant) and a.value in WATCHED for a in ch.args):
                        raise Unsupported('setattr on a keepalive variable')
                visit(ch, scope)
        visit(tree, [])
    return out


def generate(repo):
    L = []
    add = L.append
    add('(* GENERATED by tools/facts_C17.py from %s -- do not edit; rewritten on every run *)' % repo)
    add('From Coq Require Import ZArith List.')
    add('Import ListNotations.')
    add('Open Scope Z_scope.')
    add('')
    add('Definition facts_ticks_per_second : Z := %d.' % TICKS)
    add('')
    config_facts(repo, add)
    protocol_facts(repo, add)
    ptree = parse(repo, 'grpclib/protocol.py')
    rows, total = [], {}
    for fname, h2call, reset in SEND_SITES:
        c, f = send_site(func_node(ptree, fname, 'Stream'), h2call, reset)
        total[h2call] = total.get(h2call, 0) + c
        rows.append('(%s, %s, %d, %d)' % (zs('Stream.' + fname), zs(reset.split('.')[-1]), c, f))
    import glob
    import os
    allsrc = ''.join(open(f).read() for f in sorted(glob.glob(os.path.join(repo, 'grpclib', '**', '*.py'),
                                                           recursive=True)))
    for h2call, n in total.items():
        meth = h2call.split('.')[-1]
        # any `<something>_connection.send_data(` / `.send_headers(` in grpclib (h2 objects are named
        # _h2_connection / _connection) must be one of the calls counted above
        if allsrc.count('_connection.%s(' % meth) != n:
            raise Unsupported('%s is called outside the three Stream methods' % h2call)
    add('(* every place where a DATA / HEADERS frame is handed to h2: (function, reset hook, number of '
        'h2 calls, number of them directly followed by the hook -- per FRAME, not per message) *)')
    add('Definition send_sites : list (list Z * list Z * Z * Z) := [%s].' % '; '.join(rows))
    add('')
    add('(* EVERY assignment in grpclib/ to one of the keepalive variables (any object, any module): '
        '(variable, [(module:Class.function, what is written)]) *)')
    w = writers(repo)
    add('Definition keepalive_writers : list (list Z * list (list Z * list Z)) := [\n%s\n].' % ';\n'.join(
        '  (%s, [%s])' % (zs(a), '; '.join('(%s, %s)' % (zs(f), zs(k)) for f, k in w[a])) for a in WATCHED))
    add('')
    return '\n'.join(L) + '\n'


if __name__ == '__main__':
    import os
    import sys
    sys.stdout.write(generate(os.environ.get('VERIF_REPO', '/repo')))
