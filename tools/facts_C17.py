"""facts_C17.py -- source facts for property C17 (keepalive) -> coq/Gen/FactsC17.v.

Fail-closed (anything not understood raises Unsupported; tools/regen.py then removes the stale output so
that exactly the C17 theorems stop compiling), but the facts are about MEANING, not spelling:

  * grpclib/config.py is loaded as a stand-alone module (it imports only typing/dataclasses) and the
    facts about VALUES are read off the objects: dataclass defaults, what `Configuration().__for_<role>__()`
    resolves to, what the validator combinators do (probed with recording callables).  Only the comparison
    inside a primitive validator (`value <= 0` rejects) is read from the syntax, whatever the function
    and its parameters are called.
  * grpclib/protocol.py: before anything is matched the method bodies are NORMALISED -- docstrings,
    logging, asserts and annotations dropped; `cast(T, x)` -> x; a local bound once is replaced by its
    value; `for v in (a, b): ...` unrolled; calls of private helpers of the same class (`self._x(...)`,
    `await self._x(...)`) replaced by their bodies; attributes are named by ROLE, not by spelling:
        H2 / TRANSPORT / CONFIG   the constructor arguments of Connection (by position / `config=`)
        PING_TIMER, PING_CALLBACK the attribute assigned `<loop>.call_later(CONFIG._keepalive_time, self.<m>)`
                                  and that method <m>
        CLOSE_TIMER               the attribute assigned `<loop>.call_later(CONFIG._keepalive_timeout, self.close)`
        NEED_PING                 the argument-less private predicate tested by PING_CALLBACK
    What is emitted:
      - NEED_PING as ONE boolean expression tree (symbolic execution of the body: early returns,
        nested / merged conditions, locals, a helper looping over the streams), which
        Model/Keepalive.v interprets (theorem C17_need_ping_is_source);
      - the keepalive EFFECTS of initialize / PING_CALLBACK / close / ping_ack_process /
        headers_send_process / data_send_process and of the handler PingAckReceived is dispatched to,
        as a small statement tree in which runs of independent simple effects are sorted
        (theorem C17_source_shape);
      - path facts: after every `H2.send_data(...)` / `H2.send_headers(...)` in Stream.send_data /
        send_headers / send_request the counter-reset hook is reached on EVERY path of normal control
        flow (if/else, with, try/else/finally, block ends, `break` out of a loop) with no await, return,
        raise, loop edge or further send in between (theorem C17_every_frame_resets);
      - every write to the four keepalive variables anywhere in grpclib/, attributed to the entry points
        (private helpers folded into their callers) (theorem C17_keepalive_writers).
"""
import ast
import copy
import glob
import importlib.util
import os
from fractions import Fraction

from extract_facts import Unsupported, parse, zs, z, class_node

TICKS = 2 ** 20

KEEPALIVE_FIELDS = [
    ('_keepalive_time', 'sec'),
    ('_keepalive_timeout', 'sec'),
    ('_keepalive_permit_without_calls', 'bool'),
    ('_http2_max_pings_without_data', 'int'),
    ('_http2_min_sent_ping_interval_without_data', 'sec'),
]
CFG_NAMES = {n for n, _ in KEEPALIVE_FIELDS}


def u(node):
    return ast.unparse(node)


# ================================================================================================
# config.py: values from the module object

def load_config(repo):
    path = os.path.join(repo, 'grpclib', 'config.py')
    spec = importlib.util.spec_from_file_location('_facts_c17_config_%d' % (abs(hash(path)) % 10 ** 8), path)
    mod = importlib.util.module_from_spec(spec)
    try:
        spec.loader.exec_module(mod)
    except Exception as e:
        raise Unsupported('grpclib/config.py cannot be loaded stand-alone: %r' % (e,))
    return mod


def cval_of(v, kind):
    if v is None:
        return 'CNone'
    if isinstance(v, bool):
        if kind != 'bool':
            raise Unsupported('bool value for a %s field' % kind)
        return 'CBool %s' % str(v).lower()
    if isinstance(v, (int, float)):
        if kind == 'sec':
            t = Fraction(v) * TICKS
            if t.denominator != 1:
                raise Unsupported('value %r is not a multiple of 2^-20 s' % (v,))
            return 'CSec %s' % z(int(t))
        if kind == 'int' and isinstance(v, int):
            return 'CInt %s' % z(v)
    raise Unsupported('value %r for a %s field' % (v, kind))


CMP = {ast.Eq: 'OpEq', ast.NotEq: 'OpNe', ast.Lt: 'OpLt', ast.LtE: 'OpLe', ast.Gt: 'OpGt',
       ast.GtE: 'OpGe'}
NEG = {'OpEq': 'OpNe', 'OpNe': 'OpEq', 'OpLt': 'OpGe', 'OpGe': 'OpLt', 'OpLe': 'OpGt', 'OpGt': 'OpLe'}
FLIP = {'OpEq': 'OpEq', 'OpNe': 'OpNe', 'OpLt': 'OpGt', 'OpGt': 'OpLt', 'OpLe': 'OpGe', 'OpGe': 'OpLe'}


def module_func(tree, name):
    for n in tree.body:
        if isinstance(n, ast.FunctionDef) and n.name == name:
            return n
    raise Unsupported('module function ' + name)


def strip_doc(body):
    return [s for s in body if not (isinstance(s, ast.Expr) and isinstance(s.value, ast.Constant)
                                    and isinstance(s.value.value, str))]


def primitive_rejects(tree, name):
    """`def f(<n>, <v>): if <v> <op> <int>: raise ValueError(..)` (or `if not <v> <op> <int>`), whatever
    f, n, v are called -> (op, int) describing the REJECTED values"""
    fn = module_func(tree, name)
    if len(fn.args.args) != 2:
        raise Unsupported(name + ': signature')
    v = fn.args.args[1].arg
    body = strip_doc(fn.body)
    if len(body) != 1 or not (isinstance(body[0], ast.If) and not body[0].orelse
                              and len(body[0].body) == 1 and isinstance(body[0].body[0], ast.Raise)):
        raise Unsupported(name + ': body')
    exc = body[0].body[0].exc
    if not (isinstance(exc, ast.Call) and u(exc.func) == 'ValueError'):
        raise Unsupported(name + ': raises something else than ValueError')
    t, neg = body[0].test, False
    while isinstance(t, ast.UnaryOp) and isinstance(t.op, ast.Not):
        t, neg = t.operand, not neg
    if not (isinstance(t, ast.Compare) and len(t.ops) == 1 and type(t.ops[0]) in CMP):
        raise Unsupported(name + ': test ' + u(t))
    op = CMP[type(t.ops[0])]
    a, b = t.left, t.comparators[0]
    if isinstance(a, ast.Constant) and isinstance(b, ast.Name):
        a, b, op = b, a, FLIP[op]
    if not (isinstance(a, ast.Name) and a.id == v and isinstance(b, ast.Constant)
            and isinstance(b.value, int) and not isinstance(b.value, bool)):
        raise Unsupported(name + ': test ' + u(t))
    if neg:
        op = NEG[op]
    return op, b.value


class Rec:
    def __init__(self, log, tag):
        self.log, self.tag = log, tag

    def __call__(self, name, value):
        self.log.append((self.tag, name, value))


def classify_combinator(fn):
    """what a validator-combinator of config.py does, found out by calling it"""
    log = []
    try:
        p = fn(Rec(log, 'a'))
        p('n', None)
        none_skipped = not log
        p('n', 5)
        if none_skipped and log == [('a', 'n', 5)]:
            return 'optional'
    except Exception:
        pass
    log = []
    try:
        p = fn(Rec(log, 'a'), Rec(log, 'b'))
        p('n', 5)
        if log == [('a', 'n', 5), ('b', 'n', 5)]:
            log2 = []
            fn(Rec(log2, 'a'))('n', None)
            if log2 == [('a', 'n', None)]:
                return 'chain'
    except Exception:
        pass
    try:
        p = fn(int, float)
        p('n', 1)
        p('n', 1.5)
        ok = False
        try:
            p('n', 'x')
        except TypeError:
            ok = True
        try:
            fn(int)('n', 1.5)
            ok = False
        except TypeError:
            pass
        try:
            p('n', None)
            ok = False
        except TypeError:
            pass
        if ok:
            return 'of_type'
    except Exception:
        pass
    raise Unsupported('validator combinator %r does something unknown' % getattr(fn, '__name__', fn))


def validator(node, mod, tree, prim, depth=0):
    """the `validate` expression of a field -> Coq `vdt`; the callees are classified by what they do"""
    if isinstance(node, ast.Name) and depth < 8:
        # a module-level constant naming a composed validator: look through it
        for st in tree.body:
            tgt = None
            if isinstance(st, ast.Assign) and len(st.targets) == 1:
                tgt = st.targets[0]
            elif isinstance(st, ast.AnnAssign) and st.value is not None:
                tgt = st.target
            if isinstance(tgt, ast.Name) and tgt.id == node.id:
                return validator(st.value, mod, tree, prim, depth + 1)
    if isinstance(node, (ast.NamedExpr,)):
        return validator(node.value, mod, tree, prim, depth + 1)
    if isinstance(node, ast.Name):
        op, k = primitive_rejects(tree, node.id)
        if (op, k) == ('OpLe', 0):
            prim['positive'] = (op, k)
            return 'VPositive'
        if (op, k) == ('OpLt', 0):
            prim['non_negative'] = (op, k)
            return 'VNonNegative'
        raise Unsupported('primitive validator %s rejects `value %s %d`' % (node.id, op, k))
    if isinstance(node, ast.Call) and isinstance(node.func, ast.Name) and not node.keywords:
        kind = classify_combinator(getattr(mod, node.func.id))
        if kind == 'optional' and len(node.args) == 1:
            return 'VOptional (%s)' % validator(node.args[0], mod, tree, prim, depth + 1)
        if kind == 'chain':
            return 'VChain [%s]' % '; '.join(validator(a, mod, tree, prim, depth + 1) for a in node.args)
        if kind == 'of_type':
            tys = []
            for a in node.args:
                if not (isinstance(a, ast.Name) and a.id in ('int', 'float', 'bool')):
                    raise Unsupported('type argument ' + u(a))
                tys.append(a.id)
            return 'VOfType [%s]' % '; '.join(zs(t) for t in tys)
    raise Unsupported('validator ' + u(node))


def config_facts(repo, add):
    import dataclasses
    mod = load_config(repo)
    tree = parse(repo, 'grpclib/config.py')
    Conf = getattr(mod, 'Configuration', None)
    if Conf is None or not dataclasses.is_dataclass(Conf):
        raise Unsupported('Configuration is not a dataclass')
    fields = {f.name: f for f in dataclasses.fields(Conf)}
    try:
        base = Conf()
        roles = {r: getattr(base, '__for_%s__' % r)() for r in ('server', 'client', 'test')}
    except Exception as e:
        raise Unsupported('Configuration() / __for_<role>__: %r' % (e,))
    # validation really runs when a Configuration is made, and not on values left at their default
    try:
        Conf(_keepalive_timeout=-1)
        raise Unsupported('Configuration does not validate at construction')
    except ValueError:
        pass
    # the `validate` expressions, from the class body
    meta_src = {}
    for st in class_node(tree, 'Configuration').body:
        if isinstance(st, ast.AnnAssign) and isinstance(st.target, ast.Name) and \
                isinstance(st.value, ast.Call):
            for kw in st.value.keywords:
                if kw.arg == 'metadata' and isinstance(kw.value, ast.Dict):
                    for k, v in zip(kw.value.keys, kw.value.values):
                        if isinstance(k, ast.Constant) and k.value == 'validate':
                            meta_src[st.target.id] = v
    add('(* grpclib/config.py: Configuration -- (name, default, server, client, test value when the default is '
        'role dependent, validator); values read off the loaded module *)')
    add('Inductive cval := CNone | CRoleDefault | CBool (b : bool) | CInt (n : Z) | CSec (ticks : Z).')
    add('Inductive cmpop := OpEq | OpNe | OpLt | OpLe | OpGt | OpGe.')
    add('Inductive vdt := VOptional (v : vdt) | VChain (vs : list vdt) | VOfType (tys : list (list Z))')
    add('  | VPositive | VNonNegative.')
    add('Record cfield := mkField { f_name : list Z; f_default : cval; f_server : option cval;')
    add('  f_client : option cval; f_test : option cval; f_validate : option vdt }.')
    rows, prim = [], {}
    for name, kind in KEEPALIVE_FIELDS:
        if name not in fields:
            raise Unsupported('Configuration has no field ' + name)
        d = fields[name].default
        role_dep = not (d is None or isinstance(d, (bool, int, float)))
        if role_dep:
            default = 'CRoleDefault'
            rv = ['Some (%s)' % cval_of(getattr(roles[r], name), kind) for r in ('server', 'client', 'test')]
        else:
            default = cval_of(d, kind)
            for r in roles:
                if getattr(roles[r], name) != d:
                    raise Unsupported('%s: role %s changes a plain default' % (name, r))
            rv = ['None', 'None', 'None']
        has_validate = fields[name].metadata.get('validate') is not None
        if has_validate != (name in meta_src):
            raise Unsupported(name + ': validate metadata not found in the class body')
        val = 'Some (%s)' % validator(meta_src[name], mod, tree, prim) if has_validate else 'None'
        rows.append('  mkField %s (%s) (%s) (%s) (%s) (%s)' % (zs(name), default, rv[0], rv[1], rv[2], val))
    add('Definition keepalive_fields : list cfield := [\n%s\n].' % ';\n'.join(rows))
    for key, coq in (('positive', 'positive_rejects'), ('non_negative', 'non_negative_rejects')):
        op, k = prim.get(key, {'positive': ('OpLe', 0), 'non_negative': ('OpLt', 0)}[key])
        add('Definition %s : cmpop * Z := (%s, %s).   (* the values this primitive validator rejects *)'
            % (coq, op, z(k)))
    add('')


# ================================================================================================
# protocol.py: normalisation

def methods_of(cls):
    return {n.name: n for n in cls.body if isinstance(n, (ast.FunctionDef, ast.AsyncFunctionDef))}


def init_roles(cls, positional, keyword=()):
    """attributes assigned directly from constructor parameters: {role: attribute name}"""
    init = methods_of(cls).get('__init__')
    if init is None:
        raise Unsupported(cls.name + '.__init__')
    params = [a.arg for a in init.args.args][1:]
    kwonly = [a.arg for a in init.args.kwonlyargs]
    want = {}
    for i, role in enumerate(positional):
        if i >= len(params):
            raise Unsupported('%s.__init__ has fewer positional parameters than expected' % cls.name)
        want[params[i]] = role
    for k, role in keyword:
        if k not in kwonly and k not in params:
            raise Unsupported('%s.__init__ has no parameter %s' % (cls.name, k))
        want[k] = role
    out = {}
    for st in ast.walk(init):
        if isinstance(st, ast.Assign) and len(st.targets) == 1 and isinstance(st.value, ast.Name) \
                and st.value.id in want and isinstance(st.targets[0], ast.Attribute) \
                and u(st.targets[0].value) == 'self':
            out[want[st.value.id]] = st.targets[0].attr
    for role in want.values():
        if role not in out:
            raise Unsupported('%s.__init__ does not store its %s argument' % (cls.name, role))
    return out


class Subst(ast.NodeTransformer):
    def __init__(self, env):
        self.env = env

    def visit_Name(self, node):
        if isinstance(node.ctx, ast.Load) and node.id in self.env:
            return copy.deepcopy(self.env[node.id])
        return node


def subst(node, env):
    return Subst(env).visit(copy.deepcopy(node)) if env else node


class StripCast(ast.NodeTransformer):
    def visit_Call(self, node):
        self.generic_visit(node)
        if u(node.func) in ('cast', 'typing.cast') and len(node.args) == 2 and not node.keywords:
            return node.args[1]
        return node


def has_await(node):
    return any(isinstance(n, (ast.Await, ast.Yield, ast.YieldFrom)) for n in ast.walk(node))


def self_call(node):
    """`self._x(...)` or `await self._x(...)` -> (name, Call)"""
    if isinstance(node, ast.Await):
        node = node.value
    if isinstance(node, ast.Call) and isinstance(node.func, ast.Attribute) \
            and u(node.func.value) == 'self':
        return node.func.attr, node
    return None, None


def is_private(name):
    return name.startswith('_') and not name.startswith('__')


def noise(st):
    if isinstance(st, ast.Expr) and isinstance(st.value, ast.Constant):
        return True
    if isinstance(st, ast.Expr) and isinstance(st.value, ast.Call) and u(st.value.func).split('.')[0] in (
            'log', 'logger', 'logging', 'warnings'):
        return True
    return isinstance(st, (ast.Assert, ast.Pass))


def normalise(fn, methods, depth=0, callbacks=()):
    """statement list of fn: noise dropped, casts stripped, private helpers of the class inlined
    (statement-level calls), tuple loops unrolled, once-bound locals substituted"""
    if depth > 6:
        raise Unsupported('helper recursion in ' + fn.name)
    body = [StripCast().visit(copy.deepcopy(s)) for s in fn.body]
    return norm_block(body, methods, depth, callbacks, fn)


def assigned_names(stmts):
    cnt = {}
    for st in stmts:
        for n in ast.walk(st):
            if isinstance(n, ast.Name) and isinstance(n.ctx, (ast.Store, ast.Del)):
                cnt[n.id] = cnt.get(n.id, 0) + 1
            elif isinstance(n, ast.arg):
                cnt[n.arg] = cnt.get(n.arg, 0) + 2
    return cnt


def hoist_walrus(st):
    """`if (x := e) <rest of the test>: ...` -> `x = e` + `if x <rest>: ...` when the walrus is evaluated
    first and unconditionally (leftmost operand, not behind and/or/if-else)"""
    if not isinstance(st, ast.If):
        return None
    new = copy.copy(st)
    # deepcopy loses identity: rebuild by position instead
    t = copy.deepcopy(st.test)
    cur, parent, field = t, None, None
    while not isinstance(cur, ast.NamedExpr):
        if not isinstance(cur, (ast.UnaryOp, ast.Compare, ast.BoolOp, ast.BinOp)):
            return None
        if isinstance(cur, ast.UnaryOp):
            parent, field, cur = cur, 'operand', cur.operand
        elif isinstance(cur, ast.Compare):
            parent, field, cur = cur, 'left', cur.left
        elif isinstance(cur, ast.BoolOp):
            parent, field, cur = cur, 0, cur.values[0]
        else:
            parent, field, cur = cur, 'left', cur.left
    if not isinstance(cur.target, ast.Name):
        return None
    name = ast.Name(id=cur.target.id, ctx=ast.Load())
    if parent is None:
        t = name
    elif field == 0:
        parent.values[0] = name
    else:
        setattr(parent, field, name)
    new.test = t
    assign = ast.Assign(targets=[ast.Name(id=cur.target.id, ctx=ast.Store())], value=cur.value, lineno=0)
    return [ast.fix_missing_locations(assign), new]


def norm_block(stmts, methods, depth, callbacks, fn, env=None, counts=None):
    env = dict(env or {})
    if counts is None:
        counts = assigned_names(stmts)
    out = []
    for st in stmts:
        if noise(st):
            continue
        hoisted = hoist_walrus(st)
        if hoisted is not None:
            out += norm_block(hoisted, methods, depth, callbacks, fn, env, counts)
            continue
        st = subst(st, env)
        # a local bound exactly once to an await-free expression: replace it by its value
        if isinstance(st, (ast.Assign, ast.AnnAssign)) and not has_await(st):
            tgt = st.targets[0] if isinstance(st, ast.Assign) and len(st.targets) == 1 else \
                (st.target if isinstance(st, ast.AnnAssign) else None)
            if isinstance(tgt, ast.Name) and st.value is not None and counts.get(tgt.id, 0) == 1:
                env[tgt.id] = st.value
                continue
        # helper call as a statement
        if isinstance(st, ast.Expr):
            name, call = self_call(st.value)
            if name and is_private(name) and name in methods and name not in callbacks:
                helper = methods[name]
                if isinstance(st.value, ast.Await) != isinstance(helper, ast.AsyncFunctionDef):
                    raise Unsupported('helper %s: await / coroutine mismatch' % name)
                hb = strip_doc(helper.body)
                if hb and isinstance(hb[-1], ast.Return) and hb[-1].value is None:
                    hb = hb[:-1]
                if any(isinstance(n, ast.Return) for s in hb for n in ast.walk(s)):
                    raise Unsupported('helper %s returns early; cannot be inlined as a statement' % name)
                params = [a.arg for a in helper.args.args][1:]
                if len(call.args) > len(params) or helper.args.vararg or helper.args.kwarg:
                    raise Unsupported('helper %s: arguments' % name)
                henv = {p: a for p, a in zip(params, call.args)}
                for kw in call.keywords:
                    henv[kw.arg] = kw.value
                hcopy = copy.deepcopy(helper)
                hcopy.body = [subst(s, henv) for s in hb]
                out += normalise(hcopy, methods, depth + 1, callbacks)
                continue
        if isinstance(st, ast.For) and isinstance(st.iter, (ast.Tuple, ast.List)) and \
                isinstance(st.target, ast.Name) and not st.orelse:
            for e in st.iter.elts:
                out += norm_block([subst(s, {st.target.id: e}) for s in st.body], methods, depth,
                                  callbacks, fn, env, counts)
            continue
        if isinstance(st, ast.If):
            st = copy.copy(st)
            st.body = norm_block(st.body, methods, depth, callbacks, fn, env, counts)
            st.orelse = norm_block(st.orelse, methods, depth, callbacks, fn, env, counts)
            if not st.body and not st.orelse:
                continue
        elif isinstance(st, (ast.While, ast.For, ast.AsyncFor, ast.With, ast.AsyncWith)):
            st = copy.copy(st)
            st.body = norm_block(st.body, methods, depth, callbacks, fn, env, counts)
            if getattr(st, 'orelse', None):
                st.orelse = norm_block(st.orelse, methods, depth, callbacks, fn, env, counts)
        elif isinstance(st, ast.Try):
            st = copy.copy(st)
            st.body = norm_block(st.body, methods, depth, callbacks, fn, env, counts)
            st.orelse = norm_block(st.orelse, methods, depth, callbacks, fn, env, counts)
            st.finalbody = norm_block(st.finalbody, methods, depth, callbacks, fn, env, counts)
            hs = []
            for h in st.handlers:
                h = copy.copy(h)
                h.body = norm_block(h.body, methods, depth, callbacks, fn, env, counts)
                hs.append(h)
            st.handlers = hs
        out.append(st)
    return out


# ---- roles of Connection

class Roles:
    pass


def is_call_later(v):
    return isinstance(v, ast.Call) and isinstance(v.func, ast.Attribute) and v.func.attr == 'call_later' \
        and len(v.args) == 2 and not v.keywords


def connection_roles(cls):
    R = Roles()
    r = init_roles(cls, ['H2', 'TRANSPORT'], [('config', 'CONFIG')])
    R.h2, R.transport, R.config = r['H2'], r['TRANSPORT'], r['CONFIG']
    R.methods = methods_of(cls)
    R.ping_timer = R.close_timer = R.ping_cb = None
    for fn in R.methods.values():
        for st in ast.walk(fn):
            if isinstance(st, ast.Assign) and len(st.targets) == 1 and is_call_later(StripCast().visit(
                    copy.deepcopy(st.value))):
                v = StripCast().visit(copy.deepcopy(st.value))
                tgt = st.targets[0]
                if not (isinstance(tgt, ast.Attribute) and u(tgt.value) == 'self'):
                    raise Unsupported('timer stored in ' + u(tgt))
                delay, cb = u(v.args[0]), u(v.args[1])
                if delay == 'self.%s._keepalive_time' % R.config and cb.startswith('self.'):
                    if R.ping_timer not in (None, tgt.attr) or R.ping_cb not in (None, cb[5:]):
                        raise Unsupported('two different periodic keepalive timers')
                    R.ping_timer, R.ping_cb = tgt.attr, cb[5:]
                elif delay == 'self.%s._keepalive_timeout' % R.config and cb == 'self.close':
                    if R.close_timer not in (None, tgt.attr):
                        raise Unsupported('two different keepalive close timers')
                    R.close_timer = tgt.attr
                else:
                    raise Unsupported('unknown timer: call_later(%s, %s)' % (delay, cb))
    if None in (R.ping_timer, R.close_timer, R.ping_cb) or R.ping_timer == R.close_timer:
        raise Unsupported('keepalive timers not found (periodic %r, close %r)' % (R.ping_timer, R.close_timer))
    if R.ping_cb not in R.methods:
        raise Unsupported('ping callback %s is not a method' % R.ping_cb)
    # the need-ping predicate: the argument-less private method PING_CALLBACK tests
    R.need = None
    for st in normalise(R.methods[R.ping_cb], R.methods, callbacks=(R.ping_cb,)):
        if isinstance(st, ast.If):
            name, call = self_call(st.test)
            if name and is_private(name) and name in R.methods and not call.args and not call.keywords:
                R.need = name
    if R.need is None:
        raise Unsupported('the ping callback does not test a need-ping predicate')
    R.attr_role = {R.ping_timer: 'PING_TIMER', R.close_timer: 'CLOSE_TIMER',
                   'ping_count_in_sequence': 'ping_count_in_sequence', 'last_ping_sent': 'last_ping_sent',
                   'last_data_sent': 'last_data_sent'}
    return R


# ---- expressions and conditions (after normalisation)

def expr(n, R):
    s = u(n)
    pre = 'self.%s.' % R.config
    if s.startswith(pre) and s[len(pre):] in CFG_NAMES:
        return 'ECfg %s' % zs(s[len(pre):])
    if s.startswith('self.') and s[5:] in R.attr_role:
        return 'EAttr %s' % zs(R.attr_role[s[5:]])
    if s == 'time.monotonic()':
        return 'ENow'
    if isinstance(n, ast.Constant):
        if n.value is None:
            return 'ENone'
        if isinstance(n.value, int) and not isinstance(n.value, bool):
            return 'EConst %s' % z(n.value)
    if isinstance(n, ast.BinOp) and isinstance(n.op, ast.Sub):
        return 'ESub (%s) (%s)' % (expr(n.left, R), expr(n.right, R))
    if isinstance(n, ast.BinOp) and isinstance(n.op, ast.Add):
        return 'EAdd (%s) (%s)' % (expr(n.left, R), expr(n.right, R))
    raise Unsupported('expression ' + s)


def any_open(n, R):
    """any(<v>.open for <v> in self.H2.streams.values()) and spellings of it"""
    streams = 'self.%s.streams.values()' % R.h2
    if isinstance(n, ast.Call) and u(n.func) == 'any' and len(n.args) == 1 and \
            isinstance(n.args[0], (ast.GeneratorExp, ast.ListComp)) and len(n.args[0].generators) == 1:
        g = n.args[0].generators[0]
        if u(g.iter) == streams and isinstance(g.target, ast.Name) and not g.ifs and \
                u(n.args[0].elt) == g.target.id + '.open':
            return True
        if u(g.iter) == streams and isinstance(g.target, ast.Name) and len(g.ifs) == 1 and \
                u(g.ifs[0]) == g.target.id + '.open' and u(n.args[0].elt) in ('True', g.target.id + '.open'):
            return True
    return False


def cond(n, R, depth=0):
    if isinstance(n, ast.Constant) and isinstance(n.value, bool):
        return 'KConst %s' % str(n.value).lower()
    if isinstance(n, ast.UnaryOp) and isinstance(n.op, ast.Not):
        return 'KNot (%s)' % cond(n.operand, R, depth)
    if isinstance(n, ast.BoolOp):
        con = 'KAnd' if isinstance(n.op, ast.And) else 'KOr'
        out = cond(n.values[-1], R, depth)
        for v in reversed(n.values[:-1]):
            out = '%s (%s) (%s)' % (con, cond(v, R, depth), out)
        return out
    if isinstance(n, ast.IfExp):
        return 'KIte (%s) (%s) (%s)' % (cond(n.test, R, depth), cond(n.body, R, depth), cond(n.orelse, R, depth))
    if isinstance(n, ast.Compare) and len(n.ops) == 1:
        a, b, op = n.left, n.comparators[0], n.ops[0]
        if type(op) in CMP:
            return 'KCmp %s (%s) (%s)' % (CMP[type(op)], expr(a, R), expr(b, R))
        if isinstance(op, ast.IsNot) and u(b) == 'None':
            return 'KIsNotNone (%s)' % expr(a, R)
        if isinstance(op, ast.Is) and u(b) == 'None':
            return 'KNot (KIsNotNone (%s))' % expr(a, R)
        raise Unsupported('comparison ' + u(n))
    if isinstance(n, ast.Compare) and len(n.ops) == 2 and all(type(o) in CMP for o in n.ops):
        # a < b < c
        return 'KAnd (KCmp %s (%s) (%s)) (KCmp %s (%s) (%s))' % (
            CMP[type(n.ops[0])], expr(n.left, R), expr(n.comparators[0], R),
            CMP[type(n.ops[1])], expr(n.comparators[0], R), expr(n.comparators[1], R))
    if any_open(n, R):
        return 'KTruth (EAnyOpen)'
    if isinstance(n, ast.Call) and u(n.func) == 'bool' and len(n.args) == 1:
        return cond(n.args[0], R, depth)
    name, call = self_call(n)
    if name and is_private(name) and name in R.methods and not call.args and not call.keywords:
        if name == R.need and depth > 0:
            raise Unsupported('recursive predicate')
        return bool_function(R.methods[name], R, depth + 1)       # a boolean helper: see through it
    return 'KTruth (%s)' % expr(n, R)


def streams_loop(st, rest, R):
    """for <v> in self.H2.streams.values(): if <v>.open: return True   [then]  return False"""
    if isinstance(st, ast.For) and u(st.iter) == 'self.%s.streams.values()' % R.h2 and \
            isinstance(st.target, ast.Name) and not st.orelse and len(st.body) == 1:
        b = st.body[0]
        if isinstance(b, ast.If) and not b.orelse and u(b.test) == st.target.id + '.open' and \
                len(b.body) == 1 and isinstance(b.body[0], ast.Return) and u(b.body[0].value) == 'True' \
                and rest and isinstance(rest[0], ast.Return) and u(rest[0].value) == 'False':
            return True
    return False


def bool_function(fn, R, depth=0):
    """the boolean a predicate method returns, as ONE condition tree (symbolic execution)"""
    if depth > 5:
        raise Unsupported('predicate helpers nest too deep')
    if [a.arg for a in fn.args.args] != ['self'] or isinstance(fn, ast.AsyncFunctionDef):
        raise Unsupported('predicate %s: signature' % fn.name)
    body = normalise(fn, R.methods, callbacks=(R.ping_cb,))

    def run(stmts):
        if not stmts:
            raise Unsupported('predicate %s: a path falls off the end' % fn.name)
        st, rest = stmts[0], stmts[1:]
        if streams_loop(st, rest, R):
            return 'KTruth (EAnyOpen)'
        if isinstance(st, ast.Return):
            if st.value is None:
                raise Unsupported('predicate %s: bare return' % fn.name)
            return cond(st.value, R, depth)
        if isinstance(st, ast.If):
            t = cond(st.test, R, depth)
            return 'KIte (%s) (%s) (%s)' % (t, run(st.body + rest), run(st.orelse + rest))
        raise Unsupported('predicate %s: statement %s' % (fn.name, u(st)[:80]))
    return run(body)


# ---- keepalive effects of a method

RANK = {'SSendPing': 1, 'SFlush': 2, 'SCloseTransport': 3, 'SSet': 4, 'SInc': 5, 'SCancel': 6,
        'SCall': 7, 'SArm': 8}


def effects(stmts, R):
    """the keepalive-relevant statement tree: everything that does not touch a keepalive variable, the
    wire or the transport is dropped; conditions that are not about keepalive state become KOpaque;
    runs of simple effects are sorted (independent statements in any order are the same program)"""
    out, run = [], []

    def flush():
        run.sort(key=lambda s: (RANK[s.split(' ')[0]], s))
        out.extend(run)
        del run[:]
    stmts = list(stmts)
    while stmts:
        st = stmts.pop(0)
        # `with <no await>: body` and a try whose handlers do nothing about keepalive: their bodies
        if isinstance(st, ast.With) and not any(has_await(i.context_expr) for i in st.items):
            stmts = list(st.body) + stmts
            continue
        if isinstance(st, ast.Try) and not any(effects(h.body, R) for h in st.handlers):
            stmts = list(st.body) + list(st.orelse) + list(st.finalbody) + stmts
            continue
        e = effect(st, R)
        if e is None:
            continue
        if e.startswith('SIf'):
            flush()
            out.append(e)
        else:
            run.append(e)
    flush()
    return out


def relevant(node, R):
    s = u(node)
    keys = ['self.' + a for a in R.attr_role] + ['self.%s.ping' % R.h2, 'self.%s.close' % R.transport,
                                                  'self.flush', 'call_later', 'ping_ack_process',
                                                  'self.' + R.need, 'self.' + R.ping_cb]
    return any(k in s for k in keys)


def effect(st, R):
    s = u(st)
    if isinstance(st, ast.Expr) and isinstance(st.value, ast.Call):
        c = st.value
        f = u(c.func)
        if f == 'self.%s.ping' % R.h2:
            return 'SSendPing'
        if f == 'self.flush' and not c.args:
            return 'SFlush'
        if f == 'self.%s.close' % R.transport and not c.args:
            return 'SCloseTransport'
        for attr, role in ((R.ping_timer, 'PING_TIMER'), (R.close_timer, 'CLOSE_TIMER')):
            if f == 'self.%s.cancel' % attr and not c.args:
                return 'SCancel %s' % zs(role)
        if f.endswith('.ping_ack_process') and not c.args:
            return 'SCall %s' % zs('ping_ack_process')
        if relevant(st, R):
            raise Unsupported('call statement ' + s)
        return None
    if isinstance(st, ast.AugAssign):
        t = u(st.target)
        if t.startswith('self.') and t[5:] in R.attr_role:
            if isinstance(st.op, ast.Add) and u(st.value) == '1':
                return 'SInc %s' % zs(R.attr_role[t[5:]])
            raise Unsupported('augmented assignment ' + s)
        return None
    if isinstance(st, (ast.Assign, ast.AnnAssign)):
        tgts = st.targets if isinstance(st, ast.Assign) else [st.target]
        if len(tgts) == 1 and isinstance(tgts[0], ast.Attribute) and u(tgts[0].value) == 'self' \
                and tgts[0].attr in R.attr_role:
            role, v = R.attr_role[tgts[0].attr], st.value
            if is_call_later(v):
                delay, cb = u(v.args[0]), u(v.args[1])
                pre = 'self.%s.' % R.config
                if not (delay.startswith(pre) and delay[len(pre):] in CFG_NAMES and cb.startswith('self.')):
                    raise Unsupported('call_later ' + s)
                cbn = 'PING_CALLBACK' if cb[5:] == R.ping_cb else cb[5:]
                return 'SArm %s %s %s' % (zs(role), zs(delay[len(pre):]), zs(cbn))
            return 'SSet %s (%s)' % (zs(role), expr(v, R))
        if relevant(st, R) and not isinstance(tgts[0], ast.Name):
            raise Unsupported('assignment ' + s)
        return None
    if isinstance(st, ast.If):
        body, orelse = effects(st.body, R), effects(st.orelse, R)
        if not body and not orelse:
            if relevant(st.test, R) and 'self.' + R.need in u(st.test):
                raise Unsupported('need-ping tested without effect')
            return None
        if orelse:
            raise Unsupported('if/else around keepalive effects: ' + s[:80])
        name, call = self_call(st.test)
        if name == R.need:
            c = 'KNeedPing'
        else:
            try:
                c = cond(st.test, R)
            except Unsupported:
                if relevant(st.test, R):
                    raise
                c = 'KOpaque'           # a condition that is not about keepalive state
        return 'SIf (%s) [%s]' % (c, '; '.join(body))
    if isinstance(st, ast.Delete):
        if any(isinstance(t, ast.Attribute) and t.attr in R.attr_role for t in st.targets):
            raise Unsupported('del of a keepalive variable')
        return None
    if relevant(st, R):
        raise Unsupported('statement ' + s[:100])
    return None


def method_effects(name, R, cls_methods=None):
    m = cls_methods or R.methods
    if name not in m:
        raise Unsupported('method ' + name)
    return effects(normalise(m[name], m, callbacks=(R.ping_cb,)), R)


# ---- path facts about the wire sends of Stream

# A continuation says what runs after the current statement list:
#   None                      the function ends
#   ('seq', stmts, parent)    these statements, then parent
#   ('loop', None, parent)    we are inside a loop body: falling off its end goes round the loop (a loop
#                             edge), `break` continues with parent (the statements after the loop)

def seq(stmts, k):
    return ('seq', list(stmts), k) if stmts else k


def must_reach(stmts, k, h2calls, reset):
    """on EVERY path of normal control flow from here (through if/else, with, the else: and finally: of a
    try, the end of enclosing blocks, `break` out of a loop) the reset hook is called before any await,
    return, raise, loop edge (`continue`, end of a loop body, a nested loop) or further h2 send"""
    for i, st in enumerate(stmts):
        rest = stmts[i + 1:]
        if isinstance(st, ast.Expr) and isinstance(st.value, ast.Call) and u(st.value.func) == reset:
            return True
        if isinstance(st, ast.Break):
            while k is not None and k[0] != 'loop':
                k = k[2]
            if k is None:
                raise Unsupported('break outside a loop')
            return must_reach([], k[2], h2calls, reset)
        if isinstance(st, (ast.Return, ast.Raise, ast.Continue)):
            return False
        if isinstance(st, ast.If):
            if has_await(st.test):
                return False
            return must_reach(st.body, seq(rest, k), h2calls, reset) and \
                must_reach(st.orelse, seq(rest, k), h2calls, reset)
        if isinstance(st, ast.With):
            if any(has_await(i.context_expr) for i in st.items):
                return False
            return must_reach(st.body, seq(rest, k), h2calls, reset)
        if isinstance(st, ast.Try):
            # the path of a frame that WAS sent is the normal one: body, else:, finally:, what follows
            return must_reach(st.body, seq(st.orelse, seq(st.finalbody, seq(rest, k))), h2calls, reset)
        if isinstance(st, (ast.While, ast.For, ast.AsyncFor, ast.AsyncWith)):
            return False
        if has_await(st) or any(isinstance(n, ast.Call) and u(n.func) in h2calls for n in ast.walk(st)):
            return False
    if k is None or k[0] == 'loop':
        return False
    return must_reach(k[1], k[2], h2calls, reset)


def send_site(body, h2call, reset, h2calls):
    calls = ok = 0

    def walk(stmts, k):
        nonlocal calls, ok
        for i, st in enumerate(stmts):
            rest = stmts[i + 1:]
            here = seq(rest, k)
            if isinstance(st, ast.Expr) and any(isinstance(n, ast.Call) and u(n.func) == h2call
                                                for n in ast.walk(st)):
                if not (isinstance(st.value, ast.Call) and u(st.value.func) == h2call):
                    raise Unsupported('h2 send inside an expression: ' + u(st)[:80])
                calls += 1
                if must_reach(rest, k, h2calls, reset):
                    ok += 1
            elif isinstance(st, ast.Try):
                after = seq(st.finalbody, here)
                walk(st.body, seq(st.orelse, after))          # else: runs right after the body
                for h in st.handlers:
                    walk(h.body, after)
                walk(st.orelse, after)
                walk(st.finalbody, here)
            elif isinstance(st, ast.If):
                walk(st.body, here)
                walk(st.orelse, here)
            elif isinstance(st, (ast.While, ast.For, ast.AsyncFor)):
                walk(st.body, ('loop', None, here))
                walk(st.orelse, here)
            elif isinstance(st, (ast.With, ast.AsyncWith)):
                walk(st.body, here)
            elif any(isinstance(n, ast.Call) and u(n.func) == h2call for n in ast.walk(st)):
                raise Unsupported('h2 send in an unexpected statement: ' + u(st)[:80])
    walk(body, None)
    return calls, ok


def stream_facts(tree, add):
    cls = class_node(tree, 'Stream')
    r = init_roles(cls, ['CONN', 'H2', 'TRANSPORT'])
    m = methods_of(cls)
    h2d, h2h = 'self.%s.send_data' % r['H2'], 'self.%s.send_headers' % r['H2']
    hook = {'data': 'self.%s.data_send_process' % r['CONN'], 'headers': 'self.%s.headers_send_process' % r['CONN']}
    rows, total = [], {h2d: 0, h2h: 0}
    for fname, h2call, hk in (('send_data', h2d, 'data'), ('send_headers', h2h, 'headers'),
                              ('send_request', h2h, 'headers')):
        if fname not in m:
            raise Unsupported('Stream.' + fname)
        body = normalise(m[fname], m)
        c, ok = send_site(body, h2call, hook[hk], (h2d, h2h))
        total[h2call] += c
        rows.append('(%s, %s, %d, %d)' % (zs('Stream.' + fname), zs(hook[hk].split('.')[-1]), c, ok))
    # no other place of the class hands DATA / HEADERS to h2 (helpers are inlined above, so count the
    # call sites in methods that are not private helpers of the three)
    for name, fn in m.items():
        if name in ('send_data', 'send_headers', 'send_request') or is_private(name):
            continue
        for n in ast.walk(fn):
            if isinstance(n, ast.Call) and u(n.func) in (h2d, h2h):
                raise Unsupported('Stream.%s hands a frame to h2 as well' % name)
    return rows


# ---- writers of the keepalive variables

def write_kind(value, aug=None):
    if aug is not None:
        if isinstance(aug, ast.Add) and u(value) == '1':
            return 'inc'
        raise Unsupported('augmented assignment ' + u(value))
    s = u(value)
    if s == '0':
        return 'zero'
    if s == 'None':
        return 'none'
    if s == 'time.monotonic()':
        return 'now'
    if is_call_later(StripCast().visit(copy.deepcopy(value))):
        return 'arm'
    raise Unsupported('value written to a keepalive variable: ' + s)


def writers(repo, R):
    """every statement in grpclib/ that assigns to one of the four keepalive variables, on any object.
    A write inside a private helper of Connection (a method that is CALLED through self) counts for the
    methods calling it; the ping callback is named by its role."""
    watched = {'ping_count_in_sequence': 'ping_count_in_sequence', 'last_ping_sent': 'last_ping_sent',
               R.ping_timer: 'PING_TIMER', R.close_timer: 'CLOSE_TIMER'}
    raw = []          # (attr role, module, class, function, kind)
    for path in sorted(glob.glob(os.path.join(repo, 'grpclib', '**', '*.py'), recursive=True)):
        rel = os.path.relpath(path, repo)
        src = open(path).read()
        if not any(a in src for a in watched):
            continue
        tree = ast.parse(src, rel)
        mod = rel[len('grpclib/'):-3].replace('/', '.')

        def visit(node, scope):
            for ch in ast.iter_child_nodes(node):
                if isinstance(ch, (ast.ClassDef, ast.FunctionDef, ast.AsyncFunctionDef)):
                    visit(ch, scope + [ch.name])
                    continue
                targets = []
                if isinstance(ch, ast.Assign):
                    targets = [(t, ch.value, None) for t in ch.targets]
                elif isinstance(ch, ast.AugAssign):
                    targets = [(ch.target, ch.value, ch.op)]
                elif isinstance(ch, ast.AnnAssign) and ch.value is not None:
                    targets = [(ch.target, ch.value, None)]
                elif isinstance(ch, ast.Delete):
                    for t in ch.targets:
                        if isinstance(t, ast.Attribute) and t.attr in watched:
                            raise Unsupported('del of ' + t.attr)
                for t, v, aug in targets:
                    elts = t.elts if isinstance(t, (ast.Tuple, ast.List)) else [t]
                    for e in elts:
                        if isinstance(e, ast.Attribute) and e.attr in watched:
                            if len(elts) > 1:
                                raise Unsupported('tuple assignment to ' + e.attr)
                            raw.append((watched[e.attr], mod, scope[0] if len(scope) > 1 else '',
                                        scope[-1] if scope else '', write_kind(v, aug)))
                        elif isinstance(e, ast.Name) and e.id in watched and len(scope) != 1:
                            raise Unsupported('%s assigned as a plain name in %s' % (e.id, scope))
                if isinstance(ch, ast.Call) and u(ch.func) in ('setattr', 'delattr', 'object.__setattr__'):
                    if any(isinstance(a, ast.Constant) and a.value in watched for a in ch.args):
                        raise Unsupported('setattr on a keepalive variable')
                visit(ch, scope)
        visit(tree, [])
    # fold private helpers of Connection into their callers
    callers = {}
    for name, fn in R.methods.items():
        for n in ast.walk(fn):
            cn, call = self_call(n) if isinstance(n, (ast.Call, ast.Await)) else (None, None)
            if cn and is_private(cn) and cn in R.methods and cn != R.ping_cb:
                callers.setdefault(cn, set()).add(name)

    def entry_points(fn, seen=()):
        if fn in seen:
            raise Unsupported('recursive helpers')
        if fn in callers:
            out = set()
            for c in callers[fn]:
                out |= entry_points(c, seen + (fn,))
            return out
        return {fn}
    table = {}
    for role, mod, cls, fn, kind in raw:
        fns = entry_points(fn) if (mod, cls) == ('protocol', 'Connection') else {fn}
        for f in fns:
            f = 'PING_CALLBACK' if (mod, cls, f) == ('protocol', 'Connection', R.ping_cb) else f
            table.setdefault(role, set()).add(('%s:%s.%s' % (mod, cls, f), kind))
    return [(role, sorted(table.get(role, ()))) for role in
            ('ping_count_in_sequence', 'last_ping_sent', 'PING_TIMER', 'CLOSE_TIMER')]


def initial_values(cls, R):
    want = {'last_ping_sent': 'None', 'ping_count_in_sequence': '0', R.ping_timer: 'None',
            R.close_timer: 'None'}
    got = {}
    for st in cls.body:
        if isinstance(st, ast.AnnAssign) and isinstance(st.target, ast.Name) and st.value is not None:
            got[st.target.id] = u(st.value)
        elif isinstance(st, ast.Assign) and len(st.targets) == 1 and isinstance(st.targets[0], ast.Name):
            got[st.targets[0].id] = u(st.value)
    init = R.methods.get('__init__')
    for st in ast.walk(init):
        if isinstance(st, ast.Assign) and len(st.targets) == 1 and isinstance(st.targets[0], ast.Attribute) \
                and u(st.targets[0].value) == 'self':
            got[st.targets[0].attr] = u(st.value)
    for k, v in want.items():
        if got.get(k) != v:
            raise Unsupported('initial value of Connection.%s is %r' % (k, got.get(k)))


def dispatch_target(cls, tree, event):
    """the method of `cls` the h2 event class `event` is associated with, however the table is written: a
    dict literal {Event: self.m}, or pairs (Event, 'm') / (Event, m) / {Event: 'm'} in the class or module
    (a table the constructor turns into bound methods with getattr).  Exactly one association."""
    found = set()

    def is_event(k):
        return k is not None and u(k).split('.')[-1] == event

    def target(v):
        if isinstance(v, ast.Constant) and isinstance(v.value, str):
            return v.value
        s = u(v)
        for pre in ('self.', cls.name + '.'):
            if s.startswith(pre) and '.' not in s[len(pre):] and '(' not in s:
                return s[len(pre):]
        if isinstance(v, ast.Name):
            return v.id
        return None
    for scope in (cls, tree):
        for n in ast.walk(scope):
            if isinstance(n, ast.Dict):
                for k, v in zip(n.keys, n.values):
                    if is_event(k) and target(v):
                        found.add(target(v))
            elif isinstance(n, (ast.Tuple, ast.List)) and len(n.elts) == 2 and is_event(n.elts[0]) \
                    and target(n.elts[1]):
                found.add(target(n.elts[1]))
        if found:
            break
    if len(found) != 1:
        raise Unsupported('%s is associated with %s' % (event, sorted(found) or 'no method'))
    return found.pop()


def protocol_facts(repo, add):
    tree = parse(repo, 'grpclib/protocol.py')
    ccls = class_node(tree, 'Connection')
    R = connection_roles(ccls)
    initial_values(ccls, R)
    add('(* grpclib/protocol.py, normalised (see the header of tools/facts_C17.py); attributes by role *)')
    add('Inductive kexpr := ECfg (name : list Z) | EAttr (name : list Z) | ENow | EAnyOpen | ENone')
    add('  | EConst (n : Z) | ESub (a b : kexpr) | EAdd (a b : kexpr).')
    add('Inductive kcond := KConst (b : bool) | KNot (k : kcond) | KAnd (a b : kcond) | KOr (a b : kcond)')
    add('  | KIte (c a b : kcond) | KCmp (op : cmpop) (a b : kexpr) | KIsNotNone (e : kexpr)')
    add('  | KTruth (e : kexpr) | KNeedPing | KOpaque.')
    add('Inductive kstmt := SSendPing | SFlush | SCloseTransport | SCancel (timer : list Z)')
    add('  | SCall (meth : list Z) | SInc (attr : list Z) | SSet (attr : list Z) (e : kexpr)')
    add('  | SArm (timer delay_cfg callback : list Z) | SIf (k : kcond) (body : list kstmt).')
    add('(* the need-ping predicate of the ping callback, as one condition *)')
    add('Definition need_send_ping_src : kcond :=\n  %s.' % bool_function(R.methods[R.need], R))
    for coq, name in (('initialize', 'initialize'), ('ping', R.ping_cb), ('close', 'close'),
                      ('ping_ack_process', 'ping_ack_process'),
                      ('headers_send_process', 'headers_send_process'),
                      ('data_send_process', 'data_send_process')):
        add('Definition src_%s : list kstmt := [\n  %s\n].' % (coq, ';\n  '.join(method_effects(name, R))))
    # PingAckReceived is dispatched to a handler that calls ping_ack_process
    ep = class_node(tree, 'EventsProcessor')
    em = methods_of(ep)
    handler = dispatch_target(ep, tree, 'PingAckReceived')
    if handler is None or handler not in em:
        raise Unsupported('PingAckReceived is not dispatched to a method of EventsProcessor')
    add('Definition src_ping_ack_handler : list kstmt := [\n  %s\n].' % ';\n  '.join(
        effects(normalise(em[handler], em), R)))
    # connection_made starts keepalive
    hp = methods_of(class_node(tree, 'H2Protocol'))
    if 'connection_made' not in hp or not any(
            isinstance(n, ast.Call) and isinstance(n.func, ast.Attribute) and n.func.attr == 'initialize'
            for st in normalise(hp['connection_made'], hp) for n in ast.walk(st)):
        raise Unsupported('H2Protocol.connection_made does not call initialize()')
    add('')
    add('(* every place where a DATA / HEADERS frame is handed to h2: (method, reset hook, number of h2 sends, '
        'number of them after which the hook is reached on EVERY path with no await / return / loop edge / '
        'further send in between) *)')
    add('Definition send_sites : list (list Z * list Z * Z * Z) := [%s].' % '; '.join(stream_facts(tree, add)))
    add('')
    add('(* EVERY assignment in grpclib/ to one of the keepalive variables (any object, any module; private '
        'helpers folded into the methods calling them): (variable, [(module:Class.method, what is written)]) *)')
    w = writers(repo, R)
    add('Definition keepalive_writers : list (list Z * list (list Z * list Z)) := [\n%s\n].' % ';\n'.join(
        '  (%s, [%s])' % (zs(a), '; '.join('(%s, %s)' % (zs(f), zs(k)) for f, k in ws)) for a, ws in w))
    add('')


def generate(repo):
    L = []
    add = L.append
    add('(* GENERATED by tools/facts_C17.py from %s -- do not edit; rewritten on every run *)' % repo)
    add('From Coq Require Import ZArith List.')
    add('Import ListNotations.')
    add('Open Scope Z_scope.')
    add('')
    add('Definition facts_ticks_per_second : Z := %d.' % TICKS)
    add('')
    config_facts(repo, add)
    protocol_facts(repo, add)
    return '\n'.join(L) + '\n'


if __name__ == '__main__':
    import sys
    sys.stdout.write(generate(os.environ.get('VERIF_REPO', '/repo')))
