#!/usr/bin/env python3
"""Turn the JSON lines written by tools/patch_verify.py for the behaviour-preserving patches (one file per patch)
into harmless/<id>/result.json (development aid).   tools/harmless_results.py <dir with <id>.jsonl files>"""
import glob
import json
import os
import sys

VERIF = os.path.dirname(os.path.dirname(os.path.abspath(__file__)))


def main():
    src = sys.argv[1]
    n = 0
    for f in sorted(glob.glob(os.path.join(src, '*.jsonl'))):
        name = os.path.basename(f)[:-6]
        d = os.path.join(VERIF, 'harmless', name)
        if not os.path.isdir(d):
            continue
        runs = {}
        for ln in open(f):
            try:
                r = json.loads(ln)
            except Exception:
                continue
            if 'property' not in r:
                continue
            runs[r['property']] = {'rc': r.get('rc'), 'with_failing_input': r.get('with_failing_input', 0),
                                   'summary': (r.get('lines') or [''])[-1][:200]}
        with open(os.path.join(d, 'result.json'), 'w') as out:
            json.dump({'mode': 'every registered check, all legs, quick tier, seed 1, scratch copies of /repo and /verif '
                               '(tools/patch_verify.py)', 'runs': runs}, out, indent=1)
        n += 1
    print('%d result files written' % n)


if __name__ == '__main__':
    main()
