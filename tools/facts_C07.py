"""facts_C07.py -- what the flow-control code of grpclib/protocol.py DOES, as path/effect facts
(coq/Gen/FactsC07.v), regenerated from the source on every run (`ast` only, fail-closed).

The facts are stated by meaning, not by spelling.  Each function is first normalised by tools/pynorm.py
(docstrings/annotations stripped, private helpers of the same class/module inlined -- sync ones and
coroutines awaited at once --, early-exit form, single-use temporaries inlined) and then executed
SYMBOLICALLY, one loop iteration deep: every control-flow path becomes the sequence of the effects the
model Model/FlowSend.v depends on, with objects named by ROLE, never by attribute or variable name:

  await:<event>                 suspension point: `await <event>.wait()`
  set:<event> / clear:<event>   Event.set() / Event.clear()
      <event> = write_ready | window_updated(self) | window_updated(all)      every registered stream
              | window_updated(addressed)    the stream `streams.get(event.stream_id)`
  h2:window_read                <h2>.local_flow_control_window(...)            (any receiver: h2 API name)
  h2:send_data, h2:data_to_send, h2:<other h2 API call>
  transport:write(h2data)       <x>.write(<result of data_to_send()>)
  chunk:min{max_frame,other,window}   a min() over the window just read, max_outbound_frame_size, ...
  window>0 / window<=0          the branch taken on the window just read (any spelling: `not w > 0`, `w <= 0`,
                                `w < 1`, `0 >= w`, inverted if/else, De Morgan)
  sid==0 / sid!=0, addressed:present / addressed:absent, has:<SETTING> / lacks:<SETTING>,
  closing / not-closing         branches on event.stream_id, on the registry lookup, on
                                `<SETTING> in event.changed_settings`, on is_closing()
  call:self.flush, call:connection.pause_writing, call:connection.resume_writing
  ->loop | ->exit | ->raise     how the path ends (next loop iteration / function returns / raises)

Branches on anything else (e.g. "was this the last chunk") fork the path without a token; a repeated test
of the same unchanged expression does not fork twice.  Tokens about things C07 does not talk about
(MAX_CONCURRENT_STREAMS, stream_close_waiter, statistics, BytesIO book-keeping) are dropped and the
resulting paths de-duplicated and sorted, so renaming locals or private attributes, extracting or inlining
helpers, if/else versus early return, temporaries, `remaining` versus `f_pos/f_last`, one loop over a
computed list of streams versus two loops ... do not change the facts.  A new await, a dropped clear(), a
send that is not written at once, a wake-up that became conditional or partial, a changed window test do.
Anything the symbolic execution does not understand raises (fail-closed)."""
import ast
import copy

from extract_facts import parse, zs, Unsupported as XUnsupported
import pynorm

TARGETS = [
    ('send_data', 'Stream', 'send_data'),
    ('process_window_updated', 'EventsProcessor', 'process_window_updated'),
    ('process_remote_settings_changed', 'EventsProcessor', 'process_remote_settings_changed'),
    ('connection_pause_writing', 'Connection', 'pause_writing'),
    ('connection_resume_writing', 'Connection', 'resume_writing'),
    ('connection_flush', 'Connection', 'flush'),
    ('protocol_pause_writing', 'H2Protocol', 'pause_writing'),
    ('protocol_resume_writing', 'H2Protocol', 'resume_writing'),
]

H2_API = {'send_data', 'data_to_send', 'local_flow_control_window', 'reset_stream', 'end_stream',
          'send_headers', 'increment_flow_control_window', 'acknowledge_received_data', 'update_settings',
          'close_connection', 'ping'}
C07_EVENTS = ('write_ready', 'window_updated')


class Unsupported(Exception):
    pass


class St:
    """one path under construction"""

    def __init__(self):
        self.tokens = []
        self.env = {}          # local name -> role
        self.ver = {}          # local name -> number of assignments (invalidates remembered branches)
        self.assumed = {}      # key of an uninterpreted test -> bool
        self.status = None     # None (running) | 'loop' | 'exit' | 'raise' | 'break' | 'continue'

    def fork(self):
        s = St()
        s.tokens = list(self.tokens)
        s.env = dict(self.env)
        s.ver = dict(self.ver)
        s.assumed = dict(self.assumed)
        s.status = self.status
        return s

    def bind(self, name, role):
        self.env[name] = role
        self.ver[name] = self.ver.get(name, 0) + 1


def ev_name(role):
    """printable name of an event role"""
    _, kind, owner = role
    if kind == 'window_updated':
        return 'window_updated(%s)' % owner
    return kind


# ------------------------------------------------------------------------------------------------
# expressions: record effects in evaluation order, return the role of the value

def eval_expr(e, st):
    if e is None:
        return ('other',)
    if isinstance(e, ast.Await):
        v = e.value
        if isinstance(v, ast.Call) and isinstance(v.func, ast.Attribute) and v.func.attr == 'wait':
            r = eval_expr(v.func.value, st)
            if r[0] == 'ev':
                st.tokens.append('await:' + ev_name(r))
                return ('other',)
        # any other suspension point: keep it visible
        eval_expr(v, st)
        st.tokens.append('await:?' + (ast.unparse(v.func) if isinstance(v, ast.Call) else ast.unparse(v)))
        return ('other',)
    if isinstance(e, ast.Call):
        return eval_call(e, st)
    if isinstance(e, ast.Attribute):
        r = eval_expr(e.value, st)
        a = e.attr
        if a == 'window_updated':
            owner = {'self': 'self', 'addressed': 'addressed', 'elem_all': 'all'}.get(r[0])
            if owner is None:
                raise Unsupported('window_updated of an unrecognised object: ' + ast.unparse(e))
            return ('ev', 'window_updated', owner)
        if a in ('write_ready', 'stream_close_waiter'):
            return ('ev', a, None)
        if a == 'streams' and r[0] == 'self':
            return ('registry',)
        if a == 'connection' and r[0] == 'self':
            return ('connection',)
        if a == 'stream_id':
            return ('sid',)
        if a == 'changed_settings':
            return ('changed_settings',)
        if a == 'max_outbound_frame_size':
            return ('max_frame',)
        if r == ('name', 'SettingCodes'):
            return ('setting', a)
        return ('attr', r, a)
    if isinstance(e, ast.Name):
        if e.id == 'self':
            return ('self',)
        return st.env.get(e.id, ('name', e.id))
    if isinstance(e, ast.Constant):
        return ('const', e.value)
    if isinstance(e, (ast.Tuple, ast.List)):
        return ('seq', tuple(eval_expr(x, st) for x in e.elts))
    if isinstance(e, ast.UnaryOp) and isinstance(e.op, ast.Not):
        return ('not', eval_expr(e.operand, st))
    if isinstance(e, ast.Compare) and len(e.ops) == 1:
        l = eval_expr(e.left, st)
        r = eval_expr(e.comparators[0], st)
        return ('cmp', type(e.ops[0]).__name__, l, r)
    if isinstance(e, (ast.IfExp, ast.BoolOp)):
        # short-circuit evaluation: only allowed here when no effect hides inside
        probe = st.fork()
        for ch in ast.iter_child_nodes(e):
            if isinstance(ch, ast.expr):
                eval_expr(ch, probe)
        if probe.tokens != st.tokens:
            raise Unsupported('effect inside a conditional expression: ' + ast.unparse(e))
        return ('other',)
    if isinstance(e, (ast.Lambda, ast.ListComp, ast.SetComp, ast.DictComp, ast.GeneratorExp, ast.Yield,
                      ast.YieldFrom, ast.NamedExpr, ast.Starred)):
        raise Unsupported('expression kind ' + type(e).__name__)
    for ch in ast.iter_child_nodes(e):
        if isinstance(ch, ast.expr):
            eval_expr(ch, st)
    return ('other',)


def eval_call(e, st):
    f = e.func
    if isinstance(f, ast.Attribute):
        recv = eval_expr(f.value, st)
        args = [eval_expr(a, st) for a in e.args] + [eval_expr(k.value, st) for k in e.keywords]
        m = f.attr
        if recv[0] == 'ev':
            if m in ('set', 'clear'):
                st.tokens.append('%s:%s' % (m, ev_name(recv)))
                return ('other',)
            if m == 'wait':
                raise Unsupported('Event.wait() that is not awaited at once: ' + ast.unparse(e))
            return ('other',)                    # is_set()
        if m == 'local_flow_control_window':
            st.tokens.append('h2:window_read')
            return ('window',)
        if m in H2_API and recv[0] != 'self':
            st.tokens.append('h2:' + m)
            return ('h2data',) if m == 'data_to_send' else ('other',)
        if m == 'write':
            st.tokens.append('transport:write(%s)' % ('h2data' if ('h2data',) in args else 'other'))
            return ('other',)
        if recv[0] == 'registry':
            if m == 'values' and not args:
                return ('registry_all',)
            if m == 'items' and not args:
                return ('registry_items',)
            if m == 'get' and args and args[0] == ('sid',) and (len(args) == 1 or args[1] == ('const', None)):
                return ('addressed',)
            raise Unsupported('use of the stream registry: ' + ast.unparse(e))
        if m == 'is_closing':
            return ('closing',)
        if m in ('pause_writing', 'resume_writing', 'flush') and recv[0] in ('self', 'connection'):
            st.tokens.append('call:%s.%s' % (recv[0], m))
            return ('other',)
        return ('other',)
    if isinstance(f, ast.Name):
        args = [eval_expr(a, st) for a in e.args] + [eval_expr(k.value, st) for k in e.keywords]
        if f.id in ('min', 'max') and ('window',) in args:
            st.tokens.append('chunk:%s{%s}' % (f.id, ','.join(sorted(
                {('window',): 'window', ('max_frame',): 'max_frame'}.get(a, 'other') for a in args))))
            return ('other',)
        if f.id in ('list', 'tuple', 'iter', 'reversed') and len(args) == 1 and f.id != 'reversed':
            return args[0]
        return ('other',)
    eval_expr(f, st)
    for a in e.args:
        eval_expr(a, st)
    return ('other',)


# ------------------------------------------------------------------------------------------------
# branches

def int_bound(op, c, window_left):
    """window <op> c (or c <op> window) over the integers as ('>=', k) / ('<=', k)"""
    if not window_left:
        op = {'Gt': 'Lt', 'GtE': 'LtE', 'Lt': 'Gt', 'LtE': 'GtE'}.get(op, op)
    return {'Gt': ('>=', c + 1), 'GtE': ('>=', c), 'Lt': ('<=', c - 1), 'LtE': ('<=', c)}.get(op)


def classify(role):
    """(token if true, token if false) of a test with the given role, or None (uninterpreted)"""
    if role[0] == 'not':
        c = classify(role[1])
        return None if c is None else (c[1], c[0])
    if role[0] == 'cmp':
        _, op, l, r = role
        for a, b, left in ((l, r, True), (r, l, False)):
            if a == ('window',) and b[0] == 'const' and isinstance(b[1], int) and not isinstance(b[1], bool):
                bd = int_bound(op, b[1], left)
                if bd == ('>=', 1):
                    return ('window>0', 'window<=0')
                if bd == ('<=', 0):
                    return ('window<=0', 'window>0')
                raise Unsupported('the window is compared with something other than zero')
            if a == ('sid',) and b == ('const', 0) and op in ('Eq', 'NotEq'):
                return ('sid==0', 'sid!=0') if op == 'Eq' else ('sid!=0', 'sid==0')
            if a == ('addressed',) and b == ('const', None) and op in ('Is', 'IsNot', 'Eq', 'NotEq'):
                return ('addressed:absent', 'addressed:present') if op in ('Is', 'Eq') else \
                    ('addressed:present', 'addressed:absent')
        if l[0] == 'setting' and r == ('changed_settings',) and op in ('In', 'NotIn'):
            t = ('has:' + l[1], 'lacks:' + l[1])
            return t if op == 'In' else (t[1], t[0])
        if ('window',) in (l, r):
            raise Unsupported('unrecognised test of the window')
        return None
    if role == ('addressed',):
        return ('addressed:present', 'addressed:absent')
    if role == ('closing',):
        return ('closing', 'not-closing')
    if role == ('window',):
        raise Unsupported('truthiness test of the window')
    return None


def names_in(e):
    return sorted({n.id for n in ast.walk(e) if isinstance(n, ast.Name)})


def branch(test, st):
    """[(state, truth)] -- forks on the test"""
    if isinstance(test, ast.UnaryOp) and isinstance(test.op, ast.Not):
        return [(s, not b) for s, b in branch(test.operand, st)]
    if isinstance(test, ast.BoolOp):
        is_and = isinstance(test.op, ast.And)
        live, done = [st], []
        for v in test.values:
            nxt = []
            for s in live:
                for s2, b in branch(v, s):
                    (nxt if b == is_and else done).append((s2, b))
            live = [s for s, _ in nxt]
        return done + [(s, is_and) for s in live]
    if isinstance(test, ast.Constant):
        return [(st, bool(test.value))]
    role = eval_expr(test, st)
    c = classify(role)
    if c is not None:
        # a classified test repeated on the same path must agree with itself
        for tok, other, val in ((c[0], c[1], True), (c[1], c[0], False)):
            if tok in st.tokens and other not in st.tokens and tok.split(':')[0] not in ('window>0', 'window<=0'):
                return [(st, val)]
        t, f = st, st.fork()
        t.tokens.append(c[0])
        f.tokens.append(c[1])
        return [(t, True), (f, False)]
    key = ast.dump(test) + repr([(n, st.ver.get(n, 0)) for n in names_in(test)])
    if key in st.assumed:
        return [(st, st.assumed[key])]
    t, f = st, st.fork()
    t.assumed[key] = True
    f.assumed[key] = False
    return [(t, True), (f, False)]


# ------------------------------------------------------------------------------------------------
# statements

def run_block(stmts, states):
    for s in stmts:
        nxt = []
        for st in states:
            if st.status is not None:
                nxt.append(st)
            else:
                nxt += run_stmt(s, st)
        states = nxt
    return states


def assign(target, role, st):
    if isinstance(target, ast.Name):
        st.bind(target.id, role)
    elif isinstance(target, (ast.Tuple, ast.List)):
        for i, t in enumerate(target.elts):
            assign(t, role[1][i] if role[0] == 'seq' and len(role[1]) == len(target.elts) else ('other',), st)
    elif isinstance(target, (ast.Attribute, ast.Subscript)):
        pass                       # object state that is not an Event (statistics counters, ...)
    else:
        raise Unsupported('assignment target ' + ast.unparse(target))


def run_stmt(s, st):
    if isinstance(s, ast.Expr):
        eval_expr(s.value, st)
        return [st]
    if isinstance(s, (ast.Assign, ast.AnnAssign)):
        value = s.value
        targets = s.targets if isinstance(s, ast.Assign) else [s.target]
        if isinstance(value, ast.IfExp):
            out = []
            for s2, b in branch(value.test, st):
                role = eval_expr(value.body if b else value.orelse, s2)
                for t in targets:
                    assign(t, role, s2)
                out.append(s2)
            return out
        role = eval_expr(value, st)
        for t in targets:
            assign(t, role, st)
        return [st]
    if isinstance(s, ast.AugAssign):
        eval_expr(s.value, st)
        assign(s.target, ('other',), st)
        return [st]
    if isinstance(s, ast.Assert):
        eval_expr(s.test, st)
        return [st]
    if isinstance(s, ast.Pass):
        return [st]
    if isinstance(s, ast.If):
        out = []
        for s2, b in branch(s.test, st):
            out += run_block(s.body if b else s.orelse, [s2])
        return out
    if isinstance(s, ast.While):
        if s.orelse or not (isinstance(s.test, ast.Constant) and s.test.value):
            raise Unsupported('a loop other than `while True`')
        out = []
        for s2 in run_block(s.body, [st]):
            if s2.status in (None, 'continue'):
                s2.status = 'loop'
            elif s2.status == 'break':
                s2.status = None
            out.append(s2)
        return out
    if isinstance(s, ast.For):
        if s.orelse:
            raise Unsupported('for ... else')
        it = eval_expr(s.iter, st)
        if it == ('registry_all',):
            elems = [('elem_all',)]
        elif it == ('registry_items',):
            elems = [('seq', (('other',), ('elem_all',)))]
        elif it[0] == 'seq':
            elems = list(it[1])
        else:
            raise Unsupported('loop over something unrecognised: ' + ast.unparse(s.iter))
        states = [st]
        for el in elems:
            nxt = []
            for s2 in states:
                assign(s.target, el, s2)
                res = run_block(s.body, [s2])
                if len(res) != 1 or res[0].status is not None:
                    # a wake-up loop whose body branches, breaks or returns is not "every element"
                    raise Unsupported('loop body is not straight-line: ' + ast.unparse(s.iter))
                nxt += res
            states = nxt
        return states
    if isinstance(s, ast.Return):
        eval_expr(s.value, st)
        st.status = 'exit'
        return [st]
    if isinstance(s, ast.Continue):
        st.status = 'continue'
        return [st]
    if isinstance(s, ast.Break):
        st.status = 'break'
        return [st]
    if isinstance(s, ast.Raise):
        eval_expr(s.exc, st)
        st.status = 'raise'
        return [st]
    raise Unsupported('statement kind %s: %s' % (type(s).__name__, ast.unparse(s)[:80]))


# ------------------------------------------------------------------------------------------------

def relevant(tok):
    """is the token about something C07 talks about"""
    if tok.startswith(('has:', 'lacks:')):
        return tok.endswith(':INITIAL_WINDOW_SIZE')
    if tok.startswith(('set:', 'clear:', 'await:')) and not tok.startswith('await:?'):
        return tok.split(':', 1)[1].startswith(C07_EVENTS)
    return True


def paths_of(tree, cls, name):
    fn = pynorm.canonical_function(tree, cls, name)
    st = St()
    for a in fn.args.args + fn.args.kwonlyargs:
        if a.arg != 'self':
            st.env[a.arg] = ('name', a.arg)
    out = set()
    for s in run_block(fn.body, [st]):
        if s.status in ('break', 'continue'):
            raise Unsupported('break/continue outside a loop')
        end = {'loop': '->loop', 'raise': '->raise'}.get(s.status, '->exit')
        out.add(tuple([t for t in s.tokens if relevant(t)] + [end]))
    return sorted(out)


def generate(repo):
    tree = parse(repo, 'grpclib/protocol.py')
    lines = ['(* GENERATED by tools/facts_C07.py from grpclib/protocol.py -- do not edit.',
             '   For each function: its control-flow paths (one loop iteration deep, private helpers inlined)',
             '   as sequences of role-named effects; see the docstring of the translator. *)',
             'From Coq Require Import ZArith List.', 'Import ListNotations.', 'Open Scope Z_scope.', '']
    for name, cls, fn in TARGETS:
        try:
            paths = paths_of(tree, cls, fn)
        except (pynorm.Unsupported, XUnsupported) as e:
            raise Unsupported('%s.%s: %s' % (cls, fn, e))
        lines.append('Definition paths_%s : list (list (list Z)) :=' % name)
        body = []
        for p in paths:
            body.append('  [ ' + ';\n    '.join('%s   (* %s *)' % (zs(t), t.replace('*)', '* )')) for t in p) + ' ]')
        lines.append('[\n' + ';\n'.join(body) + '\n].' if body else '  [].')
        lines.append('')
    return '\n'.join(lines)


if __name__ == '__main__':
    import os
    import sys
    tree_ = parse(os.environ.get('VERIF_REPO', '/repo'), 'grpclib/protocol.py')
    if '--show' in sys.argv:
        for name_, cls_, fn_ in TARGETS:
            print(name_)
            for p_ in paths_of(tree_, cls_, fn_):
                print('   ', ' ; '.join(p_))
    else:
        print(generate(os.environ.get('VERIF_REPO', '/repo')), end='')
    sys.exit(0)
