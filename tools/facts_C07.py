"""facts_C07.py -- what the flow-control code of grpclib/protocol.py DOES, as path/effect facts
(coq/Gen/FactsC07.v), regenerated from the source on every run (`ast` only, fail-closed).

The facts are stated by meaning, not by spelling.  Each function is executed SYMBOLICALLY (after
tools/pynorm.strip_noise): every control-flow path becomes the sequence of the effects the model
Model/FlowSend.v depends on, with objects named by ROLE, never by attribute or variable name.  Private
helpers (methods `_x` of the same class, static/class methods, private module functions, sync or awaited at
once, with loops and early returns inside, returning plain values, tuples or private NamedTuple records with
properties) are executed in place with their arguments bound.  A loop is followed over its back edge until the
window is read again, so that "the wait is re-checked" is visible whichever loop (an inner helper loop or the
outer one) does the re-checking.

  await:<event>                 suspension point: `await <event>.wait()`
  set:<event> / clear:<event>   Event.set() / Event.clear()
      <event> = write_ready | window_updated(self) | window_updated(all)      every registered stream
              | window_updated(addressed)    the stream `streams.get(event.stream_id)`
  h2:window_read                <h2>.local_flow_control_window(...)            (any receiver: h2 API name)
  chunk:min{max_frame,other,window}   immediately before h2:send_data: the payload handed to it was read with a
                                size that is a min() over these (through temporaries, records, properties,
                                nested min()); `stale_window` / `stale_max_frame` = the value was read from
                                h2 before the last suspension point
  h2:send_data, h2:data_to_send, h2:<other h2 API call>
  transport:write(h2data)       <x>.write(<result of data_to_send()>)
  window>0 / window<=0          the branch taken on the window just read (any spelling: `not w > 0`, `w <= 0`,
                                `w < 1`, `0 >= w`, inverted if/else, De Morgan)
  sid==0 / sid!=0, addressed:present / addressed:absent, has:<SETTING> / lacks:<SETTING>,
  closing / not-closing         branches on event.stream_id, on the registry lookup (also with `:=`), on
                                `<SETTING> in event.changed_settings`, on is_closing()
  call:self.flush, call:connection.pause_writing, call:connection.resume_writing
  ->loop                        back edge of a `while`; the path continues with the next iteration and is cut
  ->recheck                     ... right after the next h2:window_read
  ->exit | ->raise              the function returns / raises

Branches on anything else (e.g. "was this the last chunk") fork the path without a token; a repeated test
of the same unchanged expression does not fork twice; a test of a known constant does not fork.  Tokens about
things C07 does not talk about (MAX_CONCURRENT_STREAMS, stream_close_waiter, statistics, BytesIO
book-keeping) are dropped and the resulting paths de-duplicated and sorted.  Anything the symbolic execution
does not understand raises (fail-closed)."""
import ast

from extract_facts import parse, zs
import pynorm

TARGETS = [
    ('send_data', 'Stream', 'send_data'),
    ('process_window_updated', 'EventsProcessor', 'process_window_updated'),
    ('process_remote_settings_changed', 'EventsProcessor', 'process_remote_settings_changed'),
    ('connection_pause_writing', 'Connection', 'pause_writing'),
    ('connection_resume_writing', 'Connection', 'resume_writing'),
    ('connection_flush', 'Connection', 'flush'),
    ('protocol_pause_writing', 'H2Protocol', 'pause_writing'),
    ('protocol_resume_writing', 'H2Protocol', 'resume_writing'),
]

H2_API = {'send_data', 'data_to_send', 'local_flow_control_window', 'reset_stream', 'end_stream',
          'send_headers', 'increment_flow_control_window', 'acknowledge_received_data', 'update_settings',
          'close_connection', 'ping'}
C07_EVENTS = ('write_ready', 'window_updated')
MAX_DEPTH = 6
FUNC = (ast.FunctionDef, ast.AsyncFunctionDef)


class Unsupported(Exception):
    pass


OTHER = ('other',)


class St:
    """one path under construction"""

    def __init__(self):
        self.tokens = []
        self.frames = [{}]     # call stack of local environments: name -> role
        self.ver = {}          # (depth, name) -> number of assignments (invalidates remembered branches)
        self.assumed = {}      # key of an uninterpreted test -> bool
        self.status = None     # None (running) | 'exit' | 'raise' | 'cut' | 'break' | 'continue' | 'return'
        self.retval = OTHER
        self.after_loop = False
        self.ntemp = 0
        self.epoch = 0         # number of suspension points passed: values read from h2 before the last one are stale

    def fork(self):
        s = St()
        s.tokens = list(self.tokens)
        s.frames = [dict(f) for f in self.frames]
        s.ver = dict(self.ver)
        s.assumed = dict(self.assumed)
        s.status = self.status
        s.retval = self.retval
        s.after_loop = self.after_loop
        s.ntemp = self.ntemp
        s.epoch = self.epoch
        return s

    @property
    def env(self):
        return self.frames[-1]

    def bind(self, name, role):
        self.env[name] = role
        k = (len(self.frames), name)
        self.ver[k] = self.ver.get(k, 0) + 1

    def emit(self, tok):
        if self.status == 'cut':
            return
        self.tokens.append(tok)
        if tok.startswith('await:'):
            self.epoch += 1
        if tok == 'h2:window_read' and self.after_loop:
            self.tokens.append('->recheck')
            self.status = 'cut'


def ev_name(role):
    _, kind, owner = role
    return 'window_updated(%s)' % owner if kind == 'window_updated' else kind


def is_private(name):
    return name.startswith('_') and not (name.startswith('__') and name.endswith('__'))


def bound_name(role, st):
    """how a value bounds a chunk size: the window / max frame size read since the last suspension point, a
    stale one, or something else"""
    if role[0] in ('window', 'max_frame'):
        return role[0] if role[1] == st.epoch else 'stale_' + role[0]
    return 'other'


class Exec:
    def __init__(self, tree, cls, raw=None):
        self.tree = tree
        self.cls = cls
        self.classes = {n.name: n for n in tree.body if isinstance(n, ast.ClassDef)}
        # record fields are annotations, which strip_noise removes: read them off the unstripped tree
        self.raw_classes = {n.name: n for n in (raw or tree).body if isinstance(n, ast.ClassDef)}
        self.module_funcs = {n.name: n for n in tree.body if isinstance(n, FUNC)}
        self.depth = 0

    # ---- helper resolution ----------------------------------------------------------------------
    def method(self, clsname, name):
        c = self.classes.get(clsname)
        if c is None:
            return None
        for n in c.body:
            if isinstance(n, FUNC) and n.name == name:
                return n
        return None

    def resolve_helper(self, call, st):
        """(function node, bound-to-self?) when `call` is a call of a private helper of this class / module"""
        f = call.func
        if isinstance(f, ast.Attribute) and is_private(f.attr) and isinstance(f.value, ast.Name):
            base = f.value.id
            if base in ('self', 'cls') or base == self.cls:
                fn = self.method(self.cls, f.attr)
                if fn is not None:
                    static = any(isinstance(d, ast.Name) and d.id == 'staticmethod' for d in fn.decorator_list)
                    return fn, not static
        if isinstance(f, ast.Name) and is_private(f.id) and f.id in self.module_funcs \
                and f.id not in st.env:
            return self.module_funcs[f.id], False
        return None

    def record_class(self, name):
        """annotated fields of a module-level class used as a record (NamedTuple / dataclass)"""
        c = self.raw_classes.get(name)
        if c is None:
            return None
        fields = [n.target.id for n in c.body if isinstance(n, ast.AnnAssign) and isinstance(n.target, ast.Name)]
        if not fields or any(isinstance(n, FUNC) and n.name == '__init__' for n in c.body):
            return None
        return fields

    def property_of(self, clsname, attr):
        fn = self.method(clsname, attr)
        if fn is not None and any(isinstance(d, ast.Name) and d.id == 'property' for d in fn.decorator_list):
            return fn
        return None

    # ---- expressions: record effects in evaluation order, return the role of the value --------------
    def eval_expr(self, e, st):
        if e is None:
            return OTHER
        if isinstance(e, ast.Await):
            v = e.value
            if isinstance(v, ast.Call) and isinstance(v.func, ast.Attribute) and v.func.attr == 'wait':
                r = self.eval_expr(v.func.value, st)
                if r[0] == 'ev':
                    st.emit('await:' + ev_name(r))
                    return OTHER
            if isinstance(v, ast.Call) and self.resolve_helper(v, st):
                return self.inline_expr_helper(v, st)
            self.eval_expr(v, st)
            st.emit('await:?' + (ast.unparse(v.func) if isinstance(v, ast.Call) else ast.unparse(v)))
            return OTHER
        if isinstance(e, ast.Call):
            return self.eval_call(e, st)
        if isinstance(e, ast.NamedExpr):
            r = self.eval_expr(e.value, st)
            self.assign(e.target, r, st)
            return r
        if isinstance(e, ast.Attribute):
            r = self.eval_expr(e.value, st)
            a = e.attr
            if r[0] == 'record':
                fields = dict(r[2])
                if a in fields:
                    return fields[a]
                prop = self.property_of(r[1], a)
                if prop is not None:
                    return self.inline_function(prop, [r], {}, st, expr_only=True)
                raise Unsupported('unknown attribute of a record: ' + ast.unparse(e))
            if a == 'window_updated':
                owner = {'self': 'self', 'addressed': 'addressed', 'elem_all': 'all'}.get(r[0])
                if owner is None:
                    raise Unsupported('window_updated of an unrecognised object: ' + ast.unparse(e))
                return ('ev', 'window_updated', owner)
            if a in ('write_ready', 'stream_close_waiter'):
                return ('ev', a, None)
            if a == 'streams' and r[0] == 'self':
                return ('registry',)
            if a == 'connection' and r[0] == 'self':
                return ('connection',)
            if a == 'stream_id':
                return ('sid',)
            if a == 'changed_settings':
                return ('changed_settings',)
            if a == 'max_outbound_frame_size':
                return ('max_frame', st.epoch)
            if r == ('name', 'SettingCodes'):
                return ('setting', a)
            return ('attr', r, a)
        if isinstance(e, ast.Name):
            if e.id == 'self':
                return st.env.get('self', ('self',))
            return st.env.get(e.id, ('name', e.id))
        if isinstance(e, ast.Constant):
            return ('const', e.value)
        if isinstance(e, (ast.Tuple, ast.List)):
            return ('seq', tuple(self.eval_expr(x, st) for x in e.elts))
        if isinstance(e, ast.UnaryOp) and isinstance(e.op, ast.Not):
            return ('not', self.eval_expr(e.operand, st))
        if isinstance(e, ast.Compare) and len(e.ops) == 1:
            l = self.eval_expr(e.left, st)
            r = self.eval_expr(e.comparators[0], st)
            return ('cmp', type(e.ops[0]).__name__, l, r)
        if isinstance(e, (ast.IfExp, ast.BoolOp)):
            # short-circuit evaluation: only allowed here when no effect hides inside
            probe = st.fork()
            for ch in ast.iter_child_nodes(e):
                if isinstance(ch, ast.expr):
                    self.eval_expr(ch, probe)
            if probe.tokens != st.tokens:
                raise Unsupported('effect inside a conditional expression: ' + ast.unparse(e))
            return OTHER
        if isinstance(e, ast.JoinedStr):
            for v in e.values:
                if isinstance(v, ast.FormattedValue):
                    self.eval_expr(v.value, st)
            return OTHER
        if isinstance(e, (ast.Lambda, ast.ListComp, ast.SetComp, ast.DictComp, ast.GeneratorExp, ast.Yield,
                          ast.YieldFrom, ast.Starred)):
            probe = st.fork()
            for n in ast.walk(e):
                if isinstance(n, (ast.Await, ast.Call)) and n is not e:
                    # only harmless when nothing of interest can happen inside
                    if isinstance(n, ast.Await):
                        raise Unsupported('await inside ' + type(e).__name__)
                    self.eval_expr(n, probe)
            if probe.tokens != st.tokens:
                raise Unsupported('effect inside ' + type(e).__name__)
            return OTHER
        for ch in ast.iter_child_nodes(e):
            if isinstance(ch, ast.expr):
                self.eval_expr(ch, st)
        return OTHER

    def eval_call(self, e, st):
        f = e.func
        if self.resolve_helper(e, st):
            return self.inline_expr_helper(e, st)
        if isinstance(f, ast.Attribute):
            recv = self.eval_expr(f.value, st)
            args = [self.eval_expr(a, st) for a in e.args] + [self.eval_expr(k.value, st) for k in e.keywords]
            m = f.attr
            if recv[0] == 'ev':
                if m in ('set', 'clear'):
                    st.emit('%s:%s' % (m, ev_name(recv)))
                    return OTHER
                if m == 'wait':
                    raise Unsupported('Event.wait() that is not awaited at once: ' + ast.unparse(e))
                return OTHER                     # is_set()
            if m == 'local_flow_control_window':
                st.emit('h2:window_read')
                return ('window', st.epoch)
            if m in H2_API and recv[0] != 'self':
                if m == 'send_data':
                    for a in args:
                        if a[0] == 'chunk':
                            st.emit('chunk:min{%s}' % ','.join(sorted({bound_name(x, st) for x in a[1]}))
                                    if a[1] else 'chunk:unbounded')
                st.emit('h2:' + m)
                return ('h2data',) if m == 'data_to_send' else OTHER
            if m == 'write':
                st.emit('transport:write(%s)' % ('h2data' if ('h2data',) in args else 'other'))
                return OTHER
            if m == 'read' and len(args) <= 1:
                # bytes read from a buffer: remember what bounds their number
                a = args[0] if args else OTHER
                return ('chunk', a[1] if a[0] == 'minof' else
                        frozenset([a]) if args else frozenset())
            if recv[0] == 'registry':
                if m == 'values' and not args:
                    return ('registry_all',)
                if m == 'items' and not args:
                    return ('registry_items',)
                if m == 'get' and args and args[0] == ('sid',) and (len(args) == 1 or args[1] == ('const', None)):
                    return ('addressed',)
                raise Unsupported('use of the stream registry: ' + ast.unparse(e))
            if m == 'is_closing':
                return ('closing',)
            if m in ('pause_writing', 'resume_writing', 'flush') and recv[0] in ('self', 'connection'):
                st.emit('call:%s.%s' % (recv[0], m))
                return OTHER
            return OTHER
        if isinstance(f, ast.Name):
            args = [self.eval_expr(a, st) for a in e.args]
            kws = {k.arg: self.eval_expr(k.value, st) for k in e.keywords}
            allargs = args + list(kws.values())
            if f.id == 'min' and f.id not in st.env:
                parts = set()
                for a in allargs:
                    if a[0] == 'minof':
                        parts |= set(a[1])
                    else:
                        parts.add(a if a[0] in ('window', 'max_frame') else OTHER)
                return ('minof', frozenset(parts))
            if f.id in ('list', 'tuple', 'iter') and len(allargs) == 1:
                return allargs[0]
            fields = self.record_class(f.id) if f.id not in st.env else None
            if fields is not None:
                if len(args) > len(fields) or any(k not in fields for k in kws if k):
                    raise Unsupported('construction of record ' + f.id)
                vals = dict(zip(fields, args))
                vals.update(kws)
                return ('record', f.id, tuple((k, vals.get(k, OTHER)) for k in fields))
            return OTHER
        self.eval_expr(f, st)
        for a in e.args:
            self.eval_expr(a, st)
        return OTHER

    # ---- helpers ----------------------------------------------------------------------------------
    def bind_args(self, fn, argroles, kwroles, bound_self, st):
        params = [a.arg for a in fn.args.posonlyargs + fn.args.args]
        env = {}
        pos = list(argroles)
        if bound_self:
            pos = [st.env.get('self', ('self',))] + pos
        if fn.args.vararg or fn.args.kwarg or len(pos) > len(params):
            raise Unsupported('argument shape of helper ' + fn.name)
        defaults = fn.args.defaults
        for i, p in enumerate(params):
            if i < len(pos):
                env[p] = pos[i]
            elif p in kwroles:
                env[p] = kwroles[p]
            else:
                d = i - (len(params) - len(defaults))
                if d < 0:
                    raise Unsupported('missing argument of helper ' + fn.name)
                env[p] = self.eval_expr(defaults[d], St())
        for a, d in zip(fn.args.kwonlyargs, fn.args.kw_defaults):
            env[a.arg] = kwroles[a.arg] if a.arg in kwroles else (self.eval_expr(d, St()) if d is not None else OTHER)
        if bound_self and params and params[0] != 'self':
            env['self'] = env[params[0]]
        return env

    def call_helper(self, fn, bound_self, call, st):
        """run a helper on the path st: list of states (status None: st.retval is the value returned)"""
        if self.depth >= MAX_DEPTH:
            raise Unsupported('helper nesting too deep / recursive: ' + fn.name)
        args = [self.eval_expr(a, st) for a in call.args]
        kws = {k.arg: self.eval_expr(k.value, st) for k in call.keywords}
        if any(k is None for k in kws):
            raise Unsupported('**kwargs in a helper call')
        env = self.bind_args(fn, args, kws, bound_self, st)
        st.frames.append(env)
        self.depth += 1
        try:
            out = []
            for s in self.run_block(fn.body, [st]):
                if s.status in ('break', 'continue'):
                    raise Unsupported('break/continue outside a loop in ' + fn.name)
                if s.status in (None, 'return'):
                    if s.status is None:
                        s.retval = ('const', None)
                    s.status = None
                    s.frames.pop()
                out.append(s)
            return out
        finally:
            self.depth -= 1

    def inline_function(self, fn, args, kws, st, expr_only=False):
        """a helper in expression position: must be a single straight path"""
        params = [a.arg for a in fn.args.args]
        env = dict(zip(params, args))
        st.frames.append(env)
        self.depth += 1
        try:
            if self.depth > MAX_DEPTH:
                raise Unsupported('helper nesting too deep')
            body = [s for s in fn.body]
            res = self.run_block(body, [st])
            if len(res) != 1 or res[0] is not st or st.status not in ('return', None):
                raise Unsupported('helper %s used inside an expression has several paths' % fn.name)
            r = st.retval if st.status == 'return' else ('const', None)
            st.status = None
            st.frames.pop()
            return r
        finally:
            self.depth -= 1

    def inline_expr_helper(self, call, st):
        fn, bound = self.resolve_helper(call, st)
        res = self.call_helper(fn, bound, call, st)
        if len(res) != 1 or res[0] is not st or st.status is not None:
            raise Unsupported('helper %s with several paths in a position that could not be hoisted' % fn.name)
        return st.retval

    # ---- hoisting helper calls out of expressions ------------------------------------------------------
    def hoist(self, expr, st, out):
        """replace helper calls inside expr (outside short-circuit contexts) by fresh names; out collects
        (name, call node) in evaluation order"""
        ex = self

        class H(ast.NodeTransformer):
            def visit_IfExp(self, n):
                n.test = self.visit(n.test)
                return n

            def visit_BoolOp(self, n):
                n.values[0] = self.visit(n.values[0])
                return n

            def visit_Lambda(self, n):
                return n

            def generic_comp(self, n):
                return n
            visit_ListComp = visit_SetComp = visit_DictComp = visit_GeneratorExp = generic_comp

            def visit_Await(self, n):
                if isinstance(n.value, ast.Call) and ex.resolve_helper(n.value, st):
                    n.value.args = [self.visit(a) for a in n.value.args]
                    for k in n.value.keywords:
                        k.value = self.visit(k.value)
                    return self.fresh(n.value)
                return self.generic_visit(n)

            def visit_Call(self, n):
                if ex.resolve_helper(n, st):
                    n.args = [self.visit(a) for a in n.args]
                    for k in n.keywords:
                        k.value = self.visit(k.value)
                    return self.fresh(n)
                return self.generic_visit(n)

            def fresh(self, call):
                st.ntemp += 1
                name = '%helper' + str(st.ntemp)
                out.append((name, call))
                return ast.copy_location(ast.Name(id=name, ctx=ast.Load()), call)
        import copy
        return H().visit(copy.deepcopy(expr))

    def with_hoisted(self, exprs, st, k):
        """evaluate helper calls hoisted out of the expressions, forking; then continue with k(state, new exprs)"""
        out = []
        new = [None if e is None else self.hoist(e, st, out) for e in exprs]
        states = [st]
        for name, call in out:
            nxt = []
            for s in states:
                if s.status is not None:
                    nxt.append(s)
                    continue
                fn, bound = self.resolve_helper(call, s)
                for s2 in self.call_helper(fn, bound, call, s):
                    if s2.status is None:
                        s2.bind(name, s2.retval)
                    nxt.append(s2)
            states = nxt
        res = []
        for s in states:
            res += [s] if s.status is not None else k(s, new)
        return res

    # ---- branches ------------------------------------------------------------------------------------
    @staticmethod
    def int_bound(op, c, window_left):
        if not window_left:
            op = {'Gt': 'Lt', 'GtE': 'LtE', 'Lt': 'Gt', 'LtE': 'GtE'}.get(op, op)
        return {'Gt': ('>=', c + 1), 'GtE': ('>=', c), 'Lt': ('<=', c - 1), 'LtE': ('<=', c)}.get(op)

    def classify(self, role):
        """(token if true, token if false), a bool (statically known), or None (uninterpreted)"""
        if role[0] == 'not':
            c = self.classify(role[1])
            if isinstance(c, bool):
                return not c
            return None if c is None else (c[1], c[0])
        if role[0] == 'const':
            return bool(role[1])
        if role[0] == 'cmp':
            _, op, l, r = role
            for a, b, left in ((l, r, True), (r, l, False)):
                if a[0] == 'window' and b[0] == 'const' and isinstance(b[1], int) and not isinstance(b[1], bool):
                    bd = self.int_bound(op, b[1], left)
                    if bd == ('>=', 1):
                        return ('window>0', 'window<=0')
                    if bd == ('<=', 0):
                        return ('window<=0', 'window>0')
                    raise Unsupported('the window is compared with something other than zero')
                if a == ('sid',) and b == ('const', 0) and op in ('Eq', 'NotEq'):
                    return ('sid==0', 'sid!=0') if op == 'Eq' else ('sid!=0', 'sid==0')
                if a == ('addressed',) and b == ('const', None) and op in ('Is', 'IsNot', 'Eq', 'NotEq'):
                    return ('addressed:absent', 'addressed:present') if op in ('Is', 'Eq') else \
                        ('addressed:present', 'addressed:absent')
            if l[0] == 'setting' and r == ('changed_settings',) and op in ('In', 'NotIn'):
                t = ('has:' + l[1], 'lacks:' + l[1])
                return t if op == 'In' else (t[1], t[0])
            if 'window' in (l[0], r[0]):
                raise Unsupported('unrecognised test of the window')
            if l[0] == 'const' and r[0] == 'const' and op in ('Eq', 'NotEq', 'Is', 'IsNot'):
                eq = l[1] == r[1] if op in ('Eq', 'NotEq') else l[1] is r[1]
                return eq if op in ('Eq', 'Is') else not eq
            return None
        if role == ('addressed',):
            return ('addressed:present', 'addressed:absent')
        if role == ('closing',):
            return ('closing', 'not-closing')
        if role[0] == 'window':
            raise Unsupported('truthiness test of the window')
        return None

    def branch(self, test, st):
        """[(state, truth)] -- forks on the test (helper calls already hoisted)"""
        if isinstance(test, ast.UnaryOp) and isinstance(test.op, ast.Not):
            return [(s, not b) for s, b in self.branch(test.operand, st)]
        if isinstance(test, ast.BoolOp):
            is_and = isinstance(test.op, ast.And)
            live, done = [st], []
            for v in test.values:
                nxt = []
                for s in live:
                    for s2, b in self.branch(v, s):
                        (nxt if b == is_and else done).append((s2, b))
                live = [s for s, _ in nxt]
            return done + [(s, is_and) for s in live]
        role = self.eval_expr(test, st)
        c = self.classify(role)
        if isinstance(c, bool):
            return [(st, c)]
        if c is not None:
            if not c[0].startswith('window'):
                # a classified test repeated on the same path agrees with itself
                for tok, other, val in ((c[0], c[1], True), (c[1], c[0], False)):
                    if tok in st.tokens and other not in st.tokens:
                        return [(st, val)]
            t, f = st, st.fork()
            t.emit(c[0])
            f.emit(c[1])
            return [(t, True), (f, False)]
        d = len(st.frames)
        names = sorted({n.id for n in ast.walk(test) if isinstance(n, ast.Name)})
        key = '%d|%s|%r' % (d, ast.dump(test), [(n, st.ver.get((d, n), 0)) for n in names])
        if key in st.assumed:
            return [(st, st.assumed[key])]
        t, f = st, st.fork()
        t.assumed[key] = True
        f.assumed[key] = False
        return [(t, True), (f, False)]

    # ---- statements ------------------------------------------------------------------------------------
    def run_block(self, stmts, states):
        for s in stmts:
            nxt = []
            for st in states:
                if st.status is not None:
                    nxt.append(st)
                else:
                    nxt += self.run_stmt(s, st)
            states = nxt
        return states

    def assign(self, target, role, st):
        if isinstance(target, ast.Name):
            st.bind(target.id, role)
        elif isinstance(target, (ast.Tuple, ast.List)):
            parts = None
            if role[0] == 'seq' and len(role[1]) == len(target.elts):
                parts = list(role[1])
            elif role[0] == 'record' and len(role[2]) == len(target.elts):
                parts = [v for _, v in role[2]]
            for i, t in enumerate(target.elts):
                self.assign(t, parts[i] if parts else OTHER, st)
        elif isinstance(target, (ast.Attribute, ast.Subscript)):
            pass                       # object state that is not an Event (statistics counters, ...)
        else:
            raise Unsupported('assignment target ' + ast.unparse(target))

    def run_stmt(self, s, st):
        if isinstance(s, ast.Expr):
            return self.with_hoisted([s.value], st, lambda s2, ex: (self.eval_expr(ex[0], s2), [s2])[1])
        if isinstance(s, (ast.Assign, ast.AnnAssign)):
            targets = s.targets if isinstance(s, ast.Assign) else [s.target]
            if s.value is None:
                return [st]

            def k(s2, ex):
                value = ex[0]
                if isinstance(value, ast.IfExp):
                    out = []
                    for s3, b in self.branch(value.test, s2):
                        role = self.eval_expr(value.body if b else value.orelse, s3)
                        for t in targets:
                            self.assign(t, role, s3)
                        out.append(s3)
                    return out
                role = self.eval_expr(value, s2)
                for t in targets:
                    self.assign(t, role, s2)
                return [s2]
            return self.with_hoisted([s.value], st, k)
        if isinstance(s, ast.AugAssign):
            def k(s2, ex):
                self.eval_expr(ex[0], s2)
                self.assign(s.target, OTHER, s2)
                return [s2]
            return self.with_hoisted([s.value], st, k)
        if isinstance(s, ast.Assert):
            return self.with_hoisted([s.test], st, lambda s2, ex: (self.eval_expr(ex[0], s2), [s2])[1])
        if isinstance(s, (ast.Pass, ast.Import, ast.ImportFrom, ast.Global, ast.Nonlocal)):
            return [st]
        if isinstance(s, ast.If):
            def k(s2, ex):
                out = []
                for s3, b in self.branch(ex[0], s2):
                    out += self.run_block(s.body if b else s.orelse, [s3])
                return out
            return self.with_hoisted([s.test], st, k)
        if isinstance(s, ast.While):
            return self.run_while(s, st)
        if isinstance(s, ast.For):
            return self.with_hoisted([s.iter], st, lambda s2, ex: self.run_for(s, ex[0], s2))
        if isinstance(s, ast.Return):
            def k(s2, ex):
                s2.retval = self.eval_expr(ex[0], s2) if ex[0] is not None else ('const', None)
                if s2.status is None:
                    s2.status = 'return'
                return [s2]
            return self.with_hoisted([s.value], st, k)
        if isinstance(s, ast.Continue):
            st.status = 'continue'
            return [st]
        if isinstance(s, ast.Break):
            st.status = 'break'
            return [st]
        if isinstance(s, ast.Raise):
            self.eval_expr(s.exc, st)
            if st.status is None:
                st.status = 'raise'
            return [st]
        raise Unsupported('statement kind %s: %s' % (type(s).__name__, ast.unparse(s)[:80]))

    def run_for(self, s, it_expr, st):
        if s.orelse:
            raise Unsupported('for ... else')
        it = self.eval_expr(it_expr, st)
        if it == ('registry_all',):
            elems = [('elem_all',)]
        elif it == ('registry_items',):
            elems = [('seq', (OTHER, ('elem_all',)))]
        elif it[0] == 'seq':
            elems = list(it[1])
        else:
            raise Unsupported('loop over something unrecognised: ' + ast.unparse(s.iter))
        states = [st]
        for el in elems:
            nxt = []
            for s2 in states:
                self.assign(s.target, el, s2)
                res = self.run_block(s.body, [s2])
                if len(res) != 1 or res[0].status is not None:
                    # a wake-up loop whose body branches, breaks or returns is not "every element"
                    raise Unsupported('loop body is not straight-line: ' + ast.unparse(s.iter))
                nxt += res
            states = nxt
        return states

    def run_while(self, s, st):
        if s.orelse:
            raise Unsupported('while ... else')
        if any(isinstance(n, ast.Call) and self.resolve_helper(n, st) for n in ast.walk(s.test)):
            raise Unsupported('helper call in a loop test')
        results = []

        def iterate(state, rounds):
            if rounds > 3:
                raise Unsupported('a loop that goes round without reading the window again')
            for s2, b in self.branch(s.test, state):
                if not b:
                    results.append(s2)              # leaves the loop, goes on after it
                    continue
                if rounds:
                    s2.emit('->loop')               # the back edge is taken
                    s2.after_loop = True
                for s3 in self.run_block(s.body, [s2]):
                    if s3.status in (None, 'continue'):
                        s3.status = None
                        iterate(s3, rounds + 1)
                    elif s3.status == 'break':
                        s3.status = None
                        results.append(s3)
                    else:
                        results.append(s3)
        iterate(st, 0)
        return results


# ------------------------------------------------------------------------------------------------

def relevant(tok):
    """is the token about something C07 talks about"""
    if tok.startswith(('has:', 'lacks:')):
        return tok.endswith(':INITIAL_WINDOW_SIZE')
    if tok.startswith(('set:', 'clear:', 'await:')) and not tok.startswith('await:?'):
        return tok.split(':', 1)[1].startswith(C07_EVENTS)
    return True


def paths_of(tree, cls, name):
    raw = tree
    tree = pynorm.strip_noise(tree)
    ex = Exec(tree, cls, raw)
    fn = ex.method(cls, name)
    if fn is None:
        raise Unsupported('%s.%s not found' % (cls, name))
    st = St()
    for a in fn.args.posonlyargs + fn.args.args + fn.args.kwonlyargs:
        if a.arg != 'self':
            st.env[a.arg] = ('name', a.arg)
    out = set()
    for s in ex.run_block(fn.body, [st]):
        if s.status in ('break', 'continue'):
            raise Unsupported('break/continue outside a loop')
        toks = [t for t in s.tokens if relevant(t)]
        if s.status != 'cut':
            toks.append('->raise' if s.status == 'raise' else '->exit')
        out.add(tuple(toks))
    return sorted(out)


def generate(repo):
    tree = parse(repo, 'grpclib/protocol.py')
    lines = ['(* GENERATED by tools/facts_C07.py from grpclib/protocol.py -- do not edit.',
             '   For each function: its control-flow paths (private helpers executed in place, loops followed',
             '   over the back edge up to the next window read) as sequences of role-named effects; see the',
             '   docstring of the translator. *)',
             'From Coq Require Import ZArith List.', 'Import ListNotations.', 'Open Scope Z_scope.', '']
    for name, cls, fn in TARGETS:
        try:
            paths = paths_of(tree, cls, fn)
        except pynorm.Unsupported as e:
            raise Unsupported('%s.%s: %s' % (cls, fn, e))
        lines.append('Definition paths_%s : list (list (list Z)) :=' % name)
        body = []
        for p in paths:
            body.append('  [ ' + ';\n    '.join('%s   (* %s *)' % (zs(t), t.replace('*)', '* )')) for t in p) + ' ]')
        lines.append('[\n' + ';\n'.join(body) + '\n].' if body else '  [].')
        lines.append('')
    return '\n'.join(lines)


if __name__ == '__main__':
    import os
    import sys
    tree_ = parse(os.environ.get('VERIF_REPO', '/repo'), 'grpclib/protocol.py')
    if '--show' in sys.argv:
        for name_, cls_, fn_ in TARGETS:
            print(name_)
            for p_ in paths_of(tree_, cls_, fn_):
                print('   ', ' ; '.join(p_))
    else:
        print(generate(os.environ.get('VERIF_REPO', '/repo')), end='')
    sys.exit(0)
