"""facts_C07.py -- the control skeleton of the flow-control code of grpclib/protocol.py as Coq data
(coq/Gen/FactsC07.v), regenerated from the source on every run (`ast` only, fail-closed).

For each of Stream.send_data, EventsProcessor.process_window_updated,
EventsProcessor.process_remote_settings_changed, Connection.pause_writing / resume_writing / flush and
H2Protocol.pause_writing / resume_writing the translator emits the sequence, in evaluation order,
of the things the model Model/FlowSend.v depends on:

   await:<dotted name>     an await of a call           (suspension point)
   builtin:min/<n>         a call of min / max with n arguments (the chunk size computation)
   call:<dotted name>      a call on an attribute chain starting at `self.` or at a loop variable
   read:<dotted name>      a read of self._h2_connection.<attr>   (h2 state used without a call)
   while-true( ... )       `while True:` loop
   if:<test>( ... else ... ) / for:<target> in <iter>( ... )
   continue / break / return

Local renames, comments, statistics counters and reformatting do not change the skeleton; a new
await, a removed clear(), a reordered call or a changed test do.  Anything that is not one of the
recognised statement kinds raises (fail-closed)."""
import ast

from extract_facts import parse, func_node, zs, Unsupported

TARGETS = [
    ('send_data', 'Stream', 'send_data'),
    ('process_window_updated', 'EventsProcessor', 'process_window_updated'),
    ('process_remote_settings_changed', 'EventsProcessor', 'process_remote_settings_changed'),
    ('connection_pause_writing', 'Connection', 'pause_writing'),
    ('connection_resume_writing', 'Connection', 'resume_writing'),
    ('connection_flush', 'Connection', 'flush'),
    ('protocol_pause_writing', 'H2Protocol', 'pause_writing'),
    ('protocol_resume_writing', 'H2Protocol', 'resume_writing'),
]


def dotted(node):
    parts = []
    while isinstance(node, ast.Attribute):
        parts.append(node.attr)
        node = node.value
    if isinstance(node, ast.Name):
        parts.append(node.id)
        return '.'.join(reversed(parts))
    return None


class Skel:
    def __init__(self, roots):
        self.roots = set(roots)         # names whose attribute chains are tracked
        self.out = []

    def expr(self, node):
        """tokens of an expression, operands before the operation (evaluation order)"""
        if node is None:
            return
        if isinstance(node, ast.Await):
            v = node.value
            if not isinstance(v, ast.Call) or dotted(v.func) is None:
                raise Unsupported('await of something that is not a plain call: ' + ast.unparse(node))
            for a in v.args:
                self.expr(a)
            for k in v.keywords:
                self.expr(k.value)
            self.out.append('await:' + dotted(v.func))
            return
        if isinstance(node, ast.Call):
            for a in node.args:
                self.expr(a)
            for k in node.keywords:
                self.expr(k.value)
            d = dotted(node.func)
            if isinstance(node.func, ast.Name) and node.func.id in ('min', 'max'):
                self.out.append('builtin:%s/%d' % (node.func.id, len(node.args)))
            elif d is not None and d.split('.')[0] in self.roots:
                kws = ','.join(sorted(k.arg for k in node.keywords if k.arg))
                self.out.append('call:' + d + ('[' + kws + ']' if kws else ''))
            else:
                self.expr(node.func)
            return
        if isinstance(node, ast.Attribute):
            d = dotted(node)
            if d is not None and d.startswith('self._h2_connection.'):
                self.out.append('read:' + d)
                return
            self.expr(node.value)
            return
        if isinstance(node, (ast.Lambda, ast.ListComp, ast.SetComp, ast.DictComp, ast.GeneratorExp,
                             ast.Yield, ast.YieldFrom, ast.NamedExpr)):
            raise Unsupported('expression kind ' + type(node).__name__)
        for child in ast.iter_child_nodes(node):
            if isinstance(child, ast.expr):
                self.expr(child)

    def stmts(self, body):
        for s in body:
            self.stmt(s)

    def stmt(self, s):
        if isinstance(s, ast.Expr):
            if isinstance(s.value, ast.Constant):
                return                      # docstring
            self.expr(s.value)
        elif isinstance(s, ast.Assign):
            self.expr(s.value)
            for t in s.targets:
                self.target(t)
        elif isinstance(s, ast.AugAssign):
            self.expr(s.value)
            self.target(s.target)
        elif isinstance(s, ast.AnnAssign):
            self.expr(s.value)
            self.target(s.target)
        elif isinstance(s, ast.Assert):
            self.expr(s.test)
        elif isinstance(s, ast.While):
            if not (isinstance(s.test, ast.Constant) and s.test.value is True) or s.orelse:
                raise Unsupported('while loop other than `while True`')
            self.out.append('while-true(')
            self.stmts(s.body)
            self.out.append(')')
        elif isinstance(s, ast.If):
            self.expr(s.test)
            self.out.append('if:' + ast.unparse(s.test) + '(')
            self.stmts(s.body)
            if s.orelse:
                self.out.append('else')
                self.stmts(s.orelse)
            self.out.append(')')
        elif isinstance(s, ast.For):
            if s.orelse or not isinstance(s.target, ast.Name):
                raise Unsupported('for loop shape')
            self.expr(s.iter)
            self.out.append('for:%s in %s(' % (s.target.id, ast.unparse(s.iter)))
            self.roots.add(s.target.id)
            self.stmts(s.body)
            self.roots.discard(s.target.id)
            self.out.append(')')
        elif isinstance(s, ast.Continue):
            self.out.append('continue')
        elif isinstance(s, ast.Break):
            self.out.append('break')
        elif isinstance(s, ast.Return):
            self.expr(s.value)
            self.out.append('return')
        elif isinstance(s, ast.Pass):
            pass
        else:
            raise Unsupported('statement kind %s at line %d' % (type(s).__name__, s.lineno))

    def target(self, t):
        if isinstance(t, ast.Attribute) and dotted(t) and dotted(t).startswith('self.'):
            pass                            # statistics counters (data_sent, ...)
        elif isinstance(t, ast.Name):
            pass
        elif isinstance(t, (ast.Tuple, ast.List)):
            for e in t.elts:
                self.target(e)
        else:
            raise Unsupported('assignment target ' + ast.unparse(t))


def skeleton(fn):
    sk = Skel(['self', 'stream', 'value'])
    sk.stmts(fn.body)
    return sk.out


def generate(repo):
    tree = parse(repo, 'grpclib/protocol.py')
    lines = ['(* GENERATED by tools/facts_C07.py from grpclib/protocol.py -- do not edit. *)',
             'From Coq Require Import ZArith List.', 'Import ListNotations.', 'Open Scope Z_scope.', '']
    for name, cls, fn in TARGETS:
        node = func_node(tree, fn, cls)
        if name == 'send_data' and not isinstance(node, ast.AsyncFunctionDef):
            raise Unsupported('send_data is not a coroutine function')
        toks = skeleton(node)
        lines.append('Definition sk_%s : list (list Z) :=' % name)
        lines.append('  [ ' + ';\n    '.join('%s   (* %s *)' % (zs(t), t.replace('*)', '* )')) for t in toks) + ' ].'
                     if toks else '  [].')
        lines.append('')
    return '\n'.join(lines)


if __name__ == '__main__':
    import os
    import sys
    print(generate(os.environ.get('VERIF_REPO', '/repo')), end='')
    sys.exit(0)
