"""extract_facts.py -- read finite tables and constants out of grpclib into coq/Gen/Facts.v.

Facts are taken BY VALUE from the imported modules of the repository under test (the same interpreter and
PYTHONPATH the correspondence check uses; modules cached from anywhere else are purged first), so that they
do not depend on how the source spells them: a table written as a comprehension, a frozenset instead of a set
literal, a regular expression re-spelled with an equivalent character class or anchors, an if/elif chain
rewritten as early returns or as a loop over a table all give the same fact, and a changed entry gives a
different one.  Regular expressions are stated by what they accept (tools: re's own parser), encode_timeout by
the decision chain it follows on a probe argument.  Each fact is independent: one that cannot be extracted is
left out of Gen/Facts.v, so exactly the Coq files that use it stop compiling (fail-closed for them only).
The Coq models are *instantiated* with these tables, so the theorems are re-checked against what the code is
now."""
import ast
import http
import json
import os
import struct
import subprocess
import sys
from fractions import Fraction


class Unsupported(Exception):
    pass


_RUNTIME_CODE = r"""
import json
import grpclib.const as c
import grpclib.metadata as m
enc = m.encode_grpc_message
print(json.dumps({
    'status': [[s.name, s.value] for s in c.Status],
    'kept': [i for i in range(128) if enc(chr(i)) == chr(i)],
    'unquoted_attr': [ord(ch) for ch in m._UNQUOTED] if isinstance(getattr(m, '_UNQUOTED', None), str) else None,
    'details_key': getattr(m, '_STATUS_DETAILS_KEY', None),
}))
"""
_ALWAYS_SAFE = set(b'ABCDEFGHIJKLMNOPQRSTUVWXYZabcdefghijklmnopqrstuvwxyz0123456789_.-~')


def runtime_values(repo):
    """values read from the imported modules of `repo` (never from this process's sys.modules)"""
    env = dict(os.environ, PYTHONPATH=repo, PYTHONHASHSEED='0', PYTHONDONTWRITEBYTECODE='1')
    p = subprocess.run([sys.executable, '-c', _RUNTIME_CODE], cwd=repo, env=env, stdout=subprocess.PIPE,
                       stderr=subprocess.PIPE, timeout=120)
    if p.returncode:
        raise Unsupported('runtime values: ' + p.stderr.decode()[-400:])
    return json.loads(p.stdout.decode())


def parse(repo, rel):
    with open(os.path.join(repo, rel)) as f:
        return ast.parse(f.read(), rel)


def module_assigns(tree):
    out = {}
    for n in tree.body:
        if isinstance(n, ast.Assign) and len(n.targets) == 1 and isinstance(n.targets[0], ast.Name):
            out[n.targets[0].id] = n.value
        elif isinstance(n, ast.AnnAssign) and isinstance(n.target, ast.Name) and n.value:
            out[n.target.id] = n.value
    return out


def ceval(node, env):
    """Constant evaluator for the handful of expression shapes used by the tables."""
    if isinstance(node, ast.Constant):
        return node.value
    if isinstance(node, ast.Name):
        if node.id in env:
            return env[node.id]
        raise Unsupported('name ' + node.id)
    if isinstance(node, ast.UnaryOp) and isinstance(node.op, ast.USub):
        return -ceval(node.operand, env)
    if isinstance(node, ast.BinOp):
        l, r = ceval(node.left, env), ceval(node.right, env)
        if isinstance(node.op, ast.Add):
            return l + r
        if isinstance(node.op, ast.Sub):
            return l - r
        if isinstance(node.op, ast.Mult):
            return l * r
        if isinstance(node.op, ast.Pow):
            return l ** r
        raise Unsupported('binop ' + ast.dump(node.op))
    if isinstance(node, (ast.List, ast.Tuple)):
        return [ceval(e, env) for e in node.elts]
    if isinstance(node, ast.Set):
        return [ceval(e, env) for e in node.elts]
    if isinstance(node, ast.Dict):
        return [(ceval(k, env), ceval(v, env)) for k, v in zip(node.keys, node.values)]
    if isinstance(node, ast.ListComp) and len(node.generators) == 1:
        g = node.generators[0]
        if (not g.ifs and isinstance(g.iter, ast.Call) and isinstance(g.iter.func, ast.Name)
                and g.iter.func.id == 'range' and isinstance(g.target, ast.Name)):
            args = [ceval(a, env) for a in g.iter.args]
            return [ceval(node.elt, dict(env, **{g.target.id: i})) for i in range(*args)]
        raise Unsupported('listcomp')
    if isinstance(node, ast.Call):
        f = node.func
        if isinstance(f, ast.Name) and f.id == 'chr' and len(node.args) == 1:
            return chr(ceval(node.args[0], env))
        if isinstance(f, ast.Name) and f.id == 'str' and len(node.args) == 1:
            return str(ceval(node.args[0], env))
        if isinstance(f, ast.Attribute) and f.attr == 'join' and len(node.args) == 1:
            sep = ceval(f.value, env)
            arg = ceval(node.args[0], env)
            if arg and isinstance(arg[0], tuple):      # ''.join(dict) iterates keys
                arg = [k for k, _ in arg]
            return sep.join(arg)
        if isinstance(f, ast.Attribute) and f.attr == 'format' and not node.keywords:
            return ceval(f.value, env).format(*[ceval(a, env) for a in node.args])
        if (isinstance(f, ast.Attribute) and f.attr == 'compile' and isinstance(f.value, ast.Name)
                and f.value.id == 're'):
            if len(node.args) != 1 or node.keywords:
                raise Unsupported('re.compile with flags')
            return ('re', ceval(node.args[0], env))
        raise Unsupported('call ' + ast.unparse(node))
    if isinstance(node, ast.Attribute):
        src = ast.unparse(node)
        if src.startswith('http.HTTPStatus.') and src.endswith('.value'):
            return http.HTTPStatus[src.split('.')[2]].value
        if src.startswith('Status.') and 'Status' in env:
            return ('Status', dict(env['Status'])[src.split('.')[1]])
        if src.startswith('const.Cardinality.'):
            return ('Cardinality', src.split('.')[2])
        raise Unsupported('attribute ' + src)
    raise Unsupported(type(node).__name__ + ': ' + ast.unparse(node)[:80])


# ------------------------------------------------------------------------------------------------
# Coq printers

def z(n):
    return '(%d)' % n if n < 0 else '%d' % n


def zs(s):
    """a Python str as a list of code points"""
    return '[' + '; '.join(str(ord(c)) for c in s) + ']'


def zlist(l):
    return '[' + '; '.join(z(i) for i in l) + ']'


def enum_members(tree, cls):
    for n in tree.body:
        if isinstance(n, ast.ClassDef) and n.name == cls:
            out = []
            for s in n.body:
                if isinstance(s, ast.Assign) and isinstance(s.targets[0], ast.Name):
                    out.append((s.targets[0].id, s.value))
            return out
    raise Unsupported('class ' + cls)


def class_node(tree, cls):
    for n in tree.body:
        if isinstance(n, ast.ClassDef) and n.name == cls:
            return n
    raise Unsupported('class ' + cls)


def func_node(tree, name, cls=None):
    body = class_node(tree, cls).body if cls else tree.body
    for n in body:
        if isinstance(n, (ast.FunctionDef, ast.AsyncFunctionDef)) and n.name == name:
            return n
    raise Unsupported('function ' + name)


def f64bits(x):
    return struct.unpack('>Q', struct.pack('>d', float(x)))[0]


def encode_timeout_chain(fn):
    """if timeout > C: return '{}U'.format(int(timeout [* 10 ** k])) ... else: ..."""
    chain = []

    def ret(node):
        if not (isinstance(node, ast.Return) and isinstance(node.value, ast.Call)):
            raise Unsupported('encode_timeout return')
        c = node.value
        if not (isinstance(c.func, ast.Attribute) and c.func.attr == 'format'
                and isinstance(c.func.value, ast.Constant) and len(c.args) == 1):
            raise Unsupported('encode_timeout format')
        fmt = c.func.value.value
        if not (len(fmt) == 3 and fmt.startswith('{}')):
            raise Unsupported('encode_timeout fmt ' + fmt)
        a = c.args[0]
        if not (isinstance(a, ast.Call) and isinstance(a.func, ast.Name) and a.func.id == 'int'
                and len(a.args) == 1):
            raise Unsupported('encode_timeout int()')
        e = a.args[0]
        if isinstance(e, ast.Name) and e.id == 'timeout':
            k = 0
        elif (isinstance(e, ast.BinOp) and isinstance(e.op, ast.Mult)
              and isinstance(e.left, ast.Name) and e.left.id == 'timeout'
              and isinstance(e.right, ast.BinOp) and isinstance(e.right.op, ast.Pow)
              and ceval(e.right.left, {}) == 10):
            k = ceval(e.right.right, {})
            if not isinstance(k, int) or k < 0:
                raise Unsupported('encode_timeout exponent')
        else:
            raise Unsupported('encode_timeout arg ' + ast.unparse(e))
        return ord(fmt[2]), k

    body = [s for s in fn.body if not (isinstance(s, ast.Expr) and isinstance(s.value, ast.Constant))]
    if len(body) != 1 or not isinstance(body[0], ast.If):
        raise Unsupported('encode_timeout body')
    node = body[0]
    while True:
        t = node.test
        if not (isinstance(t, ast.Compare) and len(t.ops) == 1 and isinstance(t.ops[0], ast.Gt)
                and isinstance(t.left, ast.Name) and t.left.id == 'timeout'):
            raise Unsupported('encode_timeout test ' + ast.unparse(t))
        c = ceval(t.comparators[0], {})
        if len(node.body) != 1:
            raise Unsupported('encode_timeout branch')
        unit, k = ret(node.body[0])
        fr = Fraction(c)       # exact value of the literal as Python sees it (float -> exact)
        chain.append((fr, f64bits(c) if isinstance(c, float) else None, unit, k))
        if len(node.orelse) == 1 and isinstance(node.orelse[0], ast.If):
            node = node.orelse[0]
            continue
        if len(node.orelse) != 1:
            raise Unsupported('encode_timeout else')
        last = ret(node.orelse[0])
        return chain, last


def guard_table(tree, cls, names):
    """For each coroutine: every await site and whether it is lexically inside `with self._wrapper`"""
    out = []
    for name in names:
        fn = func_node(tree, name, cls)
        sites = []

        def walk(node, guarded):
            if isinstance(node, ast.With):
                g = guarded or any(ast.unparse(i.context_expr) == 'self._wrapper' for i in node.items)
                for s in node.body:
                    walk(s, g)
                return
            if isinstance(node, ast.Await):
                sites.append((ast.unparse(node.value.func) if isinstance(node.value, ast.Call)
                              else ast.unparse(node.value), guarded))
            if isinstance(node, (ast.Try,)):
                # an except clause that could swallow cancellation inside a guarded region
                pass
            for ch in ast.iter_child_nodes(node):
                walk(ch, guarded)
        for s in fn.body:
            walk(s, False)
        out.append((name, sites))
    return out



# ------------------------------------------------------------------------------------------------
# facts by VALUE: the modules of the repository under test are imported (the same interpreter and the same
# PYTHONPATH the correspondence check uses) and the tables are read off the live objects, so that an equivalent
# re-spelling of a table (a comprehension, a frozenset, a tuple of pairs, renamed temporaries) yields the same
# fact, while a changed entry yields a different one.

def load(repo, modname):
    import importlib
    import sys
    if repo not in sys.path:
        sys.path.insert(0, repo)
    for k in [k for k in sys.modules if k == 'grpclib' or k.startswith('grpclib.')]:
        f = getattr(sys.modules[k], '__file__', '') or ''
        if not f.startswith(os.path.join(repo, '')):
            del sys.modules[k]
    m = importlib.import_module(modname)
    f = getattr(m, '__file__', '') or ''
    if not os.path.realpath(f).startswith(os.path.realpath(repo) + os.sep):
        raise Unsupported('%s was imported from %s, not from %s' % (modname, f, repo))
    return m


def regex_sem(pattern, uses):
    """A compiled regular expression, as used, in canonical form:
         ([(sorted code points, min, max or -1), ...], mode, [(first item, past-last item) per group])
       mode 0: the whole string must match; 1: the whole string, or all but one trailing newline; 2: a prefix.
       Only concatenations of (repeated) character sets and literals, with optional groups and anchors, are
       understood; anything else is Unsupported."""
    import re
    try:
        import re._parser as sre_parse
        import re._constants as C
    except ImportError:                                      # Python < 3.11
        import sre_parse
        import sre_constants as C
    if pattern.flags & ~re.UNICODE:
        raise Unsupported('regular expression flags %r' % pattern.flags)
    if not isinstance(pattern.pattern, str):
        raise Unsupported('bytes pattern')
    items, groups = [], []
    begin, end = None, None

    def charset(av):
        out = set()
        for op, a in av:
            if op is C.LITERAL:
                out.add(a)
            elif op is C.RANGE:
                out.update(range(a[0], a[1] + 1))
            else:
                raise Unsupported('character set element %s' % op)
        return sorted(out)

    def walk(seq, top):
        nonlocal begin, end
        for i, (op, av) in enumerate(seq):
            if op is C.AT:
                if av in (C.AT_BEGINNING, C.AT_BEGINNING_STRING) and top and not items and begin is None:
                    begin = av
                elif av in (C.AT_END, C.AT_END_STRING) and top and i == len(seq) - 1:
                    end = av
                else:
                    raise Unsupported('anchor %s in the middle of a pattern' % av)
            elif op is C.LITERAL:
                items.append(([av], 1, 1))
            elif op is C.IN:
                items.append((charset(av), 1, 1))
            elif op in (C.MAX_REPEAT, C.MIN_REPEAT):
                lo, hi, sub = av
                sub = list(sub)
                if len(sub) != 1 or sub[0][0] not in (C.IN, C.LITERAL):
                    raise Unsupported('repetition of a compound')
                cs = charset(sub[0][1]) if sub[0][0] is C.IN else [sub[0][1]]
                if op is C.MIN_REPEAT and lo != hi:
                    raise Unsupported('lazy repetition')
                items.append((cs, lo, -1 if hi == C.MAXREPEAT else hi))
            elif op is C.SUBPATTERN:
                gid, add, dele, sub = av
                if add or dele:
                    raise Unsupported('inline flags')
                a = len(items)
                walk(list(sub), False)
                if gid is not None:
                    groups.append((gid, a, len(items)))
            else:
                raise Unsupported('regular expression construct %s' % op)
    walk(list(sre_parse.parse(pattern.pattern)), True)
    uses = set(uses)
    if not uses or not uses <= {'match', 'fullmatch'}:
        raise Unsupported('regular expression used through %s' % sorted(uses))
    if len(uses) != 1:
        raise Unsupported('regular expression used through both match and fullmatch')
    if uses == {'fullmatch'} or end is C.AT_END_STRING:
        mode = 0
    elif end is C.AT_END:
        mode = 1
    else:
        mode = 2
    groups.sort()
    if [g for g, _, _ in groups] != list(range(1, len(groups) + 1)):
        raise Unsupported('group numbering')
    return items, mode, [(a, b) for _, a, b in groups]


def regex_uses(tree, name):
    """the methods through which the module-level compiled pattern `name` is used"""
    uses = []
    for n in ast.walk(tree):
        if isinstance(n, ast.Attribute) and isinstance(n.value, ast.Name) and n.value.id == name:
            uses.append(n.attr)
        elif isinstance(n, ast.Name) and n.id == name and isinstance(n.ctx, ast.Load):
            uses.append('<value>')
    # every bare mention that is the object of an attribute access was counted twice
    attr = [u for u in uses if u != '<value>']
    bare = len([u for u in uses if u == '<value>']) - len(attr)
    if bare > 0:
        attr.append('<passed around>')
    return attr


def coq_regex(sem):
    items, mode, groups = sem
    return '([%s], %d, [%s])' % ('; '.join('(%s, %d, %s)' % (zlist(cs), lo, z(hi)) for cs, lo, hi in items), mode,
                                 '; '.join('(%d, %d)' % g for g in groups))


class _Probe(float):
    """a stand-in for the `timeout` argument of encode_timeout: comparisons with constants are answered from a
    script and recorded, multiplications are recorded, int() yields a marker"""
    MARK = 271828

    def __new__(cls, log, script, factor=None):
        o = float.__new__(cls, 1.0)
        o.log, o.script, o.factor = log, script, factor
        return o

    def _cmp(self, kind, other):
        if isinstance(other, _Probe) or isinstance(other, bool) or not isinstance(other, (int, float)):
            raise Unsupported('encode_timeout compares its argument with %r' % (other,))
        if self.factor is not None:
            raise Unsupported('encode_timeout compares a scaled value')
        i = len([e for e in self.log if e[0] == 'cmp'])
        ans = self.script[i] if i < len(self.script) else False
        self.log.append(('cmp', kind, other, ans))
        return ans

    def __gt__(self, o):
        return self._cmp('>', o)

    def __lt__(self, o):
        raise Unsupported('encode_timeout uses <')

    def __ge__(self, o):
        raise Unsupported('encode_timeout uses >=')

    def __le__(self, o):
        raise Unsupported('encode_timeout uses <=')

    def __eq__(self, o):
        raise Unsupported('encode_timeout uses ==')

    __hash__ = float.__hash__

    def __mul__(self, o):
        if self.factor is not None or isinstance(o, (_Probe, bool)) or not isinstance(o, (int, float)):
            raise Unsupported('encode_timeout multiplies by %r' % (o,))
        return _Probe(self.log, self.script, o)

    __rmul__ = __mul__

    def _no(self, *a):
        raise Unsupported('encode_timeout applies an unsupported operation to its argument')

    __truediv__ = __rtruediv__ = __floordiv__ = __add__ = __radd__ = __sub__ = __rsub__ = __pow__ = __mod__ = _no
    __round__ = __neg__ = __abs__ = __bool__ = _no

    def __int__(self):
        self.log.append(('int', self.factor))
        return self.MARK

    __trunc__ = __int__
    __index__ = _no


def encode_timeout_table(fn):
    """encode_timeout as a decision chain, found by running it on a probe (robust against how the chain is
    written: if/elif, early returns, a loop over a table):
       [(threshold, unit char, power of ten), ...], (unit, power) of the fall-through"""
    chain, last = [], None
    for n_false in range(0, 12):
        script = [False] * n_false + [True]
        log = []
        out = fn(_Probe(log, script))
        cmps = [e for e in log if e[0] == 'cmp']
        ints = [e for e in log if e[0] == 'int']
        if len(ints) != 1 or not isinstance(out, str) or not out.startswith(str(_Probe.MARK)) \
                or len(out) != len(str(_Probe.MARK)) + 1:
            raise Unsupported('encode_timeout result %r' % (out,))
        factor = ints[0][1]
        if factor is None:
            k = 0
        else:
            k = None
            for j in range(0, 19):
                if factor == 10 ** j and float(factor) == float(10 ** j):
                    k = j
            if k is None:
                raise Unsupported('encode_timeout factor %r' % (factor,))
        unit = ord(out[-1])
        if [c[3] for c in cmps] != script[:len(cmps)]:
            raise Unsupported('encode_timeout probe out of step')
        if len(cmps) == n_false + 1:
            # the (n_false+1)-th comparison exists and was answered True
            if [c[2] for c in cmps[:-1]] != [c[0] for c in chain]:
                raise Unsupported('encode_timeout thresholds depend on the path')
            chain.append((cmps[-1][2], unit, k))
        elif len(cmps) == n_false:
            # there is no further comparison: this is the fall-through result
            if [c[2] for c in cmps] != [c[0] for c in chain]:
                raise Unsupported('encode_timeout thresholds depend on the path')
            last = (unit, k)
            break
        else:
            raise Unsupported('encode_timeout comparison count')
    if last is None:
        raise Unsupported('encode_timeout chain too long')
    return chain, last


def generate(repo):
    L = []
    add = L.append
    failed = []

    def fact(name, thunk):
        """one independent fact: if it cannot be extracted its definition is left out, so that exactly the Coq
        files that use it stop compiling (fail-closed for them only)"""
        try:
            text = thunk()
        except Exception as e:          # noqa
            failed.append(name)
            add('(* %s: NOT EXTRACTED (%s: %s) *)' % (name, type(e).__name__, str(e).replace('*)', '* )')[:300]))
            return
        for line in ([text] if isinstance(text, str) else text):
            add(line)

    add('(* GENERATED by tools/extract_facts.py from %s -- do not edit; rewritten on every run *)' % repo)
    add('From Coq Require Import ZArith List String.')
    add('Import ListNotations.')
    add('Open Scope Z_scope.')
    add('')
    add('Inductive unit_val := UInt (n : Z) | UPow10Neg (k : Z).')
    add('(* a compiled regular expression as used: (items (code points, min, max or -1), mode, group spans);')
    add('   mode 0 = the whole string must match, 1 = whole string or all but one trailing newline, 2 = a prefix *)')
    add('Definition regex_sem := (list (list Z * Z * Z) * Z * list (Z * Z))%type.')
    add('')

    # ---- const.py
    add('(* grpclib/const.py *)')

    def f_status():
        const = load(repo, 'grpclib.const')
        ms = [(m.name, m.value) for m in const.Status]
        if not all(isinstance(v, int) and not isinstance(v, bool) for _, v in ms):
            raise Unsupported('Status values')
        return 'Definition status_members : list (list Z * Z) := [%s].' % '; '.join(
            '(%s, %s)' % (zs(n), z(v)) for n, v in ms)
    fact('status_members', f_status)

    def f_card():
        const = load(repo, 'grpclib.const')
        ms = [(m.name, bool(m.value.client_streaming), bool(m.value.server_streaming)) for m in const.Cardinality]
        for m in const.Cardinality:
            if (m.client_streaming, m.server_streaming) != (m.value.client_streaming, m.value.server_streaming):
                raise Unsupported('Cardinality accessors')
        return 'Definition cardinality_members : list (list Z * (bool * bool)) := [%s].' % '; '.join(
            '(%s, (%s, %s))' % (zs(n), str(a).lower(), str(b).lower()) for n, a, b in ms)
    fact('cardinality_members', f_card)
    add('')

    # ---- metadata.py
    add('(* grpclib/metadata.py *)')
    md_tree = parse(repo, 'grpclib/metadata.py')

    def f_units():
        md = load(repo, 'grpclib.metadata')
        units = []
        for k, v in md._UNITS.items():
            if not (isinstance(k, str) and len(k) == 1):
                raise Unsupported('_UNITS key %r' % (k,))
            if isinstance(v, int) and not isinstance(v, bool):
                units.append((k, 'UInt %s' % z(v)))
            elif isinstance(v, float):
                ks = [j for j in range(1, 19) if v == 10 ** -j]
                if len(ks) != 1:
                    raise Unsupported('_UNITS value %r' % (v,))
                units.append((k, 'UPow10Neg %d' % ks[0]))
            else:
                raise Unsupported('_UNITS value %r' % (v,))
        return 'Definition units : list (Z * unit_val) := [%s].' % '; '.join('(%d, %s)' % (ord(k), v) for k, v in units)
    fact('units', f_units)

    for coqname, pyname in (('timeout_re', '_TIMEOUT_RE'), ('key_re', '_KEY_RE'), ('value_re', '_VALUE_RE')):
        def f_re(coqname=coqname, pyname=pyname):
            md = load(repo, 'grpclib.metadata')
            pat = getattr(md, pyname)
            sem = regex_sem(pat, regex_uses(md_tree, pyname))
            return 'Definition %s_sem : regex_sem := %s.   (* %r *)' % (coqname, coq_regex(sem), pat.pattern)
        fact(coqname + '_sem', f_re)

    def f_special():
        md = load(repo, 'grpclib.metadata')
        sp = sorted(md._SPECIAL)
        if not all(isinstance(x, str) for x in sp):
            raise Unsupported('_SPECIAL')
        return 'Definition special : list (list Z) := [%s].' % '; '.join(zs(x) for x in sp)
    fact('special', f_special)

    def f_sdk():
        md = load(repo, 'grpclib.metadata')
        if not isinstance(md._STATUS_DETAILS_KEY, str):
            raise Unsupported('_STATUS_DETAILS_KEY')
        return 'Definition status_details_key : list Z := %s.' % zs(md._STATUS_DETAILS_KEY)
    fact('status_details_key', f_sdk)

    def f_unq():
        # the characters encode_grpc_message leaves unescaped (by behaviour); the private table, if it is still
        # there under its name, must say the same
        md = load(repo, 'grpclib.metadata')
        kept = [i for i in range(128) if md.encode_grpc_message(chr(i)) == chr(i)]
        u = getattr(md, '_UNQUOTED', None)
        if u is not None:
            cs = sorted({ord(c) if isinstance(c, str) else int(c) for c in u})
            if [c for c in cs if c < 128] != kept:
                raise Unsupported('_UNQUOTED disagrees with what encode_grpc_message leaves unescaped')
        return 'Definition unquoted : list Z := %s.' % zlist(kept)
    fact('unquoted', f_unq)

    def f_enc():
        md = load(repo, 'grpclib.metadata')
        chain, last = encode_timeout_table(md.encode_timeout)
        rows = []
        for c, u, k in chain:
            fr = Fraction(c)
            rows.append('(%d, %d, %s, %d, %d)' % (fr.numerator, fr.denominator,
                                                 z(f64bits(c) if isinstance(c, float) else -1), u, k))
        return ['(* encode_timeout: (threshold numerator, threshold denominator, threshold float bits or -1 '
                'if an int, unit char, power of ten) *)',
                'Definition encode_timeout_chain : list (Z * Z * Z * Z * Z) := [%s].' % '; '.join(rows),
                'Definition encode_timeout_last : Z * Z := (%d, %d).' % last]
    fact('encode_timeout_chain', f_enc)
    add('')

    # ---- client.py
    add('(* grpclib/client.py *)')

    def f_h2ok():
        cl = load(repo, 'grpclib.client')
        if not isinstance(cl._H2_OK, str):
            raise Unsupported('_H2_OK')
        return 'Definition h2_ok : list Z := %s.' % zs(cl._H2_OK)
    fact('h2_ok', f_h2ok)

    def f_smap():
        cl = load(repo, 'grpclib.client')
        const = load(repo, 'grpclib.const')
        rows = []
        for k, v in cl._H2_TO_GRPC_STATUS_MAP.items():
            if not isinstance(k, str) or not isinstance(v, const.Status):
                raise Unsupported('_H2_TO_GRPC_STATUS_MAP entry %r' % ((k, v),))
            rows.append('(%s, %s)' % (zs(k), z(v.value)))
        return 'Definition h2_to_grpc_status_map : list (list Z * Z) := [%s].' % '; '.join(rows)
    fact('h2_to_grpc_status_map', f_smap)
    add('')

    # ---- config.py
    add('(* grpclib/config.py *)')
    for name in ('_WMIN', '_4MiB', '_WMAX'):
        def f_cfg(name=name):
            cf = load(repo, 'grpclib.config')
            v = getattr(cf, name)
            if not isinstance(v, int) or isinstance(v, bool):
                raise Unsupported(name)
            return 'Definition cfg%s : Z := %s.' % (name.lower(), z(v))
        fact('cfg' + name.lower(), f_cfg)
    add('')

    # ---- protocol.py: processors
    add('(* grpclib/protocol.py: EventsProcessor.processors (h2 event class -> bound method) *)')

    def f_proc():
        from unittest import mock
        pr = load(repo, 'grpclib.protocol')
        ep = pr.EventsProcessor(mock.MagicMock(), mock.MagicMock())
        rows = []
        for k, v in ep.processors.items():
            if not (isinstance(k, type) and getattr(v, '__self__', None) is ep):
                raise Unsupported('processors entry %r' % ((k, v),))
            rows.append('(%s, %s)' % (zs(k.__name__), zs('self.' + v.__func__.__name__)))
        return 'Definition processors : list (list Z * list Z) := [%s].' % '; '.join(rows)
    fact('processors', f_proc)
    add('')

    # ---- events.py: event classes
    add('(* grpclib/events.py: event classes: (name, fields in annotation order, payload) *)')

    def f_events():
        ev = load(repo, 'grpclib.events')
        rows = []
        for name, obj in vars(ev).items():
            if isinstance(obj, type) and obj.__module__ == ev.__name__ and '__payload__' in vars(obj) \
                    and '__annotations__' in vars(obj) and not name.startswith('_'):
                fields = list(vars(obj)['__annotations__'])
                payload = list(vars(obj)['__payload__'])
                rows.append((obj.__name__, fields, payload))
        if not rows:
            raise Unsupported('no event classes found')
        return ['Definition event_classes : list (list Z * list (list Z) * list (list Z)) := [',
                ';\n'.join('  (%s, [%s], [%s])' % (zs(n), '; '.join(zs(f) for f in fs), '; '.join(zs(x) for x in pl))
                           for n, fs, pl in rows), '].']
    fact('event_classes', f_events)
    add('')

    if failed:
        add('(* facts not extracted: %s *)' % ', '.join(failed))
    generate.failed = failed
    return '\n'.join(L) + '\n'


if __name__ == '__main__':
    import sys
    sys.stdout.write(generate(os.environ.get('VERIF_REPO', '/repo')))
    if generate.failed:
        sys.stderr.write('NOT EXTRACTED: %s\n' % ', '.join(generate.failed))
