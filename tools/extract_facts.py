"""extract_facts.py -- copy finite tables and literals out of grpclib's source into coq/Gen/Facts.v.

Only the Python `ast` is used (the modules are never imported), and only a tiny constant
evaluator: anything outside the recognised shapes raises Unsupported, which fails the run
(fail-closed).  The Coq models are *instantiated* with these tables, so the theorems are
re-checked against what the source says now."""
import ast
import http
import os
import struct
from fractions import Fraction


class Unsupported(Exception):
    pass


def parse(repo, rel):
    with open(os.path.join(repo, rel)) as f:
        return ast.parse(f.read(), rel)


def module_assigns(tree):
    out = {}
    for n in tree.body:
        if isinstance(n, ast.Assign) and len(n.targets) == 1 and isinstance(n.targets[0], ast.Name):
            out[n.targets[0].id] = n.value
        elif isinstance(n, ast.AnnAssign) and isinstance(n.target, ast.Name) and n.value:
            out[n.target.id] = n.value
    return out


def ceval(node, env):
    """Constant evaluator for the handful of expression shapes used by the tables."""
    if isinstance(node, ast.Constant):
        return node.value
    if isinstance(node, ast.Name):
        if node.id in env:
            return env[node.id]
        raise Unsupported('name ' + node.id)
    if isinstance(node, ast.UnaryOp) and isinstance(node.op, ast.USub):
        return -ceval(node.operand, env)
    if isinstance(node, ast.BinOp):
        l, r = ceval(node.left, env), ceval(node.right, env)
        if isinstance(node.op, ast.Add):
            return l + r
        if isinstance(node.op, ast.Sub):
            return l - r
        if isinstance(node.op, ast.Mult):
            return l * r
        if isinstance(node.op, ast.Pow):
            return l ** r
        raise Unsupported('binop ' + ast.dump(node.op))
    if isinstance(node, (ast.List, ast.Tuple)):
        return [ceval(e, env) for e in node.elts]
    if isinstance(node, ast.Set):
        return [ceval(e, env) for e in node.elts]
    if isinstance(node, ast.Dict):
        return [(ceval(k, env), ceval(v, env)) for k, v in zip(node.keys, node.values)]
    if isinstance(node, ast.ListComp) and len(node.generators) == 1:
        g = node.generators[0]
        if (not g.ifs and isinstance(g.iter, ast.Call) and isinstance(g.iter.func, ast.Name)
                and g.iter.func.id == 'range' and isinstance(g.target, ast.Name)):
            args = [ceval(a, env) for a in g.iter.args]
            return [ceval(node.elt, dict(env, **{g.target.id: i})) for i in range(*args)]
        raise Unsupported('listcomp')
    if isinstance(node, ast.Call):
        f = node.func
        if isinstance(f, ast.Name) and f.id == 'chr' and len(node.args) == 1:
            return chr(ceval(node.args[0], env))
        if isinstance(f, ast.Name) and f.id == 'str' and len(node.args) == 1:
            return str(ceval(node.args[0], env))
        if isinstance(f, ast.Attribute) and f.attr == 'join' and len(node.args) == 1:
            sep = ceval(f.value, env)
            arg = ceval(node.args[0], env)
            if arg and isinstance(arg[0], tuple):      # ''.join(dict) iterates keys
                arg = [k for k, _ in arg]
            return sep.join(arg)
        if isinstance(f, ast.Attribute) and f.attr == 'format' and not node.keywords:
            return ceval(f.value, env).format(*[ceval(a, env) for a in node.args])
        if (isinstance(f, ast.Attribute) and f.attr == 'compile' and isinstance(f.value, ast.Name)
                and f.value.id == 're'):
            if len(node.args) != 1 or node.keywords:
                raise Unsupported('re.compile with flags')
            return ('re', ceval(node.args[0], env))
        raise Unsupported('call ' + ast.unparse(node))
    if isinstance(node, ast.Attribute):
        src = ast.unparse(node)
        if src.startswith('http.HTTPStatus.') and src.endswith('.value'):
            return http.HTTPStatus[src.split('.')[2]].value
        if src.startswith('Status.') and 'Status' in env:
            return ('Status', dict(env['Status'])[src.split('.')[1]])
        if src.startswith('const.Cardinality.'):
            return ('Cardinality', src.split('.')[2])
        raise Unsupported('attribute ' + src)
    raise Unsupported(type(node).__name__ + ': ' + ast.unparse(node)[:80])


# ------------------------------------------------------------------------------------------------
# Coq printers

def z(n):
    return '(%d)' % n if n < 0 else '%d' % n


def zs(s):
    """a Python str as a list of code points"""
    return '[' + '; '.join(str(ord(c)) for c in s) + ']'


def zlist(l):
    return '[' + '; '.join(z(i) for i in l) + ']'


def enum_members(tree, cls):
    for n in tree.body:
        if isinstance(n, ast.ClassDef) and n.name == cls:
            out = []
            for s in n.body:
                if isinstance(s, ast.Assign) and isinstance(s.targets[0], ast.Name):
                    out.append((s.targets[0].id, s.value))
            return out
    raise Unsupported('class ' + cls)


def class_node(tree, cls):
    for n in tree.body:
        if isinstance(n, ast.ClassDef) and n.name == cls:
            return n
    raise Unsupported('class ' + cls)


def func_node(tree, name, cls=None):
    body = class_node(tree, cls).body if cls else tree.body
    for n in body:
        if isinstance(n, (ast.FunctionDef, ast.AsyncFunctionDef)) and n.name == name:
            return n
    raise Unsupported('function ' + name)


def f64bits(x):
    return struct.unpack('>Q', struct.pack('>d', float(x)))[0]


def encode_timeout_chain(fn):
    """if timeout > C: return '{}U'.format(int(timeout [* 10 ** k])) ... else: ..."""
    chain = []

    def ret(node):
        if not (isinstance(node, ast.Return) and isinstance(node.value, ast.Call)):
            raise Unsupported('encode_timeout return')
        c = node.value
        if not (isinstance(c.func, ast.Attribute) and c.func.attr == 'format'
                and isinstance(c.func.value, ast.Constant) and len(c.args) == 1):
            raise Unsupported('encode_timeout format')
        fmt = c.func.value.value
        if not (len(fmt) == 3 and fmt.startswith('{}')):
            raise Unsupported('encode_timeout fmt ' + fmt)
        a = c.args[0]
        if not (isinstance(a, ast.Call) and isinstance(a.func, ast.Name) and a.func.id == 'int'
                and len(a.args) == 1):
            raise Unsupported('encode_timeout int()')
        e = a.args[0]
        if isinstance(e, ast.Name) and e.id == 'timeout':
            k = 0
        elif (isinstance(e, ast.BinOp) and isinstance(e.op, ast.Mult)
              and isinstance(e.left, ast.Name) and e.left.id == 'timeout'
              and isinstance(e.right, ast.BinOp) and isinstance(e.right.op, ast.Pow)
              and ceval(e.right.left, {}) == 10):
            k = ceval(e.right.right, {})
            if not isinstance(k, int) or k < 0:
                raise Unsupported('encode_timeout exponent')
        else:
            raise Unsupported('encode_timeout arg ' + ast.unparse(e))
        return ord(fmt[2]), k

    body = [s for s in fn.body if not (isinstance(s, ast.Expr) and isinstance(s.value, ast.Constant))]
    if len(body) != 1 or not isinstance(body[0], ast.If):
        raise Unsupported('encode_timeout body')
    node = body[0]
    while True:
        t = node.test
        if not (isinstance(t, ast.Compare) and len(t.ops) == 1 and isinstance(t.ops[0], ast.Gt)
                and isinstance(t.left, ast.Name) and t.left.id == 'timeout'):
            raise Unsupported('encode_timeout test ' + ast.unparse(t))
        c = ceval(t.comparators[0], {})
        if len(node.body) != 1:
            raise Unsupported('encode_timeout branch')
        unit, k = ret(node.body[0])
        fr = Fraction(c)       # exact value of the literal as Python sees it (float -> exact)
        chain.append((fr, f64bits(c) if isinstance(c, float) else None, unit, k))
        if len(node.orelse) == 1 and isinstance(node.orelse[0], ast.If):
            node = node.orelse[0]
            continue
        if len(node.orelse) != 1:
            raise Unsupported('encode_timeout else')
        last = ret(node.orelse[0])
        return chain, last


def guard_table(tree, cls, names):
    """For each coroutine: every await site and whether it is lexically inside `with self._wrapper`"""
    out = []
    for name in names:
        fn = func_node(tree, name, cls)
        sites = []

        def walk(node, guarded):
            if isinstance(node, ast.With):
                g = guarded or any(ast.unparse(i.context_expr) == 'self._wrapper' for i in node.items)
                for s in node.body:
                    walk(s, g)
                return
            if isinstance(node, ast.Await):
                sites.append((ast.unparse(node.value.func) if isinstance(node.value, ast.Call)
                              else ast.unparse(node.value), guarded))
            if isinstance(node, (ast.Try,)):
                # an except clause that could swallow cancellation inside a guarded region
                pass
            for ch in ast.iter_child_nodes(node):
                walk(ch, guarded)
        for s in fn.body:
            walk(s, False)
        out.append((name, sites))
    return out


CLIENT_OPS = ['send_request', 'send_message', 'end', 'recv_initial_metadata', 'recv_message',
              'recv_trailing_metadata', 'cancel']


def generate(repo):
    L = []
    add = L.append
    add('(* GENERATED by tools/extract_facts.py from %s -- do not edit; rewritten on every run *)' % repo)
    add('From Coq Require Import ZArith List String.')
    add('Import ListNotations.')
    add('Open Scope Z_scope.')
    add('')
    add('Inductive unit_val := UInt (n : Z) | UPow10Neg (k : Z).')
    add('')

    # ---- const.py
    const = parse(repo, 'grpclib/const.py')
    status = [(n, ceval(v, {})) for n, v in enum_members(const, 'Status')]
    if not all(isinstance(v, int) for _, v in status):
        raise Unsupported('Status values')
    add('(* grpclib/const.py: Status *)')
    add('Definition status_members : list (list Z * Z) := [%s].' % '; '.join(
        '(%s, %s)' % (zs(n), z(v)) for n, v in status))
    card = []
    for n, v in enum_members(const, 'Cardinality'):
        if not (isinstance(v, ast.Call) and ast.unparse(v.func) == '_Cardinality' and len(v.args) == 2):
            raise Unsupported('Cardinality member')
        card.append((n, ceval(v.args[0], {}), ceval(v.args[1], {})))
    add('Definition cardinality_members : list (list Z * (bool * bool)) := [%s].' % '; '.join(
        '(%s, (%s, %s))' % (zs(n), str(a).lower(), str(b).lower()) for n, a, b in card))
    add('')

    # ---- metadata.py
    md = parse(repo, 'grpclib/metadata.py')
    A = module_assigns(md)
    env = {}
    units_node = A['_UNITS']
    if not isinstance(units_node, ast.Dict):
        raise Unsupported('_UNITS')
    units = []
    for k, v in zip(units_node.keys, units_node.values):
        key = ceval(k, {})
        if (isinstance(v, ast.BinOp) and isinstance(v.op, ast.Pow) and ceval(v.left, {}) == 10
                and isinstance(ceval(v.right, {}), int) and ceval(v.right, {}) < 0):
            units.append((key, 'UPow10Neg %d' % -ceval(v.right, {})))
        else:
            val = ceval(v, {})
            if not isinstance(val, int):
                raise Unsupported('_UNITS value ' + ast.unparse(v))
            units.append((key, 'UInt %s' % z(val)))
    env['_UNITS'] = [(k, None) for k, _ in units]
    add('(* grpclib/metadata.py *)')
    add('Definition units : list (Z * unit_val) := [%s].' % '; '.join(
        '(%d, %s)' % (ord(k), v) for k, v in units))
    tre = ceval(A['_TIMEOUT_RE'], env)
    if not (isinstance(tre, tuple) and tre[0] == 're'):
        raise Unsupported('_TIMEOUT_RE')
    add('Definition timeout_re_src : list Z := %s.   (* %r *)' % (zs(tre[1]), tre[1]))
    call = A['_TIMEOUT_RE']
    for name in ('_KEY_RE', '_VALUE_RE'):
        r = ceval(A[name], env)
        if not (isinstance(r, tuple) and r[0] == 're'):
            raise Unsupported(name)
        add('Definition %s_src : list Z := %s.   (* %r *)' % (name.strip('_').lower(), zs(r[1]), r[1]))
    special = ceval(A['_SPECIAL'], env)
    add('Definition special : list (list Z) := [%s].' % '; '.join(zs(s) for s in sorted(special)))
    add('Definition status_details_key : list Z := %s.' % zs(ceval(A['_STATUS_DETAILS_KEY'], env)))
    unq = ceval(A['_UNQUOTED'], env)
    add('Definition unquoted : list Z := %s.' % zlist([ord(c) for c in unq]))
    chain, last = encode_timeout_chain(func_node(md, 'encode_timeout'))
    add('(* encode_timeout: (threshold numerator, threshold denominator, threshold float bits or -1 '
        'if an int literal, unit char, power of ten) *)')
    add('Definition encode_timeout_chain : list (Z * Z * Z * Z * Z) := [%s].' % '; '.join(
        '(%d, %d, %s, %d, %d)' % (fr.numerator, fr.denominator, z(-1 if bits is None else bits), u, k)
        for fr, bits, u, k in chain))
    add('Definition encode_timeout_last : Z * Z := (%d, %d).' % last)
    # decode_metadata / encode_metadata prefixes
    add('')

    # ---- client.py
    cl = parse(repo, 'grpclib/client.py')
    CA = module_assigns(cl)
    h2ok = ceval(CA['_H2_OK'], {})
    smap = ceval(CA['_H2_TO_GRPC_STATUS_MAP'], {'Status': status})
    add('(* grpclib/client.py *)')
    add('Definition h2_ok : list Z := %s.' % zs(h2ok))
    add('Definition h2_to_grpc_status_map : list (list Z * Z) := [%s].' % '; '.join(
        '(%s, %s)' % (zs(k), z(v[1])) for k, v in smap))
    gt = guard_table(cl, 'Stream', CLIENT_OPS)
    add('(* every await site of the public client Stream coroutines: (callee, lexically inside '
        '`with self._wrapper`) *)')
    add('Definition client_guard_table : list (list Z * list (list Z * bool)) := [')
    add(';\n'.join('  (%s, [%s])' % (zs(n), '; '.join('(%s, %s)' % (zs(c), str(g).lower())
                                                      for c, g in sites)) for n, sites in gt))
    add('].')
    add('')

    # ---- config.py
    cf = parse(repo, 'grpclib/config.py')
    FA = module_assigns(cf)
    add('(* grpclib/config.py *)')
    for name in ('_WMIN', '_4MiB', '_WMAX'):
        add('Definition cfg%s : Z := %s.' % (name.lower(), z(ceval(FA[name], {}))))
    add('')

    # ---- protocol.py: processors keys
    pr = parse(repo, 'grpclib/protocol.py')
    init = func_node(pr, '__init__', 'EventsProcessor')
    keys = None
    for s in ast.walk(init):
        if isinstance(s, ast.Assign) and ast.unparse(s.targets[0]) == 'self.processors':
            if not isinstance(s.value, ast.Dict):
                raise Unsupported('processors')
            keys = [(ast.unparse(k), ast.unparse(v)) for k, v in zip(s.value.keys, s.value.values)]
    if keys is None:
        raise Unsupported('processors not found')
    add('(* grpclib/protocol.py: EventsProcessor.processors *)')
    add('Definition processors : list (list Z * list Z) := [%s].' % '; '.join(
        '(%s, %s)' % (zs(k), zs(v)) for k, v in keys))
    add('')

    # ---- events.py: event classes
    ev = parse(repo, 'grpclib/events.py')
    add('(* grpclib/events.py: event classes: (name, fields in annotation order, payload) *)')
    rows = []
    for n in ev.body:
        if isinstance(n, ast.ClassDef) and any(ast.unparse(k.value) == '_EventMeta'
                                               for k in n.keywords if k.arg == 'metaclass'):
            fields, payload = [], []
            for s in n.body:
                if isinstance(s, ast.AnnAssign) and isinstance(s.target, ast.Name):
                    fields.append(s.target.id)
                elif isinstance(s, ast.Assign) and ast.unparse(s.targets[0]) == '__payload__':
                    payload = ceval(s.value, {})
            rows.append((n.name, fields, payload))
    add('Definition event_classes : list (list Z * list (list Z) * list (list Z)) := [')
    add(';\n'.join('  (%s, [%s], [%s])' % (zs(n), '; '.join(zs(f) for f in fs),
                                          '; '.join(zs(p) for p in pl)) for n, fs, pl in rows))
    add('].')
    add('')

    # ---- plugin/main.py: _CARDINALITY
    pg = parse(repo, 'grpclib/plugin/main.py')
    PA = module_assigns(pg)
    cm = ceval(PA['_CARDINALITY'], {})
    add('(* grpclib/plugin/main.py: _CARDINALITY ((client_streaming, server_streaming) -> member) *)')
    add('Definition plugin_cardinality : list ((bool * bool) * list Z) := [%s].' % '; '.join(
        '((%s, %s), %s)' % (str(k[0]).lower(), str(k[1]).lower(), zs(v[1])) for k, v in cm))
    add('')
    return '\n'.join(L) + '\n'


if __name__ == '__main__':
    import sys
    sys.stdout.write(generate(os.environ.get('VERIF_REPO', '/repo')))
