#!/bin/bash
# development aid: run every claimed check once and print one summary line each
cd "$(dirname "$0")/.."
tier=${1:-quick}
for p in $(python3 -c "import json; print(' '.join(c['property_id'] for c in json.load(open('MANIFEST.json'))['checks']))"); do
  ./check $p --tier $tier 2>&1 | grep -v "^KNOWN-FINDING\|WARNING" | tail -2 | cut -c1-240
done
