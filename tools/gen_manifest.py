#!/usr/bin/env python3
"""Regenerate MANIFEST.json from the drivers present under harness/ (claimed) and the property list
(everything else goes under not_applicable with the reason recorded in tools/not_claimed.json)."""
import json
import os
import re

HERE = os.path.dirname(os.path.abspath(__file__))
VERIF = os.path.dirname(HERE)

props = [json.loads(l) for l in open(os.path.join(VERIF, 'properties.jsonl'))]
not_claimed = json.load(open(os.path.join(HERE, 'not_claimed.json')))
meta = json.load(open(os.path.join(HERE, 'claims.json')))
cd = os.path.join(HERE, 'claims')
if os.path.isdir(cd):
    for fn in sorted(os.listdir(cd)):
        if fn.endswith('.json'):
            try:
                meta[fn[:-5]] = json.load(open(os.path.join(cd, fn)))
            except ValueError:
                print('skipping unreadable claim file', fn)

ready = set(json.load(open(os.path.join(HERE, 'ready.json'))))
checks, na = [], []
for p in props:
    pid = p['id']
    if pid in ready and os.path.exists(os.path.join(VERIF, 'harness', 'drive_%s.py' % pid)) and pid in meta:
        m = meta[pid]
        checks.append({
            'property_id': pid,
            'quick_cmd': './check %s --tier quick' % pid,
            'thorough_cmd': './check %s --tier thorough' % pid,
            'evidence_file': 'evidence/%s.json' % pid,
            'replay_cmd_template': './check %s --replay {path}' % pid,
            'engine': 'coq-proof+correspondence',
            'level_claimed': {'category': 'proof', 'text': m['text'], 'design_ref': m['design_ref']},
            'level_note': m['note'],
            'technique': m['technique'],
        })
    else:
        na.append({'property_id': pid, 'reason': not_claimed.get(
            pid, 'check not built yet; claimed in DESIGN.md section 2, machinery pending')})

manifest = {
    'version': 1,
    'setup_cmd': './check setup',
    'hooks': {
        'guard': 'GRPCLIB_VERIF',
        'enable': 'checks export GRPCLIB_VERIF=1 and import grpclib from /repo (PYTHONPATH=/repo); '
                  'no source hook is required so far',
        'baseline_off_cmd': 'cd /repo && /venv/bin/python -m pytest -ra -q -p no:cacheprovider '
                            '--timeout=900 --continue-on-collection-errors',
        'source_commits': json.load(open(os.path.join(HERE, 'hook_commits.json'))),
        'add_only': True,
    },
    'engines': [{
        'name': 'coq-proof+correspondence', 'path': 'check',
        'serves_properties': [c['property_id'] for c in checks],
        'kind_free_text': 'Coq 8.16 theorems about executable Gallina models (coq/), models tied to '
                          '/repo by (a) ast translators regenerating coq/Gen on every run and (b) '
                          'differential correspondence of the extracted model against the real grpclib '
                          'objects; direct oracle search when either breaks',
    }],
    'checks': checks,
    'not_applicable': na,
    'notes': 'See DESIGN.md. Known findings: KNOWN_FINDINGS.json.',
}
with open(os.path.join(VERIF, 'MANIFEST.json'), 'w') as f:
    json.dump(manifest, f, indent=1)
    f.write('\n')
print('MANIFEST.json: %d checks, %d not claimed' % (len(checks), len(na)))
