#!/venv/bin/python
"""Regenerate coq/Gen/*.v from /repo's current working tree.  Fail-closed: any shape the
translators do not recognise is an error (exit 1), which ./check reports as a broken tie."""
import os
import sys
import traceback

HERE = os.path.dirname(os.path.abspath(__file__))
VERIF = os.path.dirname(HERE)
sys.path.insert(0, HERE)
sys.dont_write_bytecode = True


def write_if_changed(path, text):
    old = None
    if os.path.exists(path):
        with open(path) as f:
            old = f.read()
    if old != text:
        os.makedirs(os.path.dirname(path), exist_ok=True)
        with open(path, 'w') as f:
            f.write(text)
        return True
    return False


def main():
    repo = os.environ.get('VERIF_REPO', '/repo')
    out = os.path.join(VERIF, 'coq', 'Gen')
    rc = 0
    import extract_facts
    jobs = [('Facts.v', lambda: extract_facts.generate(repo))]
    if os.path.exists(os.path.join(HERE, 'skeleton_ir.py')):
        import skeleton_ir
        jobs.append(('StreamOps.v', lambda: skeleton_ir.generate(repo)))
    # per-property translators: tools/facts_<Name>.py with generate(repo) -> text of Gen/Facts<Name>.v
    import importlib
    core_jobs = len(jobs)
    for fn in sorted(os.listdir(HERE)):
        if fn.startswith('facts_') and fn.endswith('.py'):
            jobs.append(('Facts%s.v' % fn[6:-3],
                         (lambda m: (lambda: importlib.import_module(m).generate(repo)))(fn[:-3])))
    for i, (name, fn) in enumerate(jobs):
        try:
            text = fn()
            # the generated files must not depend on WHERE the repository under test lives (only on what it
            # says): an identical source then gives byte-identical files and nothing is rebuilt
            head, sep, rest = text.partition('\n')
            text = head.replace(os.path.realpath(repo), '$VERIF_REPO').replace(repo, '$VERIF_REPO') + sep + rest
            ch = write_if_changed(os.path.join(out, name), text)
            print('regen: Gen/%s %s' % (name, 'rewritten' if ch else 'unchanged'))
        except Exception:
            print('regen: Gen/%s FAILED (translator is fail-closed)' % name)
            traceback.print_exc(file=sys.stdout)
            # a translator failed: remove its stale output so that exactly the properties whose Coq
            # files depend on it stop compiling (fail-closed for them only).  (Gen/Facts.v is written
            # fact by fact: a fact that cannot be extracted is left out of the file.)
            for ext in ('.v', '.vo', '.vos', '.vok', '.glob'):
                try:
                    os.remove(os.path.join(out, name[:-2] + ext))
                except OSError:
                    pass
    return rc


if __name__ == '__main__':
    sys.exit(main())
