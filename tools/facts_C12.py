"""facts_C12.py -- structural facts of the connection input path copied into coq/Gen/FactsC12.v (C12).

`ast` only; grpclib is never imported.  Fail-closed: a statement or call shape that is not recognised
raises Unsupported, the generated file disappears and Props/C12.v stops compiling (tie broken).

Model/Dispatch.v is a hand transcription of EventsProcessor.process / process_* / close,
H2Protocol.data_received, Connection.ack and the two Handler classes.  What is extracted here is the
SHAPE that transcription relies on, so that a change of shape in the source breaks the theorem
C12_source_shape deterministically (the behaviour itself is tied by the correspondence runs):

  * EventsProcessor.process: one try; the looked-up expression; for each `except` its exception class
    and whether its body ignores (pass / log call only) or raises; the `else` call
  * for every method named in EventsProcessor.processors, EventsProcessor.close, Connection.ack,
    H2Protocol.data_received / connection_lost, client Handler.accept/cancel/close and server
    Handler.accept/cancel/close: the sequence of "effect tokens" in source order -- calls on
    self / stream / value / task objects, subscripts of self.streams, `raise X`, `del`, `pass`,
    attribute assignments -- with `try`/`except`/`else`, `if`/`else` and `for` markers
  * the reason strings passed to close() / __terminated__ (used by the driver to classify
    StreamTerminatedError texts, so the driver does not carry copies of them)
"""
import ast

from extract_facts import Unsupported, parse, zs, func_node

# calls that have no effect on the modelled state
PURE_CALLS = {'len', 'time.monotonic', 'hasattr', 'cast', 'str', 'int', 'partial'}
ROOTS = ('self', 'stream', 'value', 'task', '_stream', 'proc', 'log', 'events', 'event', 'release_stream')


def u(n):
    return ast.unparse(n)


def need(c, what):
    if not c:
        raise Unsupported('C12 facts: ' + what)


def strip_doc(body):
    if body and isinstance(body[0], ast.Expr) and isinstance(body[0].value, ast.Constant) \
            and isinstance(body[0].value.value, str):
        return body[1:]
    return body


def expr_tokens(e, out):
    """effect tokens of an expression, evaluation order (arguments before the call itself)"""
    if isinstance(e, ast.Call):
        name = u(e.func)
        if isinstance(e.func, ast.Attribute):
            expr_tokens(e.func.value, out)
        for a in e.args:
            expr_tokens(a, out)
        for k in e.keywords:
            expr_tokens(k.value, out)
        root = name.split('.')[0].split('(')[0]
        if name in PURE_CALLS or name.endswith('.format'):
            return
        if name.startswith('log.'):
            out.append('log')
            return
        if name[:1].isupper() and '.' not in name:
            out.append('new ' + name)           # constructor (exception, Stream)
            return
        if name == 'request_handler':
            out.append('call request_handler')  # the coroutine object handed to create_task
            return
        need(root in ROOTS, 'call on an unknown object: ' + name)
        out.append('call ' + name + '/%d' % (len(e.args) + len(e.keywords)))
    elif isinstance(e, ast.Subscript):
        expr_tokens(e.value, out)
        expr_tokens(e.slice, out)
        if u(e.value) in ('self.streams', 'self.processors', 'self._tasks'):
            out.append('index ' + u(e.value))
    elif isinstance(e, ast.Attribute):
        expr_tokens(e.value, out)
    elif isinstance(e, (ast.Name, ast.Constant)):
        pass
    elif isinstance(e, ast.Compare):
        expr_tokens(e.left, out)
        for c in e.comparators:
            expr_tokens(c, out)
    elif isinstance(e, ast.BoolOp):
        for v in e.values:
            expr_tokens(v, out)
    elif isinstance(e, ast.UnaryOp):
        expr_tokens(e.operand, out)
    elif isinstance(e, ast.BinOp):
        expr_tokens(e.left, out)
        expr_tokens(e.right, out)
    elif isinstance(e, (ast.Tuple, ast.List)):
        for x in e.elts:
            expr_tokens(x, out)
    elif isinstance(e, ast.JoinedStr):
        pass
    elif isinstance(e, ast.Lambda):
        out.append('lambda')
    else:
        raise Unsupported('C12 facts: expression ' + type(e).__name__ + ': ' + u(e))


def stmt_tokens(body, out):
    for s in strip_doc(body):
        if isinstance(s, ast.Pass):
            out.append('pass')
        elif isinstance(s, ast.Expr):
            expr_tokens(s.value, out)
        elif isinstance(s, ast.Assign):
            expr_tokens(s.value, out)
            for t in s.targets:
                if isinstance(t, ast.Attribute):
                    out.append('set ' + u(t))
                elif isinstance(t, ast.Subscript):
                    expr_tokens(t.value, out)
                    out.append('setitem ' + u(t.value))
                else:
                    need(isinstance(t, (ast.Name, ast.Tuple)), 'assignment target ' + u(t))
        elif isinstance(s, ast.AugAssign):
            expr_tokens(s.value, out)
            out.append('set ' + u(s.target))
        elif isinstance(s, ast.AnnAssign):
            if s.value is not None:
                expr_tokens(s.value, out)
        elif isinstance(s, ast.Raise):
            need(s.exc is not None, 'bare raise')
            exc = s.exc.func if isinstance(s.exc, ast.Call) else s.exc
            out.append('raise ' + u(exc))
        elif isinstance(s, ast.Delete):
            for t in s.targets:
                out.append('del ' + u(t))
        elif isinstance(s, ast.Return):
            if s.value is not None:
                expr_tokens(s.value, out)
            out.append('return')
        elif isinstance(s, ast.If):
            out.append('if ' + u(s.test))
            expr_tokens(s.test, out)
            stmt_tokens(s.body, out)
            if s.orelse:
                out.append('else')
                stmt_tokens(s.orelse, out)
            out.append('endif')
        elif isinstance(s, ast.For):
            out.append('for ' + u(s.iter))
            expr_tokens(s.iter, out)
            stmt_tokens(s.body, out)
            need(not s.orelse, 'for-else')
            out.append('endfor')
        elif isinstance(s, ast.Try):
            out.append('try')
            stmt_tokens(s.body, out)
            for h in s.handlers:
                need(h.type is not None, 'bare except')
                out.append('except ' + u(h.type))
                stmt_tokens(h.body, out)
            if s.orelse:
                out.append('else')
                stmt_tokens(s.orelse, out)
            need(not s.finalbody, 'try-finally')
            out.append('endtry')
        elif isinstance(s, ast.FunctionDef):
            out.append('def ' + s.name)
        elif isinstance(s, ast.Assert):
            pass
        else:
            raise Unsupported('C12 facts: statement ' + type(s).__name__ + ': ' + u(s)[:80])


def shape(tree, cls, name):
    out = []
    stmt_tokens(func_node(tree, name, cls).body, out)
    return out


def processors_methods(pr):
    init = func_node(pr, '__init__', 'EventsProcessor')
    for s in ast.walk(init):
        if isinstance(s, ast.Assign) and u(s.targets[0]) == 'self.processors':
            need(isinstance(s.value, ast.Dict), 'processors is not a dict literal')
            names = []
            for v in s.value.values:
                need(isinstance(v, ast.Attribute) and u(v.value) == 'self', 'processor ' + u(v))
                if v.attr not in names:
                    names.append(v.attr)
            return names
    raise Unsupported('C12 facts: processors not found')


def reason_strings(repo):
    """{'protocol_error': ..., 'connection_lost': ..., 'connection_closed': ..., 'remote_reset': ...,
    'goaway': ...} -- the texts given to close()/__terminated__ ({} = the error code)"""
    pr = parse(repo, 'grpclib/protocol.py')
    out = {}
    # H2Protocol.data_received: self.processor.close('Protocol error')
    for n in ast.walk(func_node(pr, 'data_received', 'H2Protocol')):
        if isinstance(n, ast.Call) and u(n.func) == 'self.processor.close':
            need(len(n.args) == 1 and isinstance(n.args[0], ast.Constant), 'close() argument in data_received')
            out['protocol_error'] = n.args[0].value
    for n in ast.walk(func_node(pr, 'connection_lost', 'H2Protocol')):
        if isinstance(n, ast.Call) and u(n.func) == 'self.processor.close':
            need(len(n.keywords) == 1 and isinstance(n.keywords[0].value, ast.Constant),
                 'close() argument in connection_lost')
            out['connection_lost'] = n.keywords[0].value.value
    close = func_node(pr, 'close', 'EventsProcessor')
    need(len(close.args.defaults) == 1 and isinstance(close.args.defaults[0], ast.Constant),
         'default reason of EventsProcessor.close')
    out['connection_closed'] = close.args.defaults[0].value

    def fmt_const(fn, cls):
        found = []
        for n in ast.walk(func_node(pr, fn, cls)):
            if isinstance(n, ast.Call) and isinstance(n.func, ast.Attribute) and n.func.attr == 'format' \
                    and isinstance(n.func.value, ast.Constant):
                found.append(n.func.value.value)
        need(len(found) == 1, 'one format string in ' + fn)
        return found[0]
    out['remote_reset'] = fmt_const('process_stream_reset', 'EventsProcessor')
    out['goaway'] = fmt_const('process_connection_terminated', 'EventsProcessor')
    local = [n.value for n in ast.walk(func_node(pr, 'process_stream_reset', 'EventsProcessor'))
             if isinstance(n, ast.Assign) and isinstance(n.value, ast.Constant)]
    need(len(local) == 1, 'local-reset text in process_stream_reset')
    out['local_reset'] = local[0].value
    need(set(out) == {'protocol_error', 'connection_lost', 'connection_closed', 'remote_reset', 'goaway',
                      'local_reset'}, 'reason strings incomplete: %r' % sorted(out))
    return out


def generate(repo):
    pr = parse(repo, 'grpclib/protocol.py')
    cl = parse(repo, 'grpclib/client.py')
    sv = parse(repo, 'grpclib/server.py')
    rows = []
    rows.append(('EventsProcessor.process', shape(pr, 'EventsProcessor', 'process')))
    for m in processors_methods(pr):
        rows.append(('EventsProcessor.' + m, shape(pr, 'EventsProcessor', m)))
    rows.append(('EventsProcessor.close', shape(pr, 'EventsProcessor', 'close')))
    rows.append(('Connection.ack', shape(pr, 'Connection', 'ack')))
    rows.append(('Connection.close', shape(pr, 'Connection', 'close')))
    rows.append(('Stream.__terminated__', shape(pr, 'Stream', '__terminated__')))
    rows.append(('Stream.__ended__', shape(pr, 'Stream', '__ended__')))
    rows.append(('Stream.closable', shape(pr, 'Stream', 'closable')))
    rows.append(('Stream.reset_nowait', shape(pr, 'Stream', 'reset_nowait')))
    rows.append(('H2Protocol.data_received', shape(pr, 'H2Protocol', 'data_received')))
    rows.append(('H2Protocol.connection_lost', shape(pr, 'H2Protocol', 'connection_lost')))
    for f in ('accept', 'cancel', 'close'):
        rows.append(('client.Handler.' + f, shape(cl, 'Handler', f)))
    for f in ('accept', 'cancel', 'close'):
        rows.append(('server.Handler.' + f, shape(sv, 'Handler', f)))
    rs = reason_strings(repo)
    L = ['(* GENERATED by tools/facts_C12.py from /repo -- do not edit; rewritten on every run *)',
         'From Coq Require Import ZArith List.', 'Import ListNotations.', 'Open Scope Z_scope.', '',
         '(* effect tokens, in source order, of every function Model/Dispatch.v transcribes *)',
         'Definition input_path_shape : list (list Z * list (list Z)) := [']
    L.append(';\n'.join('  (* %s: %s *)\n  (%s, [%s])' % (n, ' | '.join(t).replace('*)', '* )'), zs(n),
                                                        '; '.join(zs(x) for x in t)) for n, t in rows))
    L.append('].')
    L.append('')
    L.append('(* texts given to close() / __terminated__ *)')
    L.append('Definition reason_strings : list (list Z * list Z) := [%s].' % '; '.join(
        '(%s, %s)' % (zs(k), zs(v)) for k, v in sorted(rs.items())))
    return '\n'.join(L) + '\n'


if __name__ == '__main__':
    import os
    import sys
    sys.stdout.write(generate(os.environ.get('VERIF_REPO', '/repo')))
