"""facts_C12.py -- what the connection input path DOES, copied into coq/Gen/FactsC12.v (property C12).

`ast` only; grpclib is never imported.  Fail-closed: an expression or statement kind this file cannot
summarise raises Unsupported, the generated file disappears and Props/C12.v stops compiling (tie broken).

Model/Dispatch.v is a hand transcription of EventsProcessor.process / process_* / close,
H2Protocol.data_received / connection_lost, Connection.ack, Stream.__ended__ / __terminated__ /
closable / reset_nowait and the two Handler classes.  The theorem C12_source_shape compares, for each
of these functions, an EFFECT SUMMARY computed here with the one the transcription was made from.  The
summary is about meaning, not spelling:

  * it is a SET (sorted, duplicates removed): order of independent statements, if/elif/else versus early
    returns, try/except/else versus try/except + following statements, loops over a temporary list do
    not matter; docstrings, comments, annotations, asserts, logging, `return` and `pass` are ignored;
  * private helpers are SEEN THROUGH: a call of a `_private` method of the same class (also static /
    class methods) or of a `_private` function of the module is replaced by the effects of its body,
    and its value by what it may return;
  * local names do not matter: a local is replaced by what it may hold (all its assignments, any branch;
    loop variables hold the elements); values are abstracted to the set of ATOMS they are made of --
    string constants, `event.<field>`, parameters by position, `self.<path>`, `len(...)`, and the role
    names `stream` (anything obtained from the stream registry / create_stream) and `task` (anything
    obtained from the task table / create_task);
  * what is recorded:
      get / index / values / pop[/n] / del   on  self.<container>     (tolerant versus raising lookups)
      store / unstore <container> <- <atoms>  (set.add/update, list.append/extend, d[k] = v are the same thing)
      call <receiver path>.<method>(<atoms of arg 1>; <atoms of arg 2>; ...)
      set <target path> <- <atoms>
      raise <Exception>, catch <Exceptions of a try>, del[-tolerant] <target>
      test <atoms>   for conditions on the event's fields or on parameters (never for None / hasattr guards)
  * EventsProcessor.process is summarised by what matters for dispatch: is a missing `processors`
    attribute tolerated, is a missing key tolerated (each by try/except OR by getattr/hasattr/.get/`in`),
    is the handler called with the event, does the function raise.
"""
import ast
import re

from extract_facts import Unsupported, parse, zs

LOG_ROOTS = {'log', 'logging', 'logger'}
PURE_FUNCS = {'len', 'list', 'tuple', 'set', 'frozenset', 'sorted', 'iter', 'cast', 'str', 'int', 'bool',
              'partial', 'isinstance', 'dict'}
# what comes out of the stream registry is a `stream`; what comes out of a PRIVATE container of a handler
# (its task tables, whatever they are called) or of create_task is a `task`
STREAM_SOURCES = {('self.streams', 'get'), ('self.streams', 'values'), ('self.streams', '[]'),
                  ('self.streams', 'pop'), ('self.connection', 'create_stream')}
TASK_SOURCES = {('self._', 'pop'), ('self._', 'values'), ('self._', '[]'), ('self._', 'get'),
                ('self.loop', 'create_task')}
MAX_DEPTH = 4


def u(n):
    return ast.unparse(n)


def private(name):
    return name.startswith('_') and not (name.startswith('__') and name.endswith('__'))


def template(s):
    """the constant text of a string template, whatever the formatting mechanism"""
    return re.sub(r'%[-#0 +]*\d*(?:\.\d+)?[sdrifxXeEgGc]', '', re.sub(r'\{[^{}]*\}', '', s))


def fmt(atoms):
    return {('str:' + template(a[4:])) if a.startswith('str:') else a for a in atoms}


def anon(path):
    """private attribute names are spelling: self._tasks.pop -> self._.pop"""
    return '.'.join('_' if private(c) and i > 0 else c for i, c in enumerate(path.split('.')))


def need(c, what):
    if not c:
        raise Unsupported('C12 facts: ' + what)


def strip_doc(body):
    if body and isinstance(body[0], ast.Expr) and isinstance(body[0].value, ast.Constant) \
            and isinstance(body[0].value.value, str):
        return body[1:]
    return body


class Scope:
    """functions that may be inlined: private methods of the class, private functions of the module"""

    def __init__(self, tree, cls):
        self.cls = cls
        self.methods, self.funcs, self.consts = {}, {}, {}
        for n in tree.body:
            # module-level NAME = <constant expression>: a reference to it is the constant
            if isinstance(n, (ast.Assign, ast.AnnAssign)):
                tg = n.targets[0] if isinstance(n, ast.Assign) and len(n.targets) == 1 else \
                    (n.target if isinstance(n, ast.AnnAssign) else None)
                if isinstance(tg, ast.Name) and n.value is not None and all(
                        isinstance(x, (ast.Constant, ast.Tuple, ast.List, ast.JoinedStr, ast.BinOp, ast.Add,
                                       ast.Load, ast.Mod, ast.Mult))
                        for x in ast.walk(n.value)):
                    self.consts[tg.id] = n.value
        for n in tree.body:
            if isinstance(n, ast.ClassDef) and n.name == cls:
                for m in n.body:
                    if isinstance(m, (ast.FunctionDef, ast.AsyncFunctionDef)):
                        self.methods[m.name] = m
            elif isinstance(n, ast.FunctionDef):
                self.funcs[n.name] = n

    private = staticmethod(private)

    def helper(self, call):
        """-> (FunctionDef, skip_first_param) if `call` is a call of an inlinable private helper"""
        f = call.func
        if isinstance(f, ast.Attribute) and isinstance(f.value, ast.Name) and self.private(f.attr) \
                and f.attr in self.methods and f.value.id in ('self', 'cls', self.cls):
            fn = self.methods[f.attr]
            static = any(u(d) in ('staticmethod',) for d in fn.decorator_list)
            return fn, (not static)
        if isinstance(f, ast.Name) and self.private(f.id) and f.id in self.funcs:
            return self.funcs[f.id], False
        return None


class Summary:
    def __init__(self, scope):
        self.scope = scope
        self.tokens = set()
        self.returns = set()

    # ---- values ------------------------------------------------------------------------------------
    def atoms(self, e, env, depth=0):
        if e is None:
            return set()
        if isinstance(e, ast.Constant):
            if isinstance(e.value, str):
                return {'str:' + e.value}
            if e.value is None or isinstance(e.value, bool):
                return set()
            return {'const:%r' % (e.value,)}
        if isinstance(e, ast.Name):
            if e.id in env:
                return set(env[e.id])
            if e.id in self.scope.consts:
                return self.atoms(self.scope.consts[e.id], {}, depth)
            return {e.id}
        if isinstance(e, ast.Attribute):
            base = self.atoms(e.value, env, depth)
            out = set()
            attr = '_' if private(e.attr) else e.attr
            for b in base or {anon(u(e.value))}:
                out.add(b + '.' + attr if not b.startswith(('str:', 'const:')) else b)
            return out
        if isinstance(e, ast.Call):
            return self.call(e, env, depth)
        if isinstance(e, ast.IfExp):
            self.test(e.test, env, depth)
            return self.atoms(e.body, env, depth) | self.atoms(e.orelse, env, depth)
        if isinstance(e, (ast.List, ast.Tuple, ast.Set)):
            out = set()
            for x in e.elts:
                out |= self.atoms(x, env, depth)
            return out
        if isinstance(e, ast.Dict):
            out = set()
            for x in list(e.keys) + list(e.values):
                out |= self.atoms(x, env, depth)
            return out
        if isinstance(e, ast.Subscript):
            base = anon(u(e.value)) if not isinstance(e.value, ast.Name) or e.value.id not in env else None
            self.atoms(e.slice, env, depth)
            if base is not None and base.startswith('self.'):
                self.tokens.add('index ' + base)
                if (base, '[]') in STREAM_SOURCES:
                    return {'stream'}
                if (base, '[]') in TASK_SOURCES:
                    return {'task'}
                return {base + '[]'}
            return {a + '[]' for a in self.atoms(e.value, env, depth)}
        if isinstance(e, ast.BinOp):
            left = self.atoms(e.left, env, depth)
            if isinstance(e.op, ast.Mod) and any(a.startswith('str:') for a in left):
                left = fmt(left)                     # 'text %s' % value
            return left | self.atoms(e.right, env, depth)
        if isinstance(e, ast.NamedExpr):
            v = self.atoms(e.value, env, depth)
            self.bind(e.target, v, env)
            return v
        if isinstance(e, ast.BoolOp):
            out = set()
            for v in e.values:
                out |= self.atoms(v, env, depth)
            return out
        if isinstance(e, ast.UnaryOp):
            return self.atoms(e.operand, env, depth)
        if isinstance(e, ast.Compare):
            out = self.atoms(e.left, env, depth)
            for c in e.comparators:
                out |= self.atoms(c, env, depth)
            return out
        if isinstance(e, ast.JoinedStr):
            out = {'str:' + ''.join(v.value for v in e.values
                                    if isinstance(v, ast.Constant) and isinstance(v.value, str))}
            for v in e.values:
                if isinstance(v, ast.FormattedValue):
                    out |= self.atoms(v.value, env, depth)
            return out
        if isinstance(e, ast.Lambda):
            return {'lambda'}
        if isinstance(e, (ast.ListComp, ast.SetComp, ast.GeneratorExp, ast.DictComp)):
            env2 = dict(env)
            for g in e.generators:
                self.bind(g.target, self.atoms(g.iter, env2, depth), env2)
                for c in g.ifs:
                    self.test(c, env2, depth)
            if isinstance(e, ast.DictComp):
                return self.atoms(e.key, env2, depth) | self.atoms(e.value, env2, depth)
            return self.atoms(e.elt, env2, depth)
        if isinstance(e, ast.Await):
            return self.atoms(e.value, env, depth)
        if isinstance(e, ast.Starred):
            return self.atoms(e.value, env, depth)
        raise Unsupported('C12 facts: expression ' + type(e).__name__ + ': ' + u(e)[:80])

    def show(self, atoms):
        return '{' + ', '.join(sorted(atoms)) + '}'

    def call(self, e, env, depth):
        args = [self.atoms(a, env, depth) for a in e.args] + \
               [self.atoms(k.value, env, depth) for k in e.keywords]
        h = self.scope.helper(e)
        if h is not None:
            fn, skip = h
            need(depth < MAX_DEPTH, 'helper inlining too deep: ' + u(e.func))
            params = [a.arg for a in fn.args.args][1 if skip else 0:]
            env2 = {'self': {'self'}}
            for i, p in enumerate(params):
                env2[p] = args[i] if i < len(args) else set()
            for k in e.keywords:
                if k.arg in params:
                    env2[k.arg] = self.atoms(k.value, env, depth)
            sub = Summary(self.scope)
            sub.stmts(fn.body, env2, depth + 1)
            self.tokens |= sub.tokens
            return sub.returns
        f = e.func
        name = u(f)
        if isinstance(f, ast.Name):
            if f.id in ('getattr', 'hasattr'):
                # getattr(self, 'x', d) reads self.x tolerantly; hasattr(...) is a guard
                if f.id == 'getattr' and len(e.args) >= 2 and isinstance(e.args[1], ast.Constant):
                    return {b + '.' + str(e.args[1].value) for b in args[0]}
                return set()
            if f.id in PURE_FUNCS:
                out = set()
                for a in args:
                    out |= a
                if f.id == 'len':
                    return {'len(' + ', '.join(sorted(out)) + ')'}
                return out
            if f.id in env:                                  # a callable held by a local / parameter
                for callee in sorted(env[f.id]):
                    self.tokens.add('call %s(%s)' % (callee, '; '.join(self.show(a) for a in args)))
                return {c + '()' for c in env[f.id]}
            if f.id[:1].isupper():                           # constructor (exception, Stream, Wrapper)
                out = {'new:' + f.id}
                for a in args:
                    out |= a
                return out
            self.tokens.add('call %s(%s)' % (f.id, '; '.join(self.show(a) for a in args)))
            return {f.id + '()'}
        need(isinstance(f, ast.Attribute), 'call of ' + name)
        root = name.split('.')[0]
        if root in LOG_ROOTS:
            return set()
        if f.attr == 'format':
            out = fmt(self.atoms(f.value, env, depth))
            for a in args:
                out |= a
            return out
        if name in ('time.monotonic', 'time.time'):
            return {name + '()'}
        recv_src = anon(u(f.value))
        recv = self.atoms(f.value, env, depth)
        # container protocol on self.<container> (also through an alias obtained with getattr)
        containers = {r for r in recv if r.startswith('self.') or r == '_streams'}
        if f.attr in ('add', 'update', 'append', 'extend', 'discard', 'remove') and containers and \
                all(r.count('.') == 1 for r in containers):
            # remembering / forgetting something in a container: a set's add/update, a list's append/extend
            # and a dict's d[x] = ... all say the same thing
            what = set()
            for a in args:
                what |= a
            for r in sorted(containers):
                self.tokens.add('%s %s <- %s' % ('store' if f.attr in ('add', 'update', 'append', 'extend')
                                                 else 'unstore', r, self.show(what)))
            return set()
        if f.attr in ('get', 'values', 'items', 'keys', 'pop', 'setdefault') and containers and \
                all(r.count('.') == 1 or r == '_streams' for r in containers):
            for r in sorted(containers):
                self.tokens.add('%s %s%s' % (f.attr, r, '/%d' % len(args) if f.attr == 'pop' else ''))
                if (r, f.attr) in STREAM_SOURCES:
                    return {'stream'}
                if (r, f.attr) in TASK_SOURCES:
                    return {'task'}
            return {r + '.' + f.attr + '()' for r in containers}
        for r in sorted(recv or {recv_src}):
            if (r, f.attr) in STREAM_SOURCES:
                self.tokens.add('call %s.%s(%s)' % (r, f.attr, '; '.join(self.show(a) for a in args)))
                return {'stream'}
            if (r, f.attr) in TASK_SOURCES:
                self.tokens.add('call %s.%s(%s)' % (r, f.attr, '; '.join(self.show(a) for a in args)))
                return {'task'}
        for r in sorted(recv or {recv_src}):
            if r.startswith(('str:', 'const:')):
                continue
            self.tokens.add('call %s.%s(%s)' % (r, f.attr, '; '.join(self.show(a) for a in args)))
        return {r + '.' + f.attr + '()' for r in (recv or {recv_src})}

    # ---- conditions --------------------------------------------------------------------------------
    def test(self, t, env, depth):
        """record what conditions look at (event fields, parameters, self.<paths>), atom by atom: how tests
        are grouped, negated or named is spelling; None and hasattr guards are not recorded (whether a lookup
        tolerates absence is recorded by get-versus-index)"""
        for x in self.cond_atoms(t, env, depth):
            self.tokens.add('test ' + x)

    def cond_atoms(self, t, env, depth):
        """what a condition looks at, None / hasattr guards left out"""
        if isinstance(t, ast.BoolOp):
            out = set()
            for v in t.values:
                out |= self.cond_atoms(v, env, depth)
            return out
        if isinstance(t, ast.UnaryOp) and isinstance(t.op, ast.Not):
            return self.cond_atoms(t.operand, env, depth)
        if isinstance(t, ast.NamedExpr):
            v = self.atoms(t.value, env, depth)
            self.bind(t.target, v, env)
            return set()
        if isinstance(t, ast.Compare) and len(t.ops) == 1 and isinstance(t.ops[0], (ast.Is, ast.IsNot)) \
                and isinstance(t.comparators[0], ast.Constant) and t.comparators[0].value is None:
            self.atoms(t.left, env, depth)
            return set()
        if isinstance(t, ast.Call) and isinstance(t.func, ast.Name) and t.func.id == 'hasattr':
            return set()
        a = self.atoms(t, env, depth)
        if any(x.startswith(('event', 'arg', 'self.', 'stream', 'task')) or x in ('size', 'reason', 'data')
               for x in a):
            return {x for x in a if x not in ('stream', 'task')}
        return set()

    def _unused(self):
        pass

    # ---- statements --------------------------------------------------------------------------------
    def bind(self, target, value, env):
        if isinstance(target, ast.Name):
            env[target.id] = set(env.get(target.id, set())) | set(value)
        elif isinstance(target, (ast.Tuple, ast.List)):
            for x in target.elts:
                self.bind(x, value, env)
        elif isinstance(target, ast.Attribute):
            for b in sorted(self.atoms(target.value, env) or {anon(u(target.value))}):
                self.tokens.add('set %s.%s <- %s' % (b, '_' if private(target.attr) else target.attr,
                                                   self.show(value)))
        elif isinstance(target, ast.Subscript):
            key = self.atoms(target.slice, env)
            for b in sorted(self.atoms(target.value, env) or {anon(u(target.value))}):
                self.tokens.add('store %s <- %s' % (b, self.show(set(key) | set(value))))
        else:
            raise Unsupported('C12 facts: assignment target ' + u(target))

    def tolerant_del(self, node, guards):
        return any(g == 'hasattr' or g == 'catch AttributeError' for g in guards)

    def stmts(self, body, env, depth=0, guards=()):
        for s in strip_doc(body):
            if isinstance(s, (ast.Pass, ast.Assert, ast.Import, ast.ImportFrom, ast.Global, ast.Nonlocal)):
                continue
            if isinstance(s, ast.Expr):
                self.atoms(s.value, env, depth)
            elif isinstance(s, ast.Assign):
                v = self.atoms(s.value, env, depth)
                for t in s.targets:
                    self.bind(t, v, env)
            elif isinstance(s, ast.AugAssign):
                v = self.atoms(s.value, env, depth)
                self.bind(s.target, v | {'+='}, env)
            elif isinstance(s, ast.AnnAssign):
                if s.value is not None:
                    self.bind(s.target, self.atoms(s.value, env, depth), env)
            elif isinstance(s, ast.Return):
                if isinstance(s.value, (ast.BoolOp, ast.Compare)) or \
                        (isinstance(s.value, ast.UnaryOp) and isinstance(s.value.op, ast.Not)):
                    self.returns |= self.cond_atoms(s.value, env, depth)
                else:
                    self.returns |= self.atoms(s.value, env, depth)
            elif isinstance(s, ast.Raise):
                need(s.exc is not None, 'bare raise')
                exc = s.exc.func if isinstance(s.exc, ast.Call) else s.exc
                self.atoms(s.exc, env, depth)
                self.tokens.add('raise ' + u(exc))
            elif isinstance(s, ast.Delete):
                for t in s.targets:
                    self.tokens.add(('del-tolerant ' if self.tolerant_del(t, guards) else 'del ') + anon(u(t)))
            elif isinstance(s, ast.If):
                self.test(s.test, env, depth)
                g = guards + (('hasattr',) if 'hasattr(' in u(s.test) else ())
                self.stmts(s.body, env, depth, g)
                self.stmts(s.orelse, env, depth, guards)
            elif isinstance(s, (ast.For, ast.AsyncFor)):
                self.bind(s.target, self.atoms(s.iter, env, depth), env)
                self.stmts(s.body, env, depth, guards)
                self.stmts(s.orelse, env, depth, guards)
            elif isinstance(s, ast.While):
                self.test(s.test, env, depth)
                self.stmts(s.body, env, depth, guards)
            elif isinstance(s, ast.Try):
                caught = []
                for h in s.handlers:
                    need(h.type is not None, 'bare except')
                    names = [u(x) for x in (h.type.elts if isinstance(h.type, ast.Tuple) else [h.type])]
                    caught += names
                g = guards + tuple('catch ' + n for n in caught)
                self.stmts(s.body, env, depth, g)
                only_attr = set(caught) <= {'AttributeError'} and all(
                    isinstance(x, ast.Delete) for x in strip_doc(s.body))
                if not only_attr:       # try: del x / except AttributeError: pass  ==  a tolerant delete
                    self.tokens.add('catch ' + ', '.join(sorted(set(caught))))
                for h in s.handlers:
                    self.stmts(h.body, env, depth, guards)
                self.stmts(s.orelse, env, depth, guards)
                self.stmts(s.finalbody, env, depth, guards)
            elif isinstance(s, (ast.With, ast.AsyncWith)):
                caught = []
                for it in s.items:
                    ce = it.context_expr
                    if isinstance(ce, ast.Call) and u(ce.func) in ('suppress', 'contextlib.suppress'):
                        caught += [u(a) for a in ce.args]       # == try: ... except E: pass
                        continue
                    v = self.atoms(ce, env, depth)
                    if it.optional_vars is not None:
                        self.bind(it.optional_vars, v, env)
                g = guards + tuple('catch ' + n for n in caught)
                self.stmts(s.body, env, depth, g)
                if caught and not (set(caught) <= {'AttributeError'} and all(
                        isinstance(x, ast.Delete) for x in strip_doc(s.body))):
                    self.tokens.add('catch ' + ', '.join(sorted(set(caught))))
            elif isinstance(s, (ast.FunctionDef, ast.AsyncFunctionDef)):
                self.tokens.add('def ' + s.name)
            else:
                raise Unsupported('C12 facts: statement ' + type(s).__name__ + ': ' + u(s)[:80])


def method(tree, cls, name):
    for n in tree.body:
        if isinstance(n, ast.ClassDef) and n.name == cls:
            for m in n.body:
                if isinstance(m, (ast.FunctionDef, ast.AsyncFunctionDef)) and m.name == name:
                    return m
    raise Unsupported('C12 facts: %s.%s not found' % (cls, name))


def summarise(tree, cls, name, roles):
    """roles: canonical atom for each parameter after self, by position"""
    fn = method(tree, cls, name)
    params = [a.arg for a in fn.args.args][1:]
    need(len(params) <= len(roles), '%s.%s has more parameters than expected' % (cls, name))
    env = {'self': {'self'}}
    for p, r in zip(params, roles):
        env[p] = {r}
    s = Summary(Scope(tree, cls))
    s.stmts(fn.body, env)
    toks = set(s.tokens)
    if s.returns - {'stream'}:
        toks.add('returns ' + s.show(s.returns))
    return sorted(toks)


# ---- EventsProcessor.process: dispatch semantics -----------------------------------------------------

def dispatch_summary(tree):
    """is a missing table / a missing key tolerated, is the handler called with the event, any raise"""
    scope = Scope(tree, 'EventsProcessor')
    fn = method(tree, 'EventsProcessor', 'process')
    params = [a.arg for a in fn.args.args]
    need(len(params) == 2, 'process(self, event)')
    ev = params[1]
    aliases = set()          # locals holding the processors table
    found = {'table': [], 'key': [], 'called': False, 'raises': False}

    def is_table(e):
        return (isinstance(e, ast.Attribute) and u(e) == 'self.processors') or \
               (isinstance(e, ast.Name) and e.id in aliases)

    def walk(body, guards):
        for s in strip_doc(body):
            need(scope.helper(s.value) is None if isinstance(s, ast.Expr) and isinstance(s.value, ast.Call)
                 else True, 'process delegates to a private helper')
            if isinstance(s, ast.Try):
                caught = []
                for h in s.handlers:
                    need(h.type is not None, 'bare except in process')
                    caught += [u(x) for x in (h.type.elts if isinstance(h.type, ast.Tuple) else [h.type])]
                walk(s.body, guards | set(caught))
                for h in s.handlers:
                    walk(h.body, guards)
                walk(s.orelse, guards)
                walk(s.finalbody, guards)
                continue
            if isinstance(s, ast.If):
                g2 = set(guards)
                t = u(s.test)
                exprs(s.test, guards)
                if 'hasattr(self' in t and 'processors' in t:
                    g2.add('AttributeError')
                if any(isinstance(c, ast.Compare) and any(isinstance(o, (ast.In, ast.NotIn)) for o in c.ops)
                       and any(is_table(x) for x in c.comparators) for c in ast.walk(s.test)):
                    g2.add('KeyError')
                # an `if <absent>: return` chain guards what follows as well; keep it simple: both
                # branches and the rest of the body are examined under the guards established so far
                walk(s.body, g2)
                walk(s.orelse, g2)
                continue
            if isinstance(s, ast.Raise):
                found['raises'] = True
                continue
            if isinstance(s, (ast.Return, ast.Expr, ast.Assign, ast.AnnAssign)):
                v = getattr(s, 'value', None)
                if v is not None:
                    exprs(v, guards)
                if isinstance(s, ast.Assign) and len(s.targets) == 1 and isinstance(s.targets[0], ast.Name):
                    # alias of the table: x = self.processors / getattr(self, 'processors', d)
                    if is_table(s.value) or (isinstance(s.value, ast.Call) and u(s.value.func) == 'getattr'
                                             and len(s.value.args) >= 2 and u(s.value.args[0]) == 'self'
                                             and u(s.value.args[1]) == "'processors'"):
                        aliases.add(s.targets[0].id)
                continue
            if isinstance(s, ast.Pass):
                continue
            raise Unsupported('C12 facts: statement in process: ' + u(s)[:60])

    def exprs(e, guards):
        for n in ast.walk(e):
            if isinstance(n, ast.Attribute) and u(n) == 'self.processors':
                found['table'].append('AttributeError' in guards or 'Exception' in guards)
            if isinstance(n, ast.Call) and u(n.func) == 'getattr' and len(n.args) >= 2 and \
                    u(n.args[0]) == 'self' and u(n.args[1]) == "'processors'":
                found['table'].append(len(n.args) == 3)
            if isinstance(n, ast.Subscript) and is_table(n.value):
                found['key'].append(bool({'KeyError', 'LookupError', 'Exception'} & guards))
            if isinstance(n, ast.Call) and isinstance(n.func, ast.Attribute) and n.func.attr == 'get' \
                    and is_table(n.func.value):
                found['key'].append(True)
            if isinstance(n, ast.Call) and len(n.args) == 1 and isinstance(n.args[0], ast.Name) \
                    and n.args[0].id == ev and not (isinstance(n.func, ast.Attribute)
                                                    and u(n.func).split('.')[0] in LOG_ROOTS):
                if isinstance(n.func, ast.Name) or isinstance(n.func, ast.Subscript) or \
                        (isinstance(n.func, ast.Call)):
                    found['called'] = True

    walk(fn.body, set())
    need(found['table'] or aliases, 'process does not read self.processors')
    need(found['key'], 'process does not look the event class up')
    keyed = any('__class__' in u(n) or 'type(' in u(n) for n in ast.walk(fn))
    out = ['dispatch: by the class of the event' if keyed else 'dispatch: by something else',
           'dispatch: missing table ' + ('tolerated' if all(found['table']) else 'RAISES'),
           'dispatch: missing key ' + ('tolerated' if all(found['key']) else 'RAISES'),
           'dispatch: handler ' + ('called with the event' if found['called'] else 'NOT called')]
    if found['raises']:
        out.append('dispatch: raise statement')
    return sorted(out)


def processors_methods(pr):
    init = method(pr, 'EventsProcessor', '__init__')
    for s in ast.walk(init):
        if isinstance(s, ast.Assign) and u(s.targets[0]) == 'self.processors':
            names = []
            if isinstance(s.value, ast.Dict):
                for v in s.value.values:
                    need(isinstance(v, ast.Attribute) and u(v.value) == 'self', 'processor ' + u(v))
                    if v.attr not in names:
                        names.append(v.attr)
                return names
            # {cls: getattr(self, name) for cls, name in <table>}: the method names are the string
            # constants of the table (a class-level or module-level tuple / list / dict)
            need(isinstance(s.value, ast.DictComp) and len(s.value.generators) == 1
                 and 'getattr(self' in u(s.value.value), 'processors is neither a dict literal nor a '
                 'comprehension with getattr(self, name)')
            src = s.value.generators[0].iter
            if isinstance(src, ast.Call):                    # TABLE.items()
                src = src.func.value if isinstance(src.func, ast.Attribute) else src
            tname = src.attr if isinstance(src, ast.Attribute) else (src.id if isinstance(src, ast.Name) else None)
            need(tname is not None, 'processors table ' + u(src))
            table = None
            for n in ast.walk(pr):
                if isinstance(n, (ast.Assign, ast.AnnAssign)):
                    tg = n.targets[0] if isinstance(n, ast.Assign) else n.target
                    if isinstance(tg, ast.Name) and tg.id == tname and n.value is not None:
                        table = n.value
            need(table is not None, 'processors table %s not found' % tname)
            for c in ast.walk(table):
                if isinstance(c, ast.Constant) and isinstance(c.value, str) and c.value.startswith('process'):
                    if c.value not in names:
                        names.append(c.value)
            need(names, 'no method names in ' + tname)
            return names
    raise Unsupported('C12 facts: processors not found')


def rows(repo):
    pr = parse(repo, 'grpclib/protocol.py')
    cl = parse(repo, 'grpclib/client.py')
    sv = parse(repo, 'grpclib/server.py')
    out = [('EventsProcessor.process', dispatch_summary(pr))]
    for m in processors_methods(pr):
        out.append(('EventsProcessor.' + m, summarise(pr, 'EventsProcessor', m, ['event'])))
    out.append(('EventsProcessor.close', summarise(pr, 'EventsProcessor', 'close', ['reason'])))
    out.append(('Connection.ack', summarise(pr, 'Connection', 'ack', ['arg1', 'size'])))
    out.append(('Stream.__terminated__', summarise(pr, 'Stream', '__terminated__', ['reason'])))
    out.append(('Stream.__ended__', summarise(pr, 'Stream', '__ended__', [])))
    out.append(('Stream.closable', summarise(pr, 'Stream', 'closable', [])))
    out.append(('Stream.reset_nowait', summarise(pr, 'Stream', 'reset_nowait', ['arg1'])))
    out.append(('H2Protocol.data_received', summarise(pr, 'H2Protocol', 'data_received', ['data'])))
    out.append(('H2Protocol.connection_lost', summarise(pr, 'H2Protocol', 'connection_lost', ['arg1'])))
    for f, roles in (('accept', ['stream', 'headers', 'release_stream']), ('cancel', ['stream']), ('close', [])):
        out.append(('client.Handler.' + f, summarise(cl, 'Handler', f, roles)))
    for f, roles in (('accept', ['stream', 'headers', 'release_stream']), ('cancel', ['stream']), ('close', [])):
        out.append(('server.Handler.' + f, summarise(sv, 'Handler', f, roles)))
    return out


def generate(repo):
    rs = rows(repo)
    L = ['(* GENERATED by tools/facts_C12.py from /repo -- do not edit; rewritten on every run *)',
         'From Coq Require Import ZArith List.', 'Import ListNotations.', 'Open Scope Z_scope.', '',
         '(* effect summaries (sorted sets, private helpers seen through, locals abstracted) of every function',
         '   Model/Dispatch.v transcribes *)',
         'Definition input_path_shape : list (list Z * list (list Z)) := [']
    L.append(';\n'.join('  (* %s: %s *)\n  (%s, [%s])' % (n, ' | '.join(t).replace('*)', '* )').replace('(*', '( *'),
                                                        zs(n), '; '.join(zs(x) for x in t)) for n, t in rs))
    L.append('].')
    return '\n'.join(L) + '\n'


if __name__ == '__main__':
    import os
    import sys
    sys.stdout.write(generate(os.environ.get('VERIF_REPO', '/repo')))
