"""skeleton_ir.py -- slice the public coroutines of grpclib.client.Stream and grpclib.server.Stream
into the IR of coq/Model/StreamIR.v (written to coq/Gen/StreamOps.v on every run).

Fail-closed: a statement that mentions tracked state (flags, the tracked local, awaits, raises,
returns, `with`, the helper methods, the `headers` list) must have one of the recognised shapes,
otherwise Unsupported is raised and the run fails.  Statements that touch no tracked state become
SOpaque.  Only `ast` is used; grpclib is never imported."""
import ast
import os
import sys

sys.path.insert(0, os.path.dirname(os.path.abspath(__file__)))
import pynorm  # noqa: E402


class Unsupported(Exception):
    pass


class _Ctx:
    """per-program translation state: numbering of untracked conditions, list temporaries"""
    def __init__(self):
        self.untracked = 0
        self.lists = {}          # list temporary -> recorded header ops (not yet emitted)
        self.dirty = False       # an await / flag write happened since the first recorded op

    def fresh_untracked(self):
        self.untracked += 1
        return self.untracked

    # header lists: every list variable that flows into the list handed to send_headers/send_request.  The IR
    # has ONE implicit header list and its SHeadersNew/SHeadersAdd/SEncodeMetadata statements act on it in
    # program order; `content[v]` is the sequence of emitted op ids that make up list variable v, and at the
    # send the list handed over must consist of exactly the ops emitted, in the order emitted.
    def reset_lists(self, fn):
        self.listvars = list_vars(fn)
        self.content = {}
        self.emitted = []
        self.opid = 0

    def new_op(self):
        self.opid += 1
        self.emitted.append(self.opid)
        return self.opid


def list_vars(fn):
    """the local names that hold (parts of) the header list: the first argument of the send calls, and, to a
    fixpoint, every name assigned/added/extended into one of them"""
    vs = set()
    for n in ast.walk(fn):
        if isinstance(n, ast.Call) and ast.unparse(n.func) in ('self._stream.send_headers', 'stream.send_request',
                                                                'self._stream.send_request') and n.args:
            if isinstance(n.args[0], ast.Name):
                vs.add(n.args[0].id)
    changed = True

    def names_in(e):
        if isinstance(e, ast.Name):
            return [e.id]
        if isinstance(e, ast.BinOp) and isinstance(e.op, ast.Add):
            return names_in(e.left) + names_in(e.right)
        return []
    while changed:
        changed = False
        for n in ast.walk(fn):
            new = []
            if isinstance(n, ast.Assign) and len(n.targets) == 1 and isinstance(n.targets[0], ast.Name) \
                    and n.targets[0].id in vs:
                new = names_in(n.value)
            elif isinstance(n, ast.AugAssign) and isinstance(n.target, ast.Name) and n.target.id in vs:
                new = names_in(n.value)
            elif (isinstance(n, ast.Call) and isinstance(n.func, ast.Attribute) and n.func.attr == 'extend'
                  and isinstance(n.func.value, ast.Name) and n.func.value.id in vs and len(n.args) == 1):
                new = names_in(n.args[0])
            for x in new:
                if x not in vs:
                    vs.add(x)
                    changed = True
    return vs


def mentions_list(node):
    return any(isinstance(n, ast.Name) and n.id in CTX.listvars for n in ast.walk(node))


def list_value(e):
    """the header-list expression e as (ir statements emitted now, content ids)"""
    if isinstance(e, (ast.List, ast.Tuple)):
        names = header_names(e)
        if not names:
            return [], []
        k = CTX.new_op()
        return ['SHeadersAdd %s' % clist(names)], [k]
    if isinstance(e, ast.Name) and e.id in CTX.listvars:
        if e.id not in CTX.content:
            raise Unsupported('header list %s used before it is built' % e.id)
        return [], CTX.content[e.id]
    if isinstance(e, ast.BinOp) and isinstance(e.op, ast.Add):
        ir1, c1 = list_value(e.left)
        ir2, c2 = list_value(e.right)
        return ir1 + ir2, list(c1) + list(c2)
    if isinstance(e, ast.Call) and ast.unparse(e.func) == 'encode_metadata':
        k = CTX.new_op()
        return ['SEncodeMetadata'], [k]          # user metadata (C13's model): may raise
    if isinstance(e, ast.Call) and ast.unparse(e.func) == 'list' and len(e.args) == 1:
        ir, c = list_value(e.args[0])
        return ir, list(c)
    raise Unsupported('header list expression: ' + ast.unparse(e))


def first_new(ir):
    """the implicit list must be reset by the first statement that creates it"""
    return ir


def list_stmt(s, side):
    """IR for a simple statement that mentions a header-list variable"""
    if isinstance(s, ast.Assign) and len(s.targets) == 1 and isinstance(s.targets[0], ast.Name) \
            and s.targets[0].id in CTX.listvars:
        v = s.targets[0].id
        fresh_program = not CTX.emitted and not any(CTX.content.values())
        if isinstance(s.value, (ast.List, ast.Tuple)) and fresh_program:
            # the first list created by the program resets the implicit list
            names = header_names(s.value)
            k = CTX.new_op()
            CTX.content[v] = [k]
            return ['SHeadersNew %s' % clist(names)]
        ir, c = list_value(s.value)
        if isinstance(s.value, ast.Name):
            CTX.content[v] = c                   # alias: the same list object
        else:
            CTX.content[v] = list(c)
        return ir
    if isinstance(s, ast.AugAssign) and isinstance(s.op, ast.Add) and isinstance(s.target, ast.Name) \
            and s.target.id in CTX.listvars:
        v = s.target.id
        if v not in CTX.content:
            raise Unsupported('header list %s extended before it is built' % v)
        ir, c = list_value(s.value)
        CTX.content[v].extend(c)
        return ir
    if isinstance(s, ast.Expr) and isinstance(s.value, ast.Call) and isinstance(s.value.func, ast.Attribute) \
            and isinstance(s.value.func.value, ast.Name) and s.value.func.value.id in CTX.listvars \
            and len(s.value.args) == 1 and not s.value.keywords:
        v = s.value.func.value.id
        if v not in CTX.content:
            raise Unsupported('header list %s used before it is built' % v)
        a = s.value.args[0]
        if s.value.func.attr == 'append':
            ir, c = list_value(ast.List(elts=[a]))
            CTX.content[v].extend(c)
            return ir
        if s.value.func.attr == 'extend':
            ir, c = list_value(a)
            CTX.content[v].extend(c)
            return ir
    raise Unsupported('header list statement: ' + ast.unparse(s)[:100])


def check_sent(arg):
    """the list handed to the wire must be exactly what the IR's implicit list holds"""
    if not (isinstance(arg, ast.Name) and arg.id in CTX.listvars and arg.id in CTX.content):
        raise Unsupported('send argument is not a tracked header list: ' + ast.unparse(arg))
    if CTX.content[arg.id] != CTX.emitted:
        raise Unsupported('header list %s is not the in-order concatenation of the header statements' % arg.id)


CTX = _Ctx()


FLAGS = {
    '_send_request_done': 'F_send_request_done', '_send_message_done': 'F_send_message_done',
    '_end_done': 'F_end_done', '_recv_initial_metadata_done': 'F_recv_initial_metadata_done',
    '_recv_trailing_metadata_done': 'F_recv_trailing_metadata_done', '_cancel_done': 'F_cancel_done',
    '_trailers_only': 'F_trailers_only',
    '_send_initial_metadata_done': 'F_send_initial_metadata_done',
    '_send_trailing_metadata_done': 'F_send_trailing_metadata_done',
}
LOCALS = {'end_stream': 'L_end_stream'}
PARAMS = {'end': 'P_end'}
OPS = {
    'send_request': 'OpSendRequest', 'send_message': 'OpSendMessage', 'end': 'OpEnd',
    'recv_initial_metadata': 'OpRecvInitialMetadata', 'recv_message': 'OpRecvMessage',
    'recv_trailing_metadata': 'OpRecvTrailingMetadata', 'cancel': 'OpCancel',
    'send_initial_metadata': 'OpSendInitialMetadata',
    'send_trailing_metadata': 'OpSendTrailingMetadata',
}
HOOKS = {'send_request', 'send_message', 'recv_message', 'recv_initial_metadata',
         'recv_trailing_metadata', 'send_initial_metadata', 'send_trailing_metadata', 'recv_request'}
HELPERS = {'_raise_for_status': 'Hp_raise_for_status',
           '_raise_for_content_type': 'Hp_raise_for_content_type',
           '_process_grpc_status': 'Hp_process_grpc_status',
           '_raise_for_grpc_status': 'Hp_raise_for_grpc_status'}
HNAMES = {':method': 'HN_method', ':scheme': 'HN_scheme', ':path': 'HN_path',
          ':authority': 'HN_authority', 'grpc-timeout': 'HN_grpc_timeout', 'te': 'HN_te',
          'content-type': 'HN_content_type', 'user-agent': 'HN_user_agent', ':status': 'HN_status',
          'grpc-status': 'HN_grpc_status', 'grpc-message': 'HN_grpc_message',
          '_STATUS_DETAILS_KEY': 'HN_status_details'}
EXNS = {'ProtocolError': 'XProtocolError'}

CLIENT_OPS = ['send_request', 'send_message', 'end', 'recv_initial_metadata', 'recv_message',
              'recv_trailing_metadata', 'cancel']
SERVER_OPS = ['recv_message', 'send_initial_metadata', 'send_message', 'send_trailing_metadata',
              'cancel']


def is_self_attr(n, names=None):
    return (isinstance(n, ast.Attribute) and isinstance(n.value, ast.Name) and n.value.id == 'self'
            and (names is None or n.attr in names))


def cond(e):
    """Translate a test expression; returns a Coq term of type cond, or None when the expression
    mentions no tracked state (an 'untracked' condition)."""
    if isinstance(e, ast.Call) and isinstance(e.func, ast.Name) and e.func.id == 'bool' and len(e.args) == 1 \
            and not e.keywords:
        return cond(e.args[0])
    if isinstance(e, ast.IfExp):
        r = pynorm.nnf(e)
        if isinstance(r, ast.IfExp):
            raise Unsupported('conditional expression: ' + ast.unparse(e))
        e = r
    if is_self_attr(e, FLAGS):
        return 'CFlag %s' % FLAGS[e.attr]
    if isinstance(e, ast.Name) and e.id in PARAMS:
        return 'CParam %s' % PARAMS[e.id]
    if isinstance(e, ast.Name) and e.id in LOCALS:
        return 'CLocal %s' % LOCALS[e.id]
    if isinstance(e, ast.Constant) and e.value is True:
        return 'CTrue'
    if isinstance(e, ast.Constant) and e.value is False:
        return 'CFalse'
    if isinstance(e, ast.UnaryOp) and isinstance(e.op, ast.Not):
        c = cond(e.operand)
        return None if c is None else 'CNot (%s)' % c
    if isinstance(e, ast.BoolOp):
        op = 'CAnd' if isinstance(e.op, ast.And) else 'COr'
        parts = [cond(v) for v in e.values]
        if any(p is None for p in parts):
            if all(p is None for p in parts):
                return None
            # a tracked condition mixed with an untracked one: the untracked part is adversarial
            parts = [p if p is not None else 'CEnv (E_untracked %d)' % CTX.fresh_untracked() for p in parts]
        r = parts[0]
        for p in parts[1:]:
            r = '%s (%s) (%s)' % (op, r, p)
        return r
    src = ast.unparse(e)
    if src in ('status is not Status.OK', 'status != Status.OK', 'Status.OK is not status', 'Status.OK != status'):
        return 'CNot (CStatusOK)'
    if src in ('status is Status.OK', 'status == Status.OK', 'Status.OK is status', 'Status.OK == status'):
        return 'CStatusOK'
    if src in ("'grpc-status' not in headers_map",):
        return 'CNot (CEnv E_has_grpc_status)'
    if src in ('message is None',):
        return 'CNot (CEnv E_got_message)'
    if src in ('self._cardinality.client_streaming',):
        return 'CClientStreaming'
    if src in ('self._cardinality.server_streaming',):
        return 'CServerStreaming'
    if src == 'status is Status.OK':
        return 'CStatusOK'
    if src in ('status != Status.OK', 'status is not Status.OK'):
        return 'CNot (CStatusOK)'
    if src == "'grpc-status' in headers_map":
        return 'CEnv E_has_grpc_status'
    if src == 'message is not None':
        return 'CEnv E_got_message'
    if src == 'self._stream.closable':
        return 'CEnv E_closable'
    if mentions_tracked_expr(e):
        raise Unsupported('condition: ' + src)
    return None


def mentions_tracked_expr(node):
    for n in ast.walk(node):
        if is_self_attr(n, FLAGS):
            return True
        if isinstance(n, ast.Name) and (n.id in LOCALS or n.id in PARAMS):
            return True
        if isinstance(n, ast.Await):
            return True
    return False


def is_headers_target(t):
    return isinstance(t, ast.Name) and t.id == 'headers'


def header_names(listnode):
    """[(name, value), ...] -> Coq list of hname; every element must be a 2-tuple with a known name"""
    out = []
    if not isinstance(listnode, (ast.List, ast.Tuple)):
        raise Unsupported('headers literal: ' + ast.unparse(listnode))
    for el in listnode.elts:
        if not (isinstance(el, ast.Tuple) and len(el.elts) == 2):
            raise Unsupported('header element: ' + ast.unparse(el))
        k = el.elts[0]
        key = k.value if isinstance(k, ast.Constant) else (k.id if isinstance(k, ast.Name) else None)
        if key not in HNAMES:
            raise Unsupported('header name: ' + ast.unparse(k))
        out.append(HNAMES[key])
    return out


def mentions_tracked(node):
    for n in ast.walk(node):
        if isinstance(n, (ast.Await, ast.Raise, ast.Return, ast.With, ast.Try, ast.While, ast.For,
                          ast.AsyncFor, ast.AsyncWith)):
            return True
        if is_self_attr(n, FLAGS):
            return True
        if isinstance(n, ast.Name) and n.id in LOCALS:
            return True
        if isinstance(n, ast.Name) and n.id in CTX.listvars:
            return True
        if isinstance(n, ast.Call):
            f = ast.unparse(n.func)
            if is_self_attr(n.func, HELPERS) or f in ('self._stream.reset_nowait',):
                return True
    return False


def kw(call, name):
    for k in call.keywords:
        if k.arg == name:
            return k.value
    return None


def await_ir(call, side):
    if not isinstance(call, ast.Call):
        raise Unsupported('await of a non-call: ' + ast.unparse(call))
    f = ast.unparse(call.func)
    if f == 'self._channel.__connect__':
        return 'SAwaitPrim PConnect'
    if f.startswith('self._dispatch.'):
        h = f.split('.')[-1]
        if h not in HOOKS:
            raise Unsupported('hook ' + h)
        return 'SAwaitHook H_%s' % h
    if f in ('self._stream.send_request', 'stream.send_request'):
        es = kw(call, 'end_stream')
        c = 'CFalse' if es is None else cond(es)
        if c is None:
            raise Unsupported('send_request end_stream: ' + ast.unparse(call))
        if not call.args:
            raise Unsupported('send_request without a header list: ' + ast.unparse(call))
        check_sent(call.args[0])
        return 'SAwaitPrim (PSendRequest (%s))' % c
    if f == 'self._stream.send_headers':
        es = kw(call, 'end_stream')
        if es is None:
            b = 'false'
        elif isinstance(es, ast.Constant) and es.value in (True, False):
            b = 'true' if es.value else 'false'
        else:
            raise Unsupported('send_headers end_stream: ' + ast.unparse(call))
        if len(call.args) != 1:
            raise Unsupported('send_headers argument: ' + ast.unparse(call))
        check_sent(call.args[0])
        return 'SAwaitPrim (PSendHeaders %s)' % b
    if f == 'self._stream.end':
        return 'SAwaitPrim PEnd'
    if f == 'self._stream.reset':
        return 'SAwaitPrim PReset'
    if f == 'self._stream.recv_headers':
        return 'SAwaitPrim PRecvHeaders'
    if f == 'self._stream.recv_trailers':
        return 'SAwaitPrim PRecvTrailers'
    if f == 'send_message':
        if not (call.args and ast.unparse(call.args[0]) == 'self._stream'):
            raise Unsupported('send_message stream arg')
        es = kw(call, 'end')
        c = 'CFalse' if es is None else cond(es)
        if c is None:
            raise Unsupported('send_message end: ' + ast.unparse(call))
        return 'SAwaitPrim (PSendData (%s))' % c
    if f == 'recv_message':
        if not (call.args and ast.unparse(call.args[0]) == 'self._stream'):
            raise Unsupported('recv_message stream arg')
        return 'SAwaitPrim PRecvMessage'
    if f.startswith('self.') and f[5:] in OPS:
        if call.args or call.keywords:
            raise Unsupported('self-call with arguments: ' + ast.unparse(call))
        return 'SAwaitSelf %s' % OPS[f[5:]]
    raise Unsupported('await: ' + ast.unparse(call))


def clist(items):
    return '[' + '; '.join(items) + ']'


def stmt(s, side):
    if isinstance(s, ast.Expr) and isinstance(s.value, ast.Constant) and isinstance(s.value.value, str):
        return []                                   # docstring
    if not mentions_tracked(s):
        return ['SOpaque']
    if isinstance(s, ast.If):
        c = cond(s.test)
        if mentions_list(s):
            t, e = list_branches(s, side)
        else:
            t, e = block(s.body, side), block(s.orelse, side)
        if c is None:
            only = all(x in ('SOpaque', 'SEncodeMetadata') or x.startswith('SHeadersAdd')
                       or x.startswith('SHeadersNew') for x in t + e)
            if not only:
                raise Unsupported('tracked statement under an untracked condition, line %d' % s.lineno)
            if all(x == 'SOpaque' for x in t + e):
                return ['SOpaque']
            c = 'CEnv (E_untracked %d)' % CTX.fresh_untracked()
        return ['SIf (%s) %s %s' % (c, clist(t), clist(e))]
    if isinstance(s, ast.Raise):
        exc = s.exc
        name = ast.unparse(exc.func) if isinstance(exc, ast.Call) else ast.unparse(exc)
        if name not in EXNS:
            raise Unsupported('raise ' + name)
        return ['SRaise %s' % EXNS[name]]
    if isinstance(s, ast.Return):
        return ['SReturn']
    if isinstance(s, ast.With):
        if len(s.items) == 1 and ast.unparse(s.items[0].context_expr) == 'self._wrapper' \
                and s.items[0].optional_vars is None:
            return ['SGuarded %s' % clist(block(s.body, side))]
        raise Unsupported('with: ' + ast.unparse(s.items[0].context_expr))
    if isinstance(s, (ast.Assign, ast.Expr, ast.AugAssign)) and mentions_list(s) \
            and not any(isinstance(n, ast.Await) for n in ast.walk(s)):
        if isinstance(s, ast.Assign) and isinstance(s.value, ast.IfExp) and len(s.targets) == 1:
            # `v = A if c else B` is `if c: v = A else: v = B`
            mk = lambda val: ast.copy_location(ast.Assign(targets=s.targets, value=val), s)   # noqa: E731
            node = ast.copy_location(ast.If(test=s.value.test, body=[mk(s.value.body)], orelse=[mk(s.value.orelse)]), s)
            ast.fix_missing_locations(node)
            return stmt(node, side)
        return list_stmt(s, side)
    if isinstance(s, (ast.Assign, ast.Expr, ast.AnnAssign)):
        val = s.value
        aw = [n for n in ast.walk(s) if isinstance(n, ast.Await)]
        if len(aw) > 1:
            raise Unsupported('several awaits in one statement')
        if aw:
            if val is not aw[0]:
                raise Unsupported('await not at the top of the statement: ' + ast.unparse(s))
            return [await_ir(aw[0].value, side)]
        targets = s.targets if isinstance(s, ast.Assign) else ([s.target] if isinstance(s, ast.AnnAssign) else [])
        if len(targets) == 1:
            t = targets[0]
            if is_self_attr(t, FLAGS):
                if isinstance(val, ast.Constant) and val.value in (True, False):
                    return ['SSetFlag %s %s' % (FLAGS[t.attr], 'true' if val.value else 'false')]
                raise Unsupported('flag := non-constant')
            if isinstance(t, ast.Name) and t.id in LOCALS:
                c = cond(val)
                if c is None:
                    raise Unsupported('tracked local := untracked value')
                return ['SSetLocal %s (%s)' % (LOCALS[t.id], c)]
        if isinstance(val, ast.Call):
            f = ast.unparse(val.func)
            if f == 'self._stream.reset_nowait':
                return ['SResetNowait']
        for n in ast.walk(s):
            if isinstance(n, ast.Call) and is_self_attr(n.func, HELPERS):
                return ['SHelper %s' % HELPERS[n.func.attr]]
        raise Unsupported('assign/expr: ' + ast.unparse(s)[:100])
    raise Unsupported(type(s).__name__ + ': ' + ast.unparse(s)[:80])


def list_branches(s, side):
    """both branches of an `if` that touches header lists: each branch may extend (or create) ONE list variable,
    the same in both, by exactly the header statements it emits; the `if` then counts as one composite op"""
    pre_content = {k: list(v) for k, v in CTX.content.items()}
    pre_alias = {k: id(v) for k, v in CTX.content.items()}
    pre_emitted = list(CTX.emitted)
    results = []
    for branch in (s.body, s.orelse):
        CTX.content = {k: list(v) for k, v in pre_content.items()}
        # keep aliasing between names that shared one list object
        groups = {}
        for k, i in pre_alias.items():
            groups.setdefault(i, []).append(k)
        for names in groups.values():
            for n in names[1:]:
                CTX.content[n] = CTX.content[names[0]]
        CTX.emitted = list(pre_emitted)
        ir = block(branch, side)
        added = CTX.emitted[len(pre_emitted):]
        changed = {}
        for k, v in CTX.content.items():
            if k not in pre_content or v != pre_content[k]:
                changed[k] = list(v)
        results.append((ir, added, changed))
    (t, add_t, ch_t), (e, add_e, ch_e) = results
    CTX.content = {k: list(v) for k, v in pre_content.items()}
    groups = {}
    for k, i in pre_alias.items():
        groups.setdefault(i, []).append(k)
    for names in groups.values():
        for n in names[1:]:
            CTX.content[n] = CTX.content[names[0]]
    CTX.emitted = list(pre_emitted)
    if not add_t and not add_e and not ch_t and not ch_e:
        return t, e
    touched = set(ch_t) | set(ch_e)
    roots = {}
    for v in touched:
        roots.setdefault(pre_alias.get(v, v), []).append(v)
    if len(roots) != 1:
        raise Unsupported('an `if` that changes several header lists, line %d' % getattr(s, 'lineno', 0))
    vs = list(roots.values())[0]
    v = vs[0]
    base = pre_content.get(v)
    for ch, added in ((ch_t, add_t), (ch_e, add_e)):
        got = ch.get(v, base)
        if got is None:
            raise Unsupported('header list %s created in only one branch, line %d' % (v, getattr(s, 'lineno', 0)))
        want = (added if (v in ch and (base is None or got[:len(base)] != base)) else (base or []) + added)
        if got != want:
            raise Unsupported('branch does not extend header list %s in program order, line %d'
                              % (v, getattr(s, 'lineno', 0)))
    fresh_both = all(v in ch and (base is None or ch[v][:len(base)] != base or not base) and v in ch
                     for ch in (ch_t, ch_e)) and (base is None)
    k = CTX.new_op()
    if base is None or fresh_both:
        new = [k]
    else:
        # a branch that re-creates the list from scratch while the other extends it is not expressible
        for ch in (ch_t, ch_e):
            if v in ch and ch[v][:len(base)] != base:
                raise Unsupported('header list %s re-created in a branch, line %d' % (v, getattr(s, 'lineno', 0)))
        new = base + [k]
    for n in vs:
        CTX.content[n] = new
    for n, i in pre_alias.items():
        if i == pre_alias.get(v) and n not in vs:
            CTX.content[n] = new
    return t, e


def block(ss, side):
    out = []
    for s in ss:
        r = stmt(s, side)
        for x in r:
            if x == 'SOpaque' and out and out[-1] == 'SOpaque':
                continue
            out.append(x)
    return out


class _RenameSelfAttrs(ast.NodeTransformer):
    def __init__(self, attr_map, name_map):
        self.attr_map, self.name_map = attr_map, name_map

    def visit_Attribute(self, node):
        node = self.generic_visit(node)
        if isinstance(node.value, ast.Name) and node.value.id == 'self' and node.attr in self.attr_map:
            node.attr = self.attr_map[node.attr]
        return node

    def visit_Name(self, node):
        if node.id in self.name_map:
            node.id = self.name_map[node.id]
        return node


WIRE_METHODS = {'send_headers', 'recv_headers', 'recv_trailers', 'reset_nowait'}


def role_names(fn_nodes):
    """The private attributes of `self` the IR talks about, found by the role they play in the coroutines rather
    than by their spelling: the guard (`with self.X:`), the protocol-level stream (`self.X.send_headers(...)`,
    `recv_headers`, `recv_trailers`, `reset_nowait`), the dispatcher (`await self.X.<hook>(...)`), the channel
    (`self.X.__connect__()`), the cardinality (`self.X.client_streaming`).  A role is renamed to its canonical
    name only when exactly one attribute plays it."""
    cand = {'_wrapper': set(), '_stream': set(), '_dispatch': set(), '_channel': set(), '_cardinality': set()}
    for fn in fn_nodes:
        for n in ast.walk(fn):
            if isinstance(n, ast.With):
                for it in n.items:
                    if is_self_attr(it.context_expr) and it.optional_vars is None:
                        cand['_wrapper'].add(it.context_expr.attr)
            if isinstance(n, ast.Attribute) and is_self_attr(n.value):
                if n.attr in WIRE_METHODS:
                    cand['_stream'].add(n.value.attr)
                elif n.attr == '__connect__':
                    cand['_channel'].add(n.value.attr)
                elif n.attr in ('client_streaming', 'server_streaming'):
                    cand['_cardinality'].add(n.value.attr)
            if isinstance(n, ast.Await) and isinstance(n.value, ast.Call) and isinstance(n.value.func, ast.Attribute) \
                    and is_self_attr(n.value.func.value) and n.value.func.attr in HOOKS \
                    and n.value.func.value.attr not in cand['_stream']:
                cand['_dispatch'].add(n.value.func.value.attr)
    cand['_dispatch'] -= cand['_stream']
    out = {}
    for canon, names in cand.items():
        if len(names) == 1:
            (actual,) = names
            if actual != canon:
                out[actual] = canon
    # a renamed role must not collide with an attribute that already carries the canonical name
    return out


def local_roles(fn):
    """locals the IR talks about, by role: the value received by `recv_message(...)` is `message`, the dict made of
    the received headers is `headers_map`, the local handed over as `end=` to `send_message(...)` is `end_stream`,
    the protocol stream a client creates (`<x>.send_request(headers, ...)`) is `stream`"""
    m = {}
    for n in ast.walk(fn):
        if isinstance(n, ast.Assign) and len(n.targets) == 1 and isinstance(n.targets[0], ast.Name):
            v = n.value
            if isinstance(v, ast.Await) and isinstance(v.value, ast.Call) and isinstance(v.value.func, ast.Name) \
                    and v.value.func.id == 'recv_message':
                m[n.targets[0].id] = 'message'
            if isinstance(v, ast.Call) and isinstance(v.func, ast.Name) and v.func.id == 'dict' and len(v.args) == 1 \
                    and isinstance(v.args[0], ast.Name):
                src = v.args[0].id
                for k in ast.walk(fn):
                    if isinstance(k, ast.Assign) and len(k.targets) == 1 and isinstance(k.targets[0], ast.Name) \
                            and k.targets[0].id == src and isinstance(k.value, ast.Await) \
                            and isinstance(k.value.value, ast.Call) \
                            and ast.unparse(k.value.value.func).endswith('.recv_headers'):
                        m[n.targets[0].id] = 'headers_map'
        if isinstance(n, ast.Call) and isinstance(n.func, ast.Name) and n.func.id == 'send_message':
            e = kw(n, 'end')
            if isinstance(e, ast.Name) and e.id not in PARAMS:
                m[e.id] = 'end_stream'
        if isinstance(n, ast.Await) and isinstance(n.value, ast.Call) and isinstance(n.value.func, ast.Attribute) \
                and n.value.func.attr == 'send_request' and isinstance(n.value.func.value, ast.Name) \
                and n.value.func.value.id != 'self':
            m[n.value.func.value.id] = 'stream'
    m = {a: b for a, b in m.items() if a != b}
    taken = {x.id for x in ast.walk(fn) if isinstance(x, ast.Name)}
    if len(set(m.values())) != len(m) or any(b in taken for b in m.values()):
        return {}
    return m


def canonical(tree, name, cls='Stream'):
    """the coroutine in canonical form (tools/pynorm.py): private helpers other than the modelled ones inlined,
    tests in negation normal form, early-exit form, single-use temporaries inlined"""
    try:
        fn = pynorm.canonical_function(tree, cls, name, keep=lambda n: n in HELPERS)
    except pynorm.Unsupported as e:
        raise Unsupported('normalisation of %s: %s' % (name, e))
    return fn


def methods(tree, cls, names):
    for n in tree.body:
        if isinstance(n, ast.ClassDef) and n.name == cls:
            ms = {m.name: m for m in n.body if isinstance(m, ast.AsyncFunctionDef)}
            missing = [x for x in names if x not in ms]
            if missing:
                raise Unsupported('missing coroutine(s) %s in %s' % (missing, cls))
            return ms
    raise Unsupported('class ' + cls)


def check_params(fn, allowed):
    """the coroutine's own parameters must be the ones the IR knows about"""
    names = [a.arg for a in fn.args.args + fn.args.kwonlyargs if a.arg != 'self']
    for n in names:
        if n not in allowed:
            raise Unsupported('parameter %s of %s' % (n, fn.name))
    if 'end' in names:
        d = dict(zip([a.arg for a in fn.args.kwonlyargs], fn.args.kw_defaults))
        if not (isinstance(d.get('end'), ast.Constant) and d['end'].value is False):
            raise Unsupported('default of `end` in ' + fn.name)


def pretty(items, ind=2):
    """multi-line rendering of a Coq list of stmt terms"""
    return '[\n' + ';\n'.join(' ' * ind + x for x in items) + '\n]'


def generate(repo):
    L = ['(* GENERATED by tools/skeleton_ir.py from %s -- do not edit; rewritten on every run *)' % repo,
         'From Coq Require Import List Bool.', 'From GV Require Import Model.StreamIR.',
         'Import ListNotations.', '']
    for side, rel, names, allowed in [
            ('client', 'grpclib/client.py', CLIENT_OPS, {'end', 'message'}),
            ('server', 'grpclib/server.py', SERVER_OPS,
             {'message', 'metadata', 'status', 'status_message', 'status_details'})]:
        with open(os.path.join(repo, rel)) as f:
            tree = ast.parse(f.read(), rel)
        ms = methods(tree, 'Stream', names)
        fns = {name: canonical(tree, name) for name in names}
        attr_map = role_names(list(fns.values()))
        for name in names:
            check_params(ms[name], allowed)
            fn = _RenameSelfAttrs(attr_map, {}).visit(fns[name])
            fn = _RenameSelfAttrs({}, local_roles(fn)).visit(fn)
            CTX.untracked = 0
            CTX.reset_lists(fn)
            body = block(fn.body, side)
            L.append('Definition %s_%s : program := %s.' % (side, name, pretty(body)))
            L.append('')
        L.append('Definition %s_ops : optable := [%s].' % (
            side, '; '.join('(%s, %s_%s)' % (OPS[n], side, n) for n in names)))
        L.append('')
    return '\n'.join(L) + '\n'


if __name__ == '__main__':
    import sys
    sys.stdout.write(generate(os.environ.get('VERIF_REPO', '/repo')))
