"""facts_C05.py -- per-property translator of C05 (run by tools/regen.py -> coq/Gen/FactsC05.v).

Only the Python `ast` is used; what cannot be understood raises Unsupported (fail-closed: regen.py
then removes Gen/FactsC05.v, so exactly the C05 proofs stop compiling).  The facts are about MEANING,
not spelling: local names, annotations, comments, docstrings, a closure versus a bound method, a
temporary versus an inlined expression, private helpers of the same class (seen through), nested
`with` versus `with a, b` do not matter.

Emitted facts (both are used by Model/ServerDeadline.v `expired_status`)
  handler_with_order   the ROLES of the context managers entered around the awaited handler call in
                       grpclib/server.py request_handler, outermost first: CMDeadline = the object
                       returned by `<DeadlineWrapper>.start(..)` (or nullcontext()), CMWrapper = the
                       Wrapper / DeadlineWrapper instance itself.  Entering the wrapper FIRST would
                       make the request task a member before start() cancels it for an expired deadline.
  start_expired        what utils.DeadlineWrapper.start does on the path where time_remaining() is
                       falsy, as the sequence over {SA_cancel = self.cancel(<TimeoutError>),
                       SA_raise = raise <TimeoutError>} in execution order.
"""
import ast

from extract_facts import Unsupported, parse, func_node, class_node
import pynorm

WRAPPER_CLASSES = {'Wrapper', 'DeadlineWrapper'}


# ---- request_handler: roles of the context managers ------------------------------------------------

class _Item:
    """the i-th component of a tuple-valued expression (target of `a, b = <expr>`)"""
    def __init__(self, value, index):
        self.value, self.index = value, index


def _assign_values(fn):
    """name -> list of value expressions ever assigned to it in fn (all branches)"""
    out = {}
    for n in ast.walk(fn):
        if isinstance(n, ast.Assign):
            for t in n.targets:
                if isinstance(t, ast.Name):
                    out.setdefault(t.id, []).append(n.value)
                elif isinstance(t, (ast.Tuple, ast.List)):
                    for i, e in enumerate(t.elts):
                        if isinstance(e, ast.Name):
                            out.setdefault(e.id, []).append(_Item(n.value, i))
        elif isinstance(n, ast.AnnAssign) and n.value is not None and isinstance(n.target, ast.Name):
            out.setdefault(n.target.id, []).append(n.value)
        elif isinstance(n, ast.NamedExpr) and isinstance(n.target, ast.Name):
            out.setdefault(n.target.id, []).append(n.value)
    return out


def _components(expr, index, env, seen):
    """the expressions the index-th component of a tuple-valued expression can be; None = unknown"""
    if isinstance(expr, (ast.Tuple, ast.List)):
        return [expr.elts[index]] if index < len(expr.elts) else None
    if isinstance(expr, ast.IfExp):
        a = _components(expr.body, index, env, seen)
        b = _components(expr.orelse, index, env, seen)
        return None if a is None or b is None else a + b
    if isinstance(expr, ast.Name) and expr.id in env and expr.id not in seen:
        out = []
        for v in env[expr.id]:
            if isinstance(v, _Item):
                return None
            c = _components(v, index, env, seen + (expr.id,))
            if c is None:
                return None
            out += c
        return out
    return None


def _role(expr, env, seen=()):
    """'deadline' | 'wrapper' | None for a context-manager expression"""
    if isinstance(expr, _Item):
        comps = _components(expr.value, expr.index, env, seen)
        if not comps:
            return None
        roles = {_role(c, env, seen) for c in comps}
        return roles.pop() if len(roles) == 1 else None
    if isinstance(expr, ast.Call):
        f = expr.func
        if isinstance(f, ast.Attribute) and f.attr == 'start':
            return 'deadline' if _role(f.value, env, seen) == 'wrapper' else None
        if isinstance(f, ast.Name) and f.id == 'nullcontext':
            return 'deadline'                       # the no-deadline stand-in of start()
        if isinstance(f, ast.Name) and f.id in WRAPPER_CLASSES:
            return 'wrapper'
        if isinstance(f, ast.Attribute) and f.attr in WRAPPER_CLASSES:
            return 'wrapper'
        return None
    if isinstance(expr, ast.Name):
        if expr.id in seen or expr.id not in env:
            return None
        roles = {_role(v, env, seen + (expr.id,)) for v in env[expr.id]}
        return roles.pop() if len(roles) == 1 else None
    if isinstance(expr, ast.Attribute):             # e.g. _stream.wrapper bound in a chained assignment
        return None
    return None


def _has_await(nodes):
    return any(isinstance(x, ast.Await) for n in nodes for x in ast.walk(n))


def _assigned_callees(fn):
    """private module-level functions whose RESULT is bound to a name in fn (`x = _f(..)`, `a, b = _f(..)`,
    possibly awaited): the only helpers that can carry a context manager to the `with`"""
    out = set()
    for n in ast.walk(fn):
        if isinstance(n, (ast.Assign, ast.AnnAssign)) and n.value is not None:
            v = n.value.value if isinstance(n.value, ast.Await) else n.value
            if isinstance(v, ast.Call) and isinstance(v.func, ast.Name) and v.func.id.startswith('_'):
                out.add(v.func.id)
    return out


def _with_order_of(fn):
    """roles of the one `with` over the deadline context and the wrapper in fn; None when fn has none"""
    env = _assign_values(fn)

    def items_roles(w):
        return [_role(it.context_expr, env) for it in w.items]

    chains = []
    for n in ast.walk(fn):
        if isinstance(n, ast.With):
            roles = items_roles(n)
            if not any(roles):
                continue
            body = n.body
            # `with a:` immediately containing only `with b:` is `with a, b:`
            while len(body) == 1 and isinstance(body[0], ast.With) and any(items_roles(body[0])):
                roles = roles + items_roles(body[0])
                body = body[0].body
            chains.append((roles, body, n))
    # drop inner withs already absorbed into an outer chain
    outer = []
    for roles, body, n in chains:
        if not any(n is not m and any(x is n for x in ast.walk(m)) and any(r for r in rs)
                   for rs, _, m in chains):
            outer.append((roles, body))
    if not outer:
        return None
    if len(outer) != 1:
        raise Unsupported('%s: %d `with` statements over the deadline context / the wrapper'
                          % (fn.name, len(outer)))
    roles, body = outer[0]
    if sorted(r or '?' for r in roles) != ['deadline', 'wrapper']:
        raise Unsupported('%s: roles of the with items: %r' % (fn.name, roles))
    if not _has_await(body):
        raise Unsupported('%s: nothing is awaited inside the `with`' % fn.name)
    return roles


def _module_functions(tree):
    return {n.name: n for n in tree.body if isinstance(n, (ast.FunctionDef, ast.AsyncFunctionDef))}


def _reachable(tree, root):
    """module-level functions reachable from `root` through direct calls by name (the request may be served
    by a chain of private coroutines: request_handler -> _serve_request -> _call_method ...)"""
    funcs = _module_functions(tree)
    if root not in funcs:
        raise Unsupported('function ' + root)
    seen, todo = [], [root]
    while todo:
        f = todo.pop(0)
        if f in seen:
            continue
        seen.append(f)
        for n in ast.walk(funcs[f]):
            if isinstance(n, ast.Call) and isinstance(n.func, ast.Name) and n.func.id in funcs:
                todo.append(n.func.id)
    return seen


def with_order(repo):
    tree = parse(repo, 'grpclib/server.py')
    funcs = _module_functions(tree)
    found, errors = [], []
    for name in _reachable(tree, 'request_handler'):
        raw = funcs[name]
        if not any(isinstance(n, ast.With) for n in ast.walk(raw)):
            continue        # the `with` is written in exactly one function; callers only reach it
        # 1. as written; 2. with the private helpers whose result is bound to a name seen through (the others
        # -- _abort and the like -- cannot carry a context manager and stay calls); 3. everything inlined
        attempts = [lambda: raw,
                    lambda: pynorm.canonical_function(tree, None, name, temps=False,
                                                      keep=lambda n: n not in _assigned_callees(raw)),
                    lambda: pynorm.canonical_function(tree, None, name, temps=False)]
        errs, roles = [], None
        for get in attempts:
            try:
                roles = _with_order_of(get())
            except (Unsupported, pynorm.Unsupported) as e:
                errs.append(str(e))
                continue
            if roles is not None:
                break
        if roles is not None:
            found.append((name, roles))
        elif any('roles of the with items' in e or '`with` statements over' in e for e in errs):
            errors.append('%s: %s' % (name, ' | '.join(errs)))
    if errors:
        raise Unsupported('request path: ' + ' ; '.join(errors))
    if len(found) != 1:
        raise Unsupported('request path: expected exactly one `with` over the deadline context and the wrapper '
                          'in the functions reachable from request_handler, found %r' % (found,))
    return found[0][1]


# ---- DeadlineWrapper.start: the path taken when nothing remains -----------------------------------

def _replace(tree, old, new):
    """copy of `tree` in which the node object `old` is replaced by `new`"""
    import copy
    if tree is old:
        return new
    if not isinstance(tree, ast.AST):
        return tree
    t = copy.copy(tree)
    for field, v in ast.iter_fields(tree):
        if isinstance(v, list):
            setattr(t, field, [_replace(x, old, new) for x in v])
        elif isinstance(v, ast.AST):
            setattr(t, field, _replace(v, old, new))
    return t


def _is_timeout_ctor(e):
    if not isinstance(e, ast.Call):
        return False
    f = e.func
    return (isinstance(f, ast.Name) and f.id == 'TimeoutError') or \
        (isinstance(f, ast.Attribute) and f.attr == 'TimeoutError')


def _falsy_test(test, names):
    """does `test` hold exactly when the remaining time (one of `names`) is falsy / not positive?"""
    def is_rem(e):
        return isinstance(e, ast.Name) and e.id in names
    if isinstance(test, ast.UnaryOp) and isinstance(test.op, ast.Not) and is_rem(test.operand):
        return True
    if isinstance(test, ast.Compare) and len(test.ops) == 1 and is_rem(test.left) and \
            isinstance(test.comparators[0], ast.Constant) and test.comparators[0].value == 0 and \
            isinstance(test.ops[0], (ast.Eq, ast.LtE)):
        return True
    return False


def _truthy_test(test, names):
    if isinstance(test, ast.Name) and test.id in names:
        return True
    if isinstance(test, ast.Compare) and len(test.ops) == 1 and isinstance(test.left, ast.Name) and \
            test.left.id in names and isinstance(test.comparators[0], ast.Constant) and \
            test.comparators[0].value == 0 and isinstance(test.ops[0], (ast.Gt, ast.NotEq)):
        return True
    return False


class _Ctx:
    def __init__(self, classes):
        self.classes = classes            # the class and its bases defined in the same module

    def helper(self, name):
        for c in self.classes:
            for m in c.body:
                if isinstance(m, ast.FunctionDef) and m.name == name:
                    return m
        return None


def _eval(e, ctx, errs, depth):
    """(actions performed while evaluating e, e is a TimeoutError instance); private argument-less methods
    of the class are seen through (their effects happen, their `return` value is the value)"""
    if _is_timeout_ctor(e):
        return [], True
    if isinstance(e, ast.Name):
        return [], e.id in errs
    if isinstance(e, ast.NamedExpr) and isinstance(e.target, ast.Name):
        acts, is_err = _eval(e.value, ctx, errs, depth)
        if is_err:
            errs.add(e.target.id)
        return acts, is_err
    if isinstance(e, ast.Call) and isinstance(e.func, ast.Attribute) and isinstance(e.func.value, ast.Name) \
            and e.func.value.id == 'self' and e.func.attr.startswith('_') and not e.args and not e.keywords \
            and depth < 4:
        h = ctx.helper(e.func.attr)
        if h is not None:
            local = set()
            acts, ret = _run(h.body, ctx, local, depth + 1)
            return acts, ret == 'error'
    raise Unsupported('DeadlineWrapper.start: expired path evaluates ' + ast.unparse(e))


def _run(stmts, ctx, errs, depth=0):
    """straight-line execution: (cancel / raise actions, how it ends: 'raise' | 'error' (returns a
    TimeoutError) | 'value' (returns something else / falls off the end))"""
    acts = []
    for s in stmts:
        if isinstance(s, ast.Expr) and isinstance(s.value, ast.Constant):
            continue                                                  # docstring
        if isinstance(s, ast.Pass):
            continue
        if isinstance(s, (ast.Assign, ast.AnnAssign)) and s.value is not None:
            tgts = s.targets if isinstance(s, ast.Assign) else [s.target]
            if all(isinstance(t, ast.Name) for t in tgts):
                a, is_err = _eval(s.value, ctx, errs, depth)
                acts += a
                if is_err:
                    errs.update(t.id for t in tgts)
                    continue
            raise Unsupported('DeadlineWrapper.start: expired path assigns ' + ast.unparse(s))
        if isinstance(s, ast.Expr) and isinstance(s.value, ast.Call):
            c = s.value
            f = c.func
            if isinstance(f, ast.Attribute) and isinstance(f.value, ast.Name) and f.value.id == 'self':
                if f.attr == 'cancel' and len(c.args) == 1 and not c.keywords:
                    a, is_err = _eval(c.args[0], ctx, errs, depth)
                    if is_err:
                        acts += a + ['SA_cancel']
                        continue
                elif f.attr.startswith('_') and not c.args and not c.keywords and ctx.helper(f.attr) is not None \
                        and depth < 4:
                    a, end = _run(ctx.helper(f.attr).body, ctx, set(), depth + 1)
                    acts += a
                    if end == 'raise':
                        return acts, 'raise'
                    continue
            raise Unsupported('DeadlineWrapper.start: expired path calls ' + ast.unparse(s))
        if isinstance(s, ast.Raise) and s.exc is not None and s.cause is None:
            a, is_err = _eval(s.exc, ctx, errs, depth)
            if is_err:
                return acts + a + ['SA_raise'], 'raise'               # nothing runs after the raise
            raise Unsupported('DeadlineWrapper.start: expired path raises ' + ast.unparse(s))
        if isinstance(s, ast.Return):
            if s.value is None:
                return acts, 'value'
            a, is_err = _eval(s.value, ctx, errs, depth)
            return acts + a, 'error' if is_err else 'value'
        raise Unsupported('DeadlineWrapper.start: expired path statement ' + ast.unparse(s))
    return acts, 'value'


def start_expired(repo):
    tree = parse(repo, 'grpclib/utils.py')
    cls = class_node(tree, 'DeadlineWrapper')
    fn = func_node(tree, 'start', 'DeadlineWrapper')
    params = [a.arg for a in fn.args.args][1:]
    rem = set()
    for i, s in enumerate(fn.body):
        if isinstance(s, ast.Expr) and isinstance(s.value, ast.Constant):
            continue
        if isinstance(s, (ast.Assign, ast.AnnAssign)) and s.value is not None and \
                isinstance(s.value, ast.Call) and isinstance(s.value.func, ast.Attribute) and \
                s.value.func.attr == 'time_remaining' and isinstance(s.value.func.value, ast.Name) and \
                s.value.func.value.id in params:
            tgts = s.targets if isinstance(s, ast.Assign) else [s.target]
            rem.update(t.id for t in tgts if isinstance(t, ast.Name))
            continue
        if isinstance(s, ast.If):
            # `if not (x := deadline.time_remaining()):` binds in the test
            test = s.test
            for w in [n for n in ast.walk(test) if isinstance(n, ast.NamedExpr)]:
                v = w.value
                if isinstance(w.target, ast.Name) and isinstance(v, ast.Call) and \
                        isinstance(v.func, ast.Attribute) and v.func.attr == 'time_remaining' and \
                        isinstance(v.func.value, ast.Name) and v.func.value.id in params:
                    rem.add(w.target.id)
                    test = _replace(test, w, ast.Name(id=w.target.id, ctx=ast.Load()))
            if not rem:
                raise Unsupported('DeadlineWrapper.start: test before the remaining time is known')
            s = ast.If(test=test, body=s.body, orelse=s.orelse)
            if _falsy_test(s.test, rem):
                branch = s.body
            elif _truthy_test(s.test, rem):
                branch = s.orelse
            else:
                raise Unsupported('DeadlineWrapper.start: test ' + ast.unparse(s.test))
            bases = [b.id for b in cls.bases if isinstance(b, ast.Name)]
            classes = [cls] + [c for c in tree.body if isinstance(c, ast.ClassDef) and c.name in bases]
            acts, end = _run(branch, _Ctx(classes), set())
            if end != 'raise':
                raise Unsupported('DeadlineWrapper.start: the expired path does not end in a raise')
            return acts
        raise Unsupported('DeadlineWrapper.start: statement before the expired test: ' + ast.unparse(s)[:80])
    raise Unsupported('DeadlineWrapper.start: no test of the remaining time')


def generate(repo):
    roles = with_order(repo)
    acts = start_expired(repo)
    cm = {'deadline': 'CMDeadline', 'wrapper': 'CMWrapper'}
    return '\n'.join([
        '(* GENERATED by tools/facts_C05.py from /repo -- do not edit; rewritten on every run *)',
        'From Coq Require Import List.',
        'Import ListNotations.',
        '',
        '(* roles of the context managers entered around the handler call in server.request_handler,',
        '   outermost first *)',
        'Inductive cm := CMDeadline | CMWrapper.',
        'Definition handler_with_order : list cm := [%s].' % '; '.join(cm[r] for r in roles),
        '',
        '(* utils.DeadlineWrapper.start on the path where nothing remains: cancel / raise, in order *)',
        'Inductive start_act := SA_cancel | SA_raise.',
        'Definition start_expired : list start_act := [%s].' % '; '.join(acts),
        '',
    ])


if __name__ == '__main__':
    import os
    import sys
    sys.stdout.write(generate(os.environ.get('VERIF_REPO', '/repo')))
