"""facts_C05.py -- per-property translator of C05 (run by tools/regen.py -> coq/Gen/FactsC05.v).

Only the Python `ast` is used; what cannot be understood raises Unsupported (fail-closed: regen.py
then removes Gen/FactsC05.v, so exactly the C05 proofs stop compiling).  The facts are about MEANING,
not spelling: local names, annotations, comments, docstrings, a closure versus a bound method, a
temporary versus an inlined expression, private helpers of the same class (seen through), nested
`with` versus `with a, b` do not matter.

Emitted facts (both are used by Model/ServerDeadline.v `expired_status`)
  handler_with_order   the ROLES of the context managers entered around the awaited handler call in
                       grpclib/server.py request_handler, outermost first: CMDeadline = the object
                       returned by `<DeadlineWrapper>.start(..)` (or nullcontext()), CMWrapper = the
                       Wrapper / DeadlineWrapper instance itself.  Entering the wrapper FIRST would
                       make the request task a member before start() cancels it for an expired deadline.
  start_expired        what utils.DeadlineWrapper.start does on the path where time_remaining() is
                       falsy, as the sequence over {SA_cancel = self.cancel(<TimeoutError>),
                       SA_raise = raise <TimeoutError>} in execution order.
"""
import ast

from extract_facts import Unsupported, parse, func_node, class_node
import pynorm

WRAPPER_CLASSES = {'Wrapper', 'DeadlineWrapper'}


# ---- request_handler: roles of the context managers ------------------------------------------------

class _Item:
    """the i-th component of a tuple-valued expression (target of `a, b = <expr>`)"""
    def __init__(self, value, index):
        self.value, self.index = value, index


def _assign_values(fn):
    """name -> list of value expressions ever assigned to it in fn (all branches)"""
    out = {}
    for n in ast.walk(fn):
        if isinstance(n, ast.Assign):
            for t in n.targets:
                if isinstance(t, ast.Name):
                    out.setdefault(t.id, []).append(n.value)
                elif isinstance(t, (ast.Tuple, ast.List)):
                    for i, e in enumerate(t.elts):
                        if isinstance(e, ast.Name):
                            out.setdefault(e.id, []).append(_Item(n.value, i))
        elif isinstance(n, ast.AnnAssign) and n.value is not None and isinstance(n.target, ast.Name):
            out.setdefault(n.target.id, []).append(n.value)
        elif isinstance(n, ast.NamedExpr) and isinstance(n.target, ast.Name):
            out.setdefault(n.target.id, []).append(n.value)
    return out


def _components(expr, index, env, seen):
    """the expressions the index-th component of a tuple-valued expression can be; None = unknown"""
    if isinstance(expr, (ast.Tuple, ast.List)):
        return [expr.elts[index]] if index < len(expr.elts) else None
    if isinstance(expr, ast.IfExp):
        a = _components(expr.body, index, env, seen)
        b = _components(expr.orelse, index, env, seen)
        return None if a is None or b is None else a + b
    if isinstance(expr, ast.Name) and expr.id in env and expr.id not in seen:
        out = []
        for v in env[expr.id]:
            if isinstance(v, _Item):
                return None
            c = _components(v, index, env, seen + (expr.id,))
            if c is None:
                return None
            out += c
        return out
    return None


def _role(expr, env, seen=()):
    """'deadline' | 'wrapper' | None for a context-manager expression"""
    if isinstance(expr, _Item):
        comps = _components(expr.value, expr.index, env, seen)
        if not comps:
            return None
        roles = {_role(c, env, seen) for c in comps}
        return roles.pop() if len(roles) == 1 else None
    if isinstance(expr, ast.Call):
        f = expr.func
        if isinstance(f, ast.Attribute) and f.attr == 'start':
            return 'deadline' if _role(f.value, env, seen) == 'wrapper' else None
        if isinstance(f, ast.Name) and f.id == 'nullcontext':
            return 'deadline'                       # the no-deadline stand-in of start()
        if isinstance(f, ast.Name) and f.id in WRAPPER_CLASSES:
            return 'wrapper'
        if isinstance(f, ast.Attribute) and f.attr in WRAPPER_CLASSES:
            return 'wrapper'
        return None
    if isinstance(expr, ast.Name):
        if expr.id in seen or expr.id not in env:
            return None
        roles = {_role(v, env, seen + (expr.id,)) for v in env[expr.id]}
        return roles.pop() if len(roles) == 1 else None
    if isinstance(expr, ast.Attribute):             # e.g. _stream.wrapper bound in a chained assignment
        return None
    return None


def _has_await(nodes):
    return any(isinstance(x, ast.Await) for n in nodes for x in ast.walk(n))


def _assigned_callees(fn):
    """private module-level functions whose RESULT is bound to a name in fn (`x = _f(..)`, `a, b = _f(..)`,
    possibly awaited): the only helpers that can carry a context manager to the `with`"""
    out = set()
    for n in ast.walk(fn):
        if isinstance(n, (ast.Assign, ast.AnnAssign)) and n.value is not None:
            v = n.value.value if isinstance(n.value, ast.Await) else n.value
            if isinstance(v, ast.Call) and isinstance(v.func, ast.Name) and v.func.id.startswith('_'):
                out.add(v.func.id)
    return out


def _with_order_of(fn):
    env = _assign_values(fn)

    def items_roles(w):
        return [_role(it.context_expr, env) for it in w.items]

    chains = []
    for n in ast.walk(fn):
        if isinstance(n, ast.With):
            roles = items_roles(n)
            if not any(roles):
                continue
            body = n.body
            # `with a:` immediately containing only `with b:` is `with a, b:`
            while len(body) == 1 and isinstance(body[0], ast.With) and any(items_roles(body[0])):
                roles = roles + items_roles(body[0])
                body = body[0].body
            chains.append((roles, body, n))
    # drop inner withs already absorbed into an outer chain
    outer = []
    for roles, body, n in chains:
        if not any(n is not m and any(x is n for x in ast.walk(m)) and any(r for r in rs)
                   for rs, _, m in chains):
            outer.append((roles, body))
    if len(outer) != 1:
        raise Unsupported('request_handler: expected one `with` over the deadline context and the wrapper, '
                          'found %d' % len(outer))
    roles, body = outer[0]
    if sorted(r or '?' for r in roles) != ['deadline', 'wrapper']:
        raise Unsupported('request_handler: roles of the with items: %r' % (roles,))
    if not _has_await(body):
        raise Unsupported('request_handler: nothing is awaited inside the `with`')
    return roles


def with_order(repo):
    tree = parse(repo, 'grpclib/server.py')
    raw = func_node(tree, 'request_handler')
    # 1. as written; 2. with the private helpers whose result is bound to a name seen through (the others
    # -- _abort and the like -- cannot carry a context manager and stay calls); 3. everything inlined
    attempts = [lambda: raw,
                lambda: pynorm.canonical_function(tree, None, 'request_handler', temps=False,
                                                  keep=lambda n: n not in _assigned_callees(raw)),
                lambda: pynorm.canonical_function(tree, None, 'request_handler', temps=False)]
    errors = []
    for get in attempts:
        try:
            return _with_order_of(get())
        except (Unsupported, pynorm.Unsupported) as e:
            errors.append(str(e))
    raise Unsupported('request_handler: ' + ' | '.join(errors))


# ---- DeadlineWrapper.start: the path taken when nothing remains -----------------------------------

def _is_timeout_ctor(e):
    if not isinstance(e, ast.Call):
        return False
    f = e.func
    return (isinstance(f, ast.Name) and f.id == 'TimeoutError') or \
        (isinstance(f, ast.Attribute) and f.attr == 'TimeoutError')


def _falsy_test(test, names):
    """does `test` hold exactly when the remaining time (one of `names`) is falsy / not positive?"""
    def is_rem(e):
        return isinstance(e, ast.Name) and e.id in names
    if isinstance(test, ast.UnaryOp) and isinstance(test.op, ast.Not) and is_rem(test.operand):
        return True
    if isinstance(test, ast.Compare) and len(test.ops) == 1 and is_rem(test.left) and \
            isinstance(test.comparators[0], ast.Constant) and test.comparators[0].value == 0 and \
            isinstance(test.ops[0], (ast.Eq, ast.LtE)):
        return True
    return False


def _truthy_test(test, names):
    if isinstance(test, ast.Name) and test.id in names:
        return True
    if isinstance(test, ast.Compare) and len(test.ops) == 1 and isinstance(test.left, ast.Name) and \
            test.left.id in names and isinstance(test.comparators[0], ast.Constant) and \
            test.comparators[0].value == 0 and isinstance(test.ops[0], (ast.Gt, ast.NotEq)):
        return True
    return False


def _expired_actions(stmts, cls, errs, depth=0):
    """the cancel / raise sequence of a straight-line statement list; private helpers of the class
    called without arguments are seen through"""
    acts = []
    for s in stmts:
        if isinstance(s, ast.Expr) and isinstance(s.value, ast.Constant):
            continue                                                  # docstring
        if isinstance(s, (ast.Assign, ast.AnnAssign)) and s.value is not None:
            tgts = s.targets if isinstance(s, ast.Assign) else [s.target]
            if _is_timeout_ctor(s.value) and all(isinstance(t, ast.Name) for t in tgts):
                errs.update(t.id for t in tgts)
                continue
            raise Unsupported('DeadlineWrapper.start: expired path assigns ' + ast.unparse(s))
        if isinstance(s, ast.Expr) and isinstance(s.value, ast.Call):
            c = s.value
            f = c.func
            if isinstance(f, ast.Attribute) and isinstance(f.value, ast.Name) and f.value.id == 'self':
                if f.attr == 'cancel' and len(c.args) == 1 and not c.keywords and \
                        (_is_timeout_ctor(c.args[0]) or
                         (isinstance(c.args[0], ast.Name) and c.args[0].id in errs)):
                    acts.append('SA_cancel')
                    continue
                if f.attr.startswith('_') and not c.args and not c.keywords and depth < 3:
                    helper = [m for m in cls.body if isinstance(m, ast.FunctionDef) and m.name == f.attr]
                    if len(helper) == 1:
                        acts += _expired_actions(helper[0].body, cls, errs, depth + 1)
                        continue
            raise Unsupported('DeadlineWrapper.start: expired path calls ' + ast.unparse(s))
        if isinstance(s, ast.Raise) and s.exc is not None and s.cause is None and \
                (_is_timeout_ctor(s.exc) or (isinstance(s.exc, ast.Name) and s.exc.id in errs)):
            acts.append('SA_raise')
            return acts                                               # nothing runs after the raise
        raise Unsupported('DeadlineWrapper.start: expired path statement ' + ast.unparse(s))
    return acts


def start_expired(repo):
    tree = parse(repo, 'grpclib/utils.py')
    cls = class_node(tree, 'DeadlineWrapper')
    fn = func_node(tree, 'start', 'DeadlineWrapper')
    params = [a.arg for a in fn.args.args][1:]
    rem = set()
    for i, s in enumerate(fn.body):
        if isinstance(s, ast.Expr) and isinstance(s.value, ast.Constant):
            continue
        if isinstance(s, (ast.Assign, ast.AnnAssign)) and s.value is not None and \
                isinstance(s.value, ast.Call) and isinstance(s.value.func, ast.Attribute) and \
                s.value.func.attr == 'time_remaining' and isinstance(s.value.func.value, ast.Name) and \
                s.value.func.value.id in params:
            tgts = s.targets if isinstance(s, ast.Assign) else [s.target]
            rem.update(t.id for t in tgts if isinstance(t, ast.Name))
            continue
        if isinstance(s, ast.If) and rem:
            if _falsy_test(s.test, rem):
                branch = s.body
            elif _truthy_test(s.test, rem):
                branch = s.orelse
            else:
                raise Unsupported('DeadlineWrapper.start: test ' + ast.unparse(s.test))
            acts = _expired_actions(branch, cls, set())
            if not acts or acts[-1] != 'SA_raise':
                raise Unsupported('DeadlineWrapper.start: the expired path does not end in a raise')
            return acts
        raise Unsupported('DeadlineWrapper.start: statement before the expired test: ' + ast.unparse(s)[:80])
    raise Unsupported('DeadlineWrapper.start: no test of the remaining time')


def generate(repo):
    roles = with_order(repo)
    acts = start_expired(repo)
    cm = {'deadline': 'CMDeadline', 'wrapper': 'CMWrapper'}
    return '\n'.join([
        '(* GENERATED by tools/facts_C05.py from /repo -- do not edit; rewritten on every run *)',
        'From Coq Require Import List.',
        'Import ListNotations.',
        '',
        '(* roles of the context managers entered around the handler call in server.request_handler,',
        '   outermost first *)',
        'Inductive cm := CMDeadline | CMWrapper.',
        'Definition handler_with_order : list cm := [%s].' % '; '.join(cm[r] for r in roles),
        '',
        '(* utils.DeadlineWrapper.start on the path where nothing remains: cancel / raise, in order *)',
        'Inductive start_act := SA_cancel | SA_raise.',
        'Definition start_expired : list start_act := [%s].' % '; '.join(acts),
        '',
    ])


if __name__ == '__main__':
    import os
    import sys
    sys.stdout.write(generate(os.environ.get('VERIF_REPO', '/repo')))
