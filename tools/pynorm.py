"""pynorm -- meaning-preserving normalisations of Python ASTs, shared by the source->Coq translators.

The translators are fail-closed on the *shape* of grpclib's source.  To make them depend on what the
source means rather than on how it is spelled, they normalise first:

  strip_noise(tree)          docstrings, annotations, `pass`
  inline_helpers(tree, ...)  a call to a private function/method of the same module/class is replaced by
                             its body (expression helpers anywhere; statement helpers at statement level)
  hoist_else(body)           `if c: <always exits> else: B`  ->  `if c: <always exits>` ; B
                             `try: S except E: <always exits> else: R`  ->  `try: ... except ...` ; R
                             so early-return chains and if/elif/else chains coincide
  single_exit(body, var)     the opposite direction, used when a helper body is spliced into a caller:
                             no `return` left, the result is assigned to `var`
  nnf_tests(tree)            `not` pushed inwards in test positions (De Morgan, `not a == b` -> `a != b`,
                             `if not c: A else: B` -> `if c: B else: A`)
  inline_temps(body)         `t = <pure expr>` used exactly once in the next statement -> inlined
  alpha_rename(fn)           local variables renamed v0, v1, ... in order of first binding

Every function returns new nodes (the input is not modified).  `Unsupported` is raised when a construct is
outside what the normaliser understands *and* matters (e.g. a `return` inside a loop when single_exit is
asked for); the translators treat that as any other unrecognised shape (fail-closed).
"""
import ast
import copy


class Unsupported(Exception):
    pass


# ------------------------------------------------------------------------------------------------
# noise

def _is_docstring(s):
    return isinstance(s, ast.Expr) and isinstance(s.value, ast.Constant) and isinstance(s.value.value, str)


class _Noise(ast.NodeTransformer):
    def _body(self, body):
        out = []
        for s in body:
            if _is_docstring(s) or isinstance(s, ast.Pass):
                continue
            r = self.visit(s)
            if r is None:
                continue
            out.extend(r if isinstance(r, list) else [r])
        return out or [ast.Pass()]

    def generic_visit(self, node):
        for field in ('body', 'orelse', 'finalbody'):
            v = getattr(node, field, None)
            if isinstance(v, list) and v and isinstance(v[0], ast.stmt):
                setattr(node, field, self._body(v))
            elif isinstance(v, list) and field != 'body':
                setattr(node, field, [])
        for field, v in ast.iter_fields(node):
            if field in ('body', 'orelse', 'finalbody') and isinstance(v, list) and (not v or isinstance(v[0], ast.stmt)):
                continue
            if isinstance(v, list):
                nv = []
                for x in v:
                    if isinstance(x, ast.AST):
                        x = self.visit(x)
                        if x is None:
                            continue
                    nv.append(x)
                setattr(node, field, nv)
            elif isinstance(v, ast.AST):
                setattr(node, field, self.visit(v))
        return node

    def visit_AnnAssign(self, node):
        if node.value is None:
            return None
        return ast.copy_location(ast.Assign(targets=[node.target], value=self.visit(node.value)), node)

    def visit_arg(self, node):
        node.annotation = None
        return node

    def _fn(self, node):
        node.returns = None
        node.type_comment = None
        return self.generic_visit(node)

    visit_FunctionDef = _fn
    visit_AsyncFunctionDef = _fn

    def visit_If(self, node):
        node = self.generic_visit(node)
        if len(node.orelse) == 1 and isinstance(node.orelse[0], ast.Pass):
            node.orelse = []
        return node

    def visit_Try(self, node):
        node = self.generic_visit(node)
        for f in ('orelse', 'finalbody'):
            v = getattr(node, f)
            if len(v) == 1 and isinstance(v[0], ast.Pass):
                setattr(node, f, [])
        return node


def strip_noise(tree):
    """docstrings, annotations (`x: T = v` -> `x = v`, `x: T` dropped), argument/return annotations, `pass`"""
    t = _Noise().visit(copy.deepcopy(tree))
    ast.fix_missing_locations(t)
    return t


# ------------------------------------------------------------------------------------------------
# control-flow helpers

def always_exits(body):
    """every path through the statement list ends in return or raise"""
    if not body:
        return False
    s = body[-1]
    if isinstance(s, (ast.Return, ast.Raise)):
        return True
    if isinstance(s, ast.If):
        return bool(s.orelse) and always_exits(s.body) and always_exits(s.orelse)
    if isinstance(s, (ast.With, ast.AsyncWith)):
        return always_exits(s.body)
    if isinstance(s, ast.Try):
        if s.finalbody and always_exits(s.finalbody):
            return True
        main = always_exits(s.body + s.orelse) if s.orelse else always_exits(s.body)
        return main and all(always_exits(h.body) for h in s.handlers)
    return False


def _contains(node_or_list, types, stop=(ast.FunctionDef, ast.AsyncFunctionDef, ast.Lambda, ast.ClassDef)):
    todo = list(node_or_list) if isinstance(node_or_list, list) else [node_or_list]
    while todo:
        n = todo.pop()
        if isinstance(n, types):
            return True
        for ch in ast.iter_child_nodes(n):
            if not isinstance(ch, stop):
                todo.append(ch)
    return False


def hoist_else(body):
    """Flat ("early exit") canonical form of a statement list, recursively."""
    out = []
    for s in body:
        s = copy.copy(s)
        if isinstance(s, ast.If):
            s.body = hoist_else(s.body)
            s.orelse = hoist_else(s.orelse)
            if s.orelse and always_exits(s.body):
                rest, s.orelse = s.orelse, []
                out.append(s)
                out.extend(rest)
                continue
        elif isinstance(s, (ast.With, ast.AsyncWith, ast.For, ast.AsyncFor, ast.While)):
            s.body = hoist_else(s.body)
            if getattr(s, 'orelse', None):
                s.orelse = hoist_else(s.orelse)
        elif isinstance(s, ast.Try):
            s.body = hoist_else(s.body)
            s.handlers = [copy.copy(h) for h in s.handlers]
            for h in s.handlers:
                h.body = hoist_else(h.body)
            s.orelse = hoist_else(s.orelse)
            s.finalbody = hoist_else(s.finalbody)
            if s.orelse and s.handlers and not s.finalbody and all(always_exits(h.body) for h in s.handlers):
                rest, s.orelse = s.orelse, []
                out.append(s)
                out.extend(rest)
                continue
        elif isinstance(s, (ast.FunctionDef, ast.AsyncFunctionDef)):
            s.body = hoist_else(s.body)
        elif isinstance(s, ast.ClassDef):
            s.body = hoist_else(s.body)
        out.append(s)
    return out


def expr_of_returns(stmts):
    """the expression computed by a body made only of `return e` and `if c: <such a body> [else: ...]`
    (conditional expression), or None when the body has any other statement"""
    if not stmts:
        return None
    s = stmts[0]
    if isinstance(s, ast.Return):
        return s.value if s.value is not None else ast.Constant(value=None)
    if isinstance(s, ast.If) and always_exits(s.body):
        a = expr_of_returns(s.body)
        b = expr_of_returns(list(s.orelse) + list(stmts[1:]))
        if a is None or b is None:
            return None
        return ast.IfExp(test=s.test, body=a, orelse=b)
    return None


def _assign(var, value):
    return ast.Assign(targets=[ast.Name(id=var, ctx=ast.Store())], value=value, lineno=0, col_offset=0)


def single_exit(body, var=None):
    """Statement list with the same effect as `body` (a function body) but without `return`: the returned
    value is assigned to `var` (if var is None the value must be None/absent or is evaluated and dropped).
    `return` inside loops, or inside try blocks with a finally/handlers that could intercept, is Unsupported."""
    def conv(stmts):
        out = []
        for i, s in enumerate(stmts):
            rest = stmts[i + 1:]
            if isinstance(s, ast.Return):
                if s.value is not None and not (isinstance(s.value, ast.Constant) and s.value.value is None and var is None):
                    out.append(_assign(var, s.value) if var else ast.Expr(value=s.value, lineno=0, col_offset=0))
                elif var:
                    out.append(_assign(var, ast.Constant(value=None)))
                return out                      # anything after a return is dead
            if not _contains(s, ast.Return):
                out.append(s)
                continue
            if isinstance(s, ast.If):
                s2 = copy.copy(s)
                t_exit, e_exit = always_exits(s.body), always_exits(s.orelse)
                if t_exit and (e_exit or not rest or True):
                    s2.body = conv(s.body)
                    s2.orelse = conv(list(s.orelse) + rest)
                    out.append(s2)
                    return out
                if e_exit:
                    s2.orelse = conv(s.orelse)
                    s2.body = conv(list(s.body) + rest)
                    out.append(s2)
                    return out
                raise Unsupported('return on some but not all paths of a branch, line %d' % getattr(s, 'lineno', 0))
            if isinstance(s, (ast.With, ast.AsyncWith)):
                if rest and not always_exits(s.body):
                    raise Unsupported('return inside a with block that is not in tail position')
                s2 = copy.copy(s)
                s2.body = conv(s.body)
                out.append(s2)
                if rest and always_exits(s.body):
                    return out
                continue
            if isinstance(s, ast.Try):
                # only the simplest case: returns in the try body / handlers, all in tail position, no finally
                if s.finalbody or rest and not always_exits([s]):
                    raise Unsupported('return inside try, line %d' % getattr(s, 'lineno', 0))
                s2 = copy.copy(s)
                if _contains(s.body, ast.Return) and s.orelse:
                    raise Unsupported('return inside try body with else')
                s2.body = conv(s.body) or [ast.Pass()]
                s2.handlers = []
                for h in s.handlers:
                    h2 = copy.copy(h)
                    h2.body = conv(h.body) or [ast.Pass()]
                    s2.handlers.append(h2)
                s2.orelse = conv(s.orelse)
                out.append(s2)
                if rest:
                    return out
                continue
            raise Unsupported('return inside %s' % type(s).__name__)
        return out
    return conv(list(body))


# ------------------------------------------------------------------------------------------------
# tests in negation normal form

_NEG = {ast.Eq: ast.NotEq, ast.NotEq: ast.Eq, ast.Is: ast.IsNot, ast.IsNot: ast.Is, ast.In: ast.NotIn,
        ast.NotIn: ast.In, ast.Lt: ast.GtE, ast.GtE: ast.Lt, ast.Gt: ast.LtE, ast.LtE: ast.Gt}


def negate(e, ordered=False):
    """the test `not e`, with the negation pushed inwards.  Ordering comparisons are only flipped when
    `ordered` (not (a < b) is not (a >= b) for NaN or partial orders)."""
    if isinstance(e, ast.IfExp):
        r = _truth_ifexp(e)
        if r is not None:
            return negate(r, ordered)
    if isinstance(e, ast.UnaryOp) and isinstance(e.op, ast.Not):
        return nnf(e.operand)
    if isinstance(e, ast.BoolOp):
        op = ast.Or() if isinstance(e.op, ast.And) else ast.And()
        return _flat(op, [negate(v, ordered) for v in e.values])
    if isinstance(e, ast.Compare) and len(e.ops) == 1:
        k = type(e.ops[0])
        if k in (ast.Eq, ast.NotEq, ast.Is, ast.IsNot, ast.In, ast.NotIn) or (ordered and k in _NEG):
            return ast.Compare(left=e.left, ops=[_NEG[k]()], comparators=e.comparators)
    if isinstance(e, ast.Constant) and e.value in (True, False):
        return ast.Constant(value=not e.value)
    return ast.UnaryOp(op=ast.Not(), operand=nnf(e))


def _flat(op, values):
    out = []
    for v in values:
        if isinstance(v, ast.BoolOp) and isinstance(v.op, type(op)):
            out.extend(v.values)
        else:
            out.append(v)
    return ast.BoolOp(op=op, values=out)


def _truth_ifexp(e):
    """`a if c else b` in a test position, when one arm is a boolean constant, as and/or (truth value only)"""
    c, a, b = e.test, e.body, e.orelse
    def const(x, v):
        return isinstance(x, ast.Constant) and x.value is v
    if const(a, True):
        return ast.BoolOp(op=ast.Or(), values=[c, b])
    if const(b, False):
        return ast.BoolOp(op=ast.And(), values=[c, a])
    if const(a, False):
        return ast.BoolOp(op=ast.And(), values=[ast.UnaryOp(op=ast.Not(), operand=c), b])
    if const(b, True):
        return ast.BoolOp(op=ast.Or(), values=[ast.UnaryOp(op=ast.Not(), operand=c), a])
    return None


def nnf(e):
    """a test expression with `not` pushed inwards, nested and/or flattened (truth value preserved; use only in
    test positions)"""
    if isinstance(e, ast.IfExp):
        r = _truth_ifexp(e)
        if r is not None:
            return nnf(r)
        return e
    if isinstance(e, ast.UnaryOp) and isinstance(e.op, ast.Not):
        return negate(e.operand)
    if isinstance(e, ast.BoolOp):
        return _flat(e.op, [nnf(v) for v in e.values])
    return e


class _NNF(ast.NodeTransformer):
    def visit_If(self, node):
        node = self.generic_visit(node)
        node.test = nnf(node.test)
        if (isinstance(node.test, ast.UnaryOp) and isinstance(node.test.op, ast.Not) and node.orelse
                and not (len(node.orelse) == 1 and isinstance(node.orelse[0], ast.If))):
            node.test, node.body, node.orelse = node.test.operand, node.orelse, node.body
        return node

    def visit_While(self, node):
        node = self.generic_visit(node)
        node.test = nnf(node.test)
        return node

    def visit_IfExp(self, node):
        node = self.generic_visit(node)
        node.test = nnf(node.test)
        if isinstance(node.test, ast.UnaryOp) and isinstance(node.test.op, ast.Not):
            node.test, node.body, node.orelse = node.test.operand, node.orelse, node.body
        return node

    def visit_Assert(self, node):
        node = self.generic_visit(node)
        node.test = nnf(node.test)
        return node


def nnf_tests(tree):
    t = _NNF().visit(copy.deepcopy(tree))
    ast.fix_missing_locations(t)
    return t


# ------------------------------------------------------------------------------------------------
# substitution and helper inlining

def _replace_node(tree, old, new):
    """copy of `tree` in which the node object `old` is replaced by `new`"""
    if tree is old:
        return new
    if not isinstance(tree, ast.AST):
        return tree
    t = copy.copy(tree)
    for field, v in ast.iter_fields(tree):
        if isinstance(v, list):
            setattr(t, field, [_replace_node(x, old, new) for x in v])
        elif isinstance(v, ast.AST):
            setattr(t, field, _replace_node(v, old, new))
    return t


class _Subst(ast.NodeTransformer):
    def __init__(self, mapping):
        self.m = mapping

    def visit_Name(self, node):
        if node.id in self.m:
            r = self.m[node.id]
            if isinstance(r, str):
                return ast.copy_location(ast.Name(id=r, ctx=node.ctx), node)
            if isinstance(node.ctx, ast.Load):
                return copy.deepcopy(r)
            raise Unsupported('assignment to a substituted parameter: ' + node.id)
        return node

    def visit_arg(self, node):
        if node.arg in self.m and isinstance(self.m[node.arg], str):
            node.arg = self.m[node.arg]
        return node

    def visit_ExceptHandler(self, node):
        if node.name in self.m and isinstance(self.m[node.name], str):
            node.name = self.m[node.name]
        return self.generic_visit(node)


def bound_names(fn_or_body):
    """names bound inside a function body (assignment targets, loop/with/except/comprehension variables,
    nested def names, imports), excluding nested function bodies; in order of first binding"""
    out = []

    def add(n):
        if n not in out:
            out.append(n)

    def walk(n):
        if isinstance(n, (ast.FunctionDef, ast.AsyncFunctionDef, ast.ClassDef)):
            add(n.name)
            return
        if isinstance(n, ast.Lambda):
            return
        if isinstance(n, ast.Name) and isinstance(n.ctx, (ast.Store, ast.Del)):
            add(n.id)
        if isinstance(n, ast.ExceptHandler) and n.name:
            add(n.name)
        if isinstance(n, ast.alias):
            add((n.asname or n.name).split('.')[0])
        for ch in ast.iter_child_nodes(n):
            walk(ch)
    body = fn_or_body.body if isinstance(fn_or_body, (ast.FunctionDef, ast.AsyncFunctionDef)) else fn_or_body
    for s in body:
        walk(s)
    return out


def _params(fn):
    a = fn.args
    if a.vararg or a.kwarg or a.posonlyargs:
        raise Unsupported('helper %s has *args/**kwargs/positional-only parameters' % fn.name)
    pos = [x.arg for x in a.args]
    defaults = dict(zip(pos[len(pos) - len(a.defaults):], a.defaults))
    kwonly = [x.arg for x in a.kwonlyargs]
    for n, d in zip(kwonly, a.kw_defaults):
        if d is not None:
            defaults[n] = d
    return pos, kwonly, defaults


def _simple(e):
    """an argument expression that may be substituted for a parameter wherever it is used: evaluating it has
    no effect and its value cannot change between the call and the use by anything the helper itself does
    to *locals* (attribute chains rooted at a name, constants, and tuples of those)"""
    if isinstance(e, ast.Constant):
        return True
    if isinstance(e, ast.Name):
        return True
    if isinstance(e, ast.Attribute):
        return _simple(e.value)
    return False


def _bind_call(fn, call, method):
    """mapping parameter -> argument expression for `call` of helper `fn` (method: drop self/cls)"""
    pos, kwonly, defaults = _params(fn)
    if method:
        pos = pos[1:]
    if any(isinstance(a, ast.Starred) for a in call.args) or any(k.arg is None for k in call.keywords):
        raise Unsupported('star-arguments in a helper call')
    if len(call.args) > len(pos):
        raise Unsupported('too many positional arguments for helper ' + fn.name)
    m = dict(zip(pos, call.args))
    for k in call.keywords:
        if k.arg not in pos + kwonly or k.arg in m:
            raise Unsupported('bad keyword %s for helper %s' % (k.arg, fn.name))
        m[k.arg] = k.value
    for p in pos + kwonly:
        if p not in m:
            if p not in defaults:
                raise Unsupported('missing argument %s for helper %s' % (p, fn.name))
            m[p] = defaults[p]
    return m, pos + kwonly


class Inliner:
    """Inline private helpers into the functions of one class (or of the module when cls is None).

    A helper is a function whose name starts with one underscore (not a dunder), defined in the same class
    (called as self._h(...), cls._h(...), ClassName._h(...)) or at module level (called as _h(...)), not
    recursive, not a generator, undecorated except staticmethod/classmethod, and for which keep(name) is
    false.  `keep` lets a translator retain helpers it models as units."""

    def __init__(self, tree, cls=None, keep=lambda name: False, max_depth=6):
        self.tree = tree
        self.cls = cls
        self.keep = keep
        self.max_depth = max_depth
        self.counter = 0
        self.module_funcs = {n.name: n for n in tree.body if isinstance(n, (ast.FunctionDef, ast.AsyncFunctionDef))}
        self.class_funcs = {}
        self.class_name = cls
        if cls is not None:
            for n in tree.body:
                if isinstance(n, ast.ClassDef) and n.name == cls:
                    self.class_funcs = {m.name: m for m in n.body
                                        if isinstance(m, (ast.FunctionDef, ast.AsyncFunctionDef))}
        self.public_names = set(self.module_funcs) | set(self.class_funcs)

    # -- which calls are helper calls
    def _private(self, name):
        return name.startswith('_') and not (name.startswith('__') and name.endswith('__')) and not self.keep(name)

    def resolve(self, call):
        """(fn, is_method) if `call` is a call of an inlinable helper, else None"""
        f = call.func
        if isinstance(f, ast.Name) and f.id in self.module_funcs and self._private(f.id):
            fn = self.module_funcs[f.id]
            return (fn, False) if self._ok(fn) else None
        if (isinstance(f, ast.Attribute) and isinstance(f.value, ast.Name)
                and f.value.id in ('self', 'cls', self.class_name) and f.attr in self.class_funcs
                and self._private(f.attr)):
            fn = self.class_funcs[f.attr]
            if not self._ok(fn):
                return None
            static = any(isinstance(d, ast.Name) and d.id == 'staticmethod' for d in fn.decorator_list)
            return fn, not static
        return None

    def _ok(self, fn):
        for d in fn.decorator_list:
            if not (isinstance(d, ast.Name) and d.id in ('staticmethod', 'classmethod')):
                return False
        if _contains(fn.body, (ast.Yield, ast.YieldFrom, ast.Global, ast.Nonlocal)):
            return False
        return True

    def fresh(self, base):
        self.counter += 1
        return '_%s_%d' % (base.strip('_'), self.counter)

    # -- expression helpers: body is `return <expr>`, or a chain of `if c: return a` ... `return b` (sync)
    def _expr_helper(self, fn):
        if not isinstance(fn, ast.FunctionDef):
            return None
        body = [s for s in fn.body if not _is_docstring(s) and not isinstance(s, ast.Pass)]
        return expr_of_returns(body)

    def inline_exprs(self, node, depth=0):
        """replace calls of expression helpers inside `node` (any AST) by the helper's expression"""
        outer = self

        class T(ast.NodeTransformer):
            def visit_Call(self, call):
                call = self.generic_visit(call)
                r = outer.resolve(call)
                if r is None:
                    return call
                fn, method = r
                e = outer._expr_helper(fn)
                if e is None:
                    return call
                m, order = _bind_call(fn, call, method)
                uses = {p: 0 for p in m}
                for n in ast.walk(e):
                    if isinstance(n, ast.Name) and n.id in uses:
                        uses[n.id] += 1
                for p, a in m.items():
                    if not _simple(a) and uses[p] != 1:
                        return call            # would duplicate or drop an evaluation: leave the call alone
                # argument evaluation order must be preserved when more than one argument is not simple
                if sum(1 for a in m.values() if not _simple(a)) > 1:
                    return call
                if depth >= outer.max_depth:
                    raise Unsupported('helper nesting too deep at ' + fn.name)
                e2 = _Subst(m).visit(copy.deepcopy(e))
                return outer.inline_exprs(e2, depth + 1)

            def visit_FunctionDef(self, n):
                return n

            visit_AsyncFunctionDef = visit_FunctionDef
            visit_Lambda = visit_FunctionDef
        return T().visit(node)

    # -- statement helpers
    def _splice(self, fn, method, call, result_var, depth):
        if depth >= self.max_depth:
            raise Unsupported('helper nesting too deep at ' + fn.name)
        m, order = _bind_call(fn, call, method)
        pre = []
        ren = {}
        assigned = set(bound_names(fn))
        for p in order:
            a = m[p]
            if _simple(a) and p not in assigned:
                ren[p] = a
            else:
                v = self.fresh(fn.name + '_' + p)
                pre.append(_assign(v, a))
                ren[p] = v
        for loc in bound_names(fn):
            if loc not in ren:
                ren[loc] = self.fresh(fn.name + '_' + loc)
        body = [s for s in copy.deepcopy(fn.body) if not _is_docstring(s)]
        # rename the helper's locals BEFORE the result is bound to the caller's variable: the caller's variable may
        # have the same name as a local of the helper (`protocol = await self._helper()`)
        body = [_Subst(ren).visit(s) for s in body]
        body = single_exit(body, result_var)
        body = [s for s in body if not isinstance(s, ast.Pass)]
        return pre + self.inline_body(body, depth + 1)

    def _call_of(self, value):
        """(call, awaited) when value is a helper call or an awaited helper call"""
        if isinstance(value, ast.Await) and isinstance(value.value, ast.Call):
            r = self.resolve(value.value)
            if r and isinstance(r[0], ast.AsyncFunctionDef):
                return value.value, r
            return None
        if isinstance(value, ast.Call):
            r = self.resolve(value)
            if r and isinstance(r[0], ast.FunctionDef):
                return value, r
        return None

    def _hoist(self, s):
        """[pre-statement, rewritten statement] when the simple statement `s` contains exactly one call of a
        statement helper in an expression position and everything evaluated before that call is pure;
        else None"""
        if not isinstance(s, (ast.Expr, ast.Assign, ast.Return, ast.AugAssign)) or s.value is None:
            return None
        found = []

        def order(e, before):
            """post-order walk in evaluation order; `before` collects the nodes fully evaluated so far;
            returns False when the shape is not understood"""
            if isinstance(e, ast.Await) and isinstance(e.value, ast.Call) and self._call_of(e) is not None:
                for a in list(e.value.args) + [k.value for k in e.value.keywords]:
                    if not order(a, before):
                        return False
                found.append((e, list(before)))
                before.append(e)
                return True
            if isinstance(e, ast.Call) and self._call_of(e) is not None and self._expr_helper(self._call_of(e)[1][0]) is None:
                for a in list(e.args) + [k.value for k in e.keywords]:
                    if not order(a, before):
                        return False
                found.append((e, list(before)))
                before.append(e)
                return True
            if isinstance(e, (ast.Constant, ast.Name)):
                before.append(e)
                return True
            if isinstance(e, ast.Attribute):
                ok = order(e.value, before)
                before.append(e)
                return ok
            if isinstance(e, ast.Call):
                if not order(e.func, before):
                    return False
                for a in list(e.args) + [k.value for k in e.keywords]:
                    if not order(a, before):
                        return False
                before.append(e)
                return True
            if isinstance(e, (ast.Tuple, ast.List, ast.Set)):
                for x in e.elts:
                    if not order(x, before):
                        return False
                before.append(e)
                return True
            if isinstance(e, ast.Starred):
                return order(e.value, before)
            if isinstance(e, ast.BinOp):
                ok = order(e.left, before) and order(e.right, before)
                before.append(e)
                return ok
            if isinstance(e, ast.UnaryOp):
                ok = order(e.operand, before)
                before.append(e)
                return ok
            if isinstance(e, ast.Compare):
                ok = order(e.left, before) and all(order(c, before) for c in e.comparators[:1])
                # later comparators are evaluated conditionally: they must not contain a helper call
                if any(self._has_stmt_helper(c) for c in e.comparators[1:]):
                    return False
                before.append(e)
                return ok
            if isinstance(e, ast.Subscript):
                ok = order(e.value, before) and order(e.slice, before)
                before.append(e)
                return ok
            if isinstance(e, ast.Await):
                ok = order(e.value, before)
                before.append(e)
                return ok
            # short-circuit / conditional / comprehension / lambda ...: fine as long as no helper call inside
            if self._has_stmt_helper(e):
                return False
            before.append(e)
            return True

        targets_ok = True
        if isinstance(s, ast.Assign):
            # targets are evaluated after the value; they must not contain helper calls
            targets_ok = not any(self._has_stmt_helper(t) for t in s.targets)
        if not targets_ok or not order(s.value, []):
            return None
        if len(found) != 1:
            return None
        node, before = found[0]
        if node is s.value:
            return None                       # statement-level call: handled by the caller
        if not all(_pure(b) for b in before):
            return None
        v = self.fresh('hoisted')
        pre = _assign(v, node)

        s2 = copy.copy(s)
        s2.value = _replace_node(s.value, node, ast.Name(id=v, ctx=ast.Load()))
        return [pre, s2]

    def _has_stmt_helper(self, e):
        for n in ast.walk(e):
            if isinstance(n, ast.Call):
                r = self.resolve(n)
                if r is not None and self._expr_helper(r[0]) is None:
                    return True
        return False

    def inline_body(self, body, depth=0):
        out = []
        body = list(body)
        i = 0
        expanded = []
        for s in body:
            h = self._hoist(s)
            expanded.extend(h if h else [s])
        for s in expanded:
            s = copy.copy(s)
            done = False
            if isinstance(s, (ast.Expr, ast.Assign, ast.Return)) and s.value is not None:
                c = self._call_of(s.value)
                if c is not None:
                    call, (fn, method) = c
                    if self._expr_helper(fn) is None or isinstance(s, ast.Expr):
                        call = self.inline_exprs_args(call)
                        if isinstance(s, ast.Expr):
                            out.extend(self._splice(fn, method, call, None, depth))
                        elif isinstance(s, ast.Assign):
                            if len(s.targets) == 1 and isinstance(s.targets[0], ast.Name):
                                out.extend(self._splice(fn, method, call, s.targets[0].id, depth))
                            else:
                                v = self.fresh(fn.name + '_result')
                                out.extend(self._splice(fn, method, call, v, depth))
                                out.append(ast.Assign(targets=s.targets, value=ast.Name(id=v, ctx=ast.Load()),
                                                      lineno=0, col_offset=0))
                        else:
                            v = self.fresh(fn.name + '_result')
                            out.extend(self._splice(fn, method, call, v, depth))
                            out.append(ast.Return(value=ast.Name(id=v, ctx=ast.Load()), lineno=0, col_offset=0))
                        done = True
            if done:
                continue
            # recurse into compound statements, inline expression helpers elsewhere
            for field in ('body', 'orelse', 'finalbody'):
                v = getattr(s, field, None)
                if isinstance(v, list) and v and isinstance(v[0], ast.stmt):
                    setattr(s, field, self.inline_body(v, depth))
            if isinstance(s, ast.Try):
                hs = []
                for h in s.handlers:
                    h = copy.copy(h)
                    h.body = self.inline_body(h.body, depth)
                    hs.append(h)
                s.handlers = hs
            if isinstance(s, (ast.FunctionDef, ast.AsyncFunctionDef, ast.ClassDef)):
                out.append(s)
                continue
            # expression positions of this statement (not its nested statement lists)
            for field, v in ast.iter_fields(s):
                if field in ('body', 'orelse', 'finalbody', 'handlers'):
                    continue
                if isinstance(v, ast.AST):
                    setattr(s, field, self.inline_exprs(copy.deepcopy(v), depth))
                elif isinstance(v, list):
                    setattr(s, field, [self.inline_exprs(copy.deepcopy(x), depth) if isinstance(x, ast.AST) else x
                                       for x in v])
            out.append(s)
        return out

    def inline_exprs_args(self, call):
        call = copy.copy(call)
        call.args = [self.inline_exprs(copy.deepcopy(a)) for a in call.args]
        call.keywords = [ast.keyword(arg=k.arg, value=self.inline_exprs(copy.deepcopy(k.value))) for k in call.keywords]
        return call

    def function(self, name):
        """the named function of the class/module with helpers inlined (a new FunctionDef node)"""
        fn = (self.class_funcs if self.cls else self.module_funcs).get(name)
        if fn is None:
            raise Unsupported('function %s not found' % name)
        fn2 = copy.copy(fn)
        fn2.body = self.inline_body(copy.deepcopy(fn.body))
        ast.fix_missing_locations(fn2)
        return fn2


def inline_helpers(tree, cls, name, keep=lambda n: False):
    return Inliner(tree, cls, keep).function(name)


# ------------------------------------------------------------------------------------------------
# temporaries and renaming

def _pure(e):
    """an expression whose evaluation has no effect and does not depend on evaluation order"""
    if isinstance(e, (ast.Constant, ast.Name)):
        return True
    if isinstance(e, ast.Attribute):
        return _pure(e.value)
    if isinstance(e, ast.Subscript):
        return _pure(e.value) and _pure(e.slice)
    if isinstance(e, (ast.Tuple, ast.List)):
        return all(_pure(x) for x in e.elts)
    if isinstance(e, ast.UnaryOp):
        return _pure(e.operand)
    if isinstance(e, ast.BoolOp):
        return all(_pure(v) for v in e.values)
    if isinstance(e, ast.Compare):
        return _pure(e.left) and all(_pure(c) for c in e.comparators)
    if isinstance(e, ast.IfExp):
        return _pure(e.test) and _pure(e.body) and _pure(e.orelse)
    if isinstance(e, ast.Call):
        f = e.func
        ok = (isinstance(f, ast.Name) and f.id in ('len', 'isinstance', 'bool', 'dict', 'tuple', 'list', 'min', 'max')) \
            or (isinstance(f, ast.Attribute) and f.attr in ('get',) and _pure(f.value))
        return ok and all(_pure(a) for a in e.args) and not e.keywords
    return False


def split_tuple_assign(body):
    """`a, b = x, y` with pure right-hand elements that mention none of the targets -> `a = x` ; `b = y`"""
    out = []
    for s in body:
        s = copy.copy(s)
        for field in ('body', 'orelse', 'finalbody'):
            v = getattr(s, field, None)
            if isinstance(v, list) and v and isinstance(v[0], ast.stmt) and not isinstance(s, ast.ClassDef):
                setattr(s, field, split_tuple_assign(v))
        if isinstance(s, ast.Try):
            hs = []
            for h in s.handlers:
                h = copy.copy(h)
                h.body = split_tuple_assign(h.body)
                hs.append(h)
            s.handlers = hs
        if (isinstance(s, ast.Assign) and len(s.targets) == 1 and isinstance(s.targets[0], (ast.Tuple, ast.List))
                and isinstance(s.value, (ast.Tuple, ast.List))
                and len(s.targets[0].elts) == len(s.value.elts)
                and all(isinstance(t, ast.Name) for t in s.targets[0].elts)
                and all(_pure(v) and not isinstance(v, ast.Starred) for v in s.value.elts)):
            tnames = {t.id for t in s.targets[0].elts}
            rnames = {n.id for v in s.value.elts for n in ast.walk(v) if isinstance(n, ast.Name)}
            if not (tnames & rnames) and len(tnames) == len(s.targets[0].elts):
                for t, v in zip(s.targets[0].elts, s.value.elts):
                    out.append(ast.Assign(targets=[t], value=v, lineno=0, col_offset=0))
                continue
        out.append(s)
    return out


def inline_temps(body):
    """`t = <pure expr>` immediately followed by a statement in which `t` is read exactly once, and `t` is
    used nowhere else in the list: the expression is inlined.  Applied recursively."""
    body = list(body)
    changed = True
    while changed:
        changed = False
        for i in range(len(body) - 1):
            s, nxt = body[i], body[i + 1]
            if not (isinstance(s, ast.Assign) and len(s.targets) == 1 and isinstance(s.targets[0], ast.Name)
                    and _pure(s.value)):
                continue
            t = s.targets[0].id
            others = body[:i] + body[i + 2:]
            if any(isinstance(n, ast.Name) and n.id == t for o in others for n in ast.walk(o)):
                continue
            reads = [n for n in ast.walk(nxt) if isinstance(n, ast.Name) and n.id == t]
            if len(reads) != 1 or not isinstance(reads[0].ctx, ast.Load):
                continue
            if isinstance(nxt, (ast.For, ast.AsyncFor, ast.While, ast.FunctionDef, ast.AsyncFunctionDef, ast.Try,
                                ast.With, ast.AsyncWith)):
                continue
            if isinstance(nxt, ast.If) and not any(n is reads[0] for n in ast.walk(nxt.test)):
                continue
            body[i + 1] = _Subst({t: s.value}).visit(copy.deepcopy(nxt))
            del body[i]
            changed = True
            break
    out = []
    for s in body:
        s = copy.copy(s)
        for field in ('body', 'orelse', 'finalbody'):
            v = getattr(s, field, None)
            if isinstance(v, list) and v and isinstance(v[0], ast.stmt) and not isinstance(s, ast.ClassDef):
                setattr(s, field, inline_temps(v))
        if isinstance(s, ast.Try):
            hs = []
            for h in s.handlers:
                h = copy.copy(h)
                h.body = inline_temps(h.body)
                hs.append(h)
            s.handlers = hs
        out.append(s)
    return out


def _calls_outside_raise(stmt):
    """does the statement call or await anything, other than to build the exception of a `raise`?"""
    if isinstance(stmt, ast.Raise):
        return False
    for field, v in ast.iter_fields(stmt):
        vs = v if isinstance(v, list) else [v]
        for x in vs:
            if isinstance(x, ast.stmt):
                if _calls_outside_raise(x):
                    return True
            elif isinstance(x, ast.ExceptHandler):
                if any(_calls_outside_raise(y) for y in x.body):
                    return True
            elif isinstance(x, ast.AST):
                for n in ast.walk(x):
                    if isinstance(n, (ast.Await, ast.Yield, ast.YieldFrom)):
                        return True
                    if isinstance(n, ast.Call) and not _pure(n):
                        return True
    return False


def inline_pure_multi(body):
    """`t = <pure expr>` (t bound once in the list) whose uses all lie in the following statements of the same
    list, with nothing between the binding and the last use that could change the expression's value (no call or
    await outside a `raise`, no store to a name or attribute the expression mentions): every use is replaced."""
    body = list(body)
    changed = True
    while changed:
        changed = False
        for i, s in enumerate(body):
            if not (isinstance(s, ast.Assign) and len(s.targets) == 1 and isinstance(s.targets[0], ast.Name)
                    and _pure(s.value) and not isinstance(s.value, (ast.Constant,))):
                continue
            if any(isinstance(n, ast.Call) for n in ast.walk(s.value)):
                continue
            t = s.targets[0].id
            rest = body[i + 1:]
            use_idx = [j for j, o in enumerate(rest)
                       if any(isinstance(n, ast.Name) and n.id == t for n in ast.walk(o))]
            if not use_idx:
                continue
            if any(isinstance(n, ast.Name) and n.id == t for o in body[:i] for n in ast.walk(o)):
                continue
            span = rest[:use_idx[-1] + 1]
            if any(isinstance(n, ast.Name) and n.id == t and not isinstance(n.ctx, ast.Load)
                   for o in span for n in ast.walk(o)):
                continue
            mentioned = {n.id for n in ast.walk(s.value) if isinstance(n, ast.Name)}
            attrs = {ast.unparse(n) for n in ast.walk(s.value) if isinstance(n, ast.Attribute)}
            bad = False
            for o in span:
                if _calls_outside_raise(o):
                    bad = True
                    break
                for n in ast.walk(o):
                    if isinstance(n, ast.Name) and isinstance(n.ctx, ast.Store) and n.id in mentioned:
                        bad = True
                    if isinstance(n, ast.Attribute) and isinstance(n.ctx, ast.Store) and ast.unparse(n) in attrs:
                        bad = True
            if bad:
                continue
            new = [_Subst({t: s.value}).visit(copy.deepcopy(o)) for o in span]
            body = body[:i] + new + rest[len(span):]
            changed = True
            break
    return body


def coalesce_copies(body, params=()):
    """`x = y` at the top level of the list, where y is a local all of whose bindings come earlier in the list and
    which is not mentioned afterwards, and x is not mentioned before: y is renamed x everywhere and the copy is
    dropped (a helper's result variable spliced into its caller)."""
    body = list(body)
    changed = True
    while changed:
        changed = False
        for i, s in enumerate(body):
            if not (isinstance(s, ast.Assign) and len(s.targets) == 1 and isinstance(s.targets[0], ast.Name)
                    and isinstance(s.value, ast.Name)):
                continue
            x, y = s.targets[0].id, s.value.id
            if x == y or y in params or y in ('self', 'cls'):
                continue
            before, after = body[:i], body[i + 1:]
            if y not in bound_names(before):
                continue
            if any(isinstance(n, ast.Name) and n.id == y for o in after for n in ast.walk(o)):
                continue
            if any(isinstance(n, ast.Name) and n.id == x for o in before for n in ast.walk(o)):
                continue
            # y must be a plain local: never a loop/with/except variable whose scope games could matter
            if _contains(before, (ast.Global, ast.Nonlocal)):
                continue
            new_before = [_Subst({y: x}).visit(copy.deepcopy(o)) for o in before]
            body = new_before + after
            changed = True
            break
    return body


def alpha_rename(fn, keep=('self', 'cls')):
    """parameters (except self/cls and keyword-only ones, whose names are part of the call interface) and local
    variables renamed v0, v1, ... in order of first binding"""
    fn = copy.deepcopy(fn)
    names = [a.arg for a in fn.args.args if a.arg not in keep]
    for n in bound_names(fn):
        if n not in names and n not in keep and n not in [a.arg for a in fn.args.kwonlyargs]:
            names.append(n)
    m = {n: 'v%d' % i for i, n in enumerate(names)}
    fn = _Subst(m).visit(fn)
    ast.fix_missing_locations(fn)
    return fn


# ------------------------------------------------------------------------------------------------
# the usual pipeline

def canonical_function(tree, cls, name, keep=lambda n: False, rename=False, temps=True):
    """strip_noise -> inline private helpers -> tests in NNF -> flat early-exit form [-> temporaries inlined]
    [-> alpha-renamed].  Returns a FunctionDef/AsyncFunctionDef."""
    t = strip_noise(tree)
    fn = Inliner(t, cls, keep).function(name)
    fn = nnf_tests(fn)
    fn.body = hoist_else(fn.body)
    if temps:
        for _ in range(3):
            before = ast.dump(ast.Module(body=fn.body, type_ignores=[]))
            fn.body = split_tuple_assign(fn.body)
            fn.body = coalesce_copies(fn.body, [a.arg for a in fn.args.args + fn.args.kwonlyargs])
            fn.body = inline_pure_multi(fn.body)
            fn.body = inline_temps(fn.body)
            if ast.dump(ast.Module(body=fn.body, type_ignores=[])) == before:
                break
        fn = nnf_tests(fn)
    fn.body = [s for s in fn.body if not isinstance(s, ast.Pass)] or [ast.Pass()]
    if rename:
        fn = alpha_rename(fn)
    ast.fix_missing_locations(fn)
    return fn


def canonical_source(tree, cls, name, **kw):
    return ast.unparse(canonical_function(tree, cls, name, **kw))


if __name__ == '__main__':
    import os
    import sys
    repo = os.environ.get('VERIF_REPO', '/repo')
    rel, cls, name = sys.argv[1:4]
    with open(os.path.join(repo, rel)) as f:
        tr = ast.parse(f.read())
    print(canonical_source(tr, None if cls == '-' else cls, name, rename='--rename' in sys.argv))
