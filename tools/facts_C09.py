"""facts_C09.py -- structural facts of the server life-cycle code copied into coq/Gen/FactsC09.v (property C09).

`ast` only; grpclib is never imported.  Fail-closed: the statement skeletons of the functions that
Model/ServerLife.v transcribes by hand must be exactly the ones the model was written against; any other
shape raises Unsupported, the generated file disappears and Model/ServerLife.v (which imports the GC
intervals from it) stops compiling, so the tie is reported broken.

What is extracted / checked
  * Handler.__gc_interval__ and Server.__gc_interval__ (used by the model), _GC.__gc_step__
  * Handler.accept / cancel / close / wait_closed / check_closed / __gc_collect__
  * Server.close / wait_closed / __gc_collect__ / _protocol_factory (first statement)
  * request_handler: outermost try ... finally: release_stream(); `await method_func(stream)` lexically
    inside `with deadline_wrapper, wrapper:`
  * protocol.Stream.__terminated__, EventsProcessor.process_stream_reset / close, register.release_stream
  * utils.Wrapper.__enter__ / __exit__ / cancel, _first_stage / _second_stage / _exit_handler
"""
import ast

from extract_facts import Unsupported, parse, func_node, class_node, ceval


def canon(node):
    return ' '.join(ast.unparse(node).split())


def body_of(fn):
    b = list(fn.body)
    if b and isinstance(b[0], ast.Expr) and isinstance(b[0].value, ast.Constant) and isinstance(b[0].value.value, str):
        b = b[1:]
    return [canon(s) for s in b]


EXPECTED = {
    ('grpclib/server.py', '_GC', '__gc_step__'): [
        'self._gc_counter += 1',
        'if not self._gc_counter % self.__gc_interval__: self.__gc_collect__()'],
    ('grpclib/server.py', 'Handler', '__gc_collect__'): [
        'self._tasks = {s: t for s, t in self._tasks.items() if not t.done()}',
        'self._cancelled = {t for t in self._cancelled if not t.done()}'],
    ('grpclib/server.py', 'Handler', 'accept'): [
        'self.__gc_step__()',
        'task = self._tasks[stream] = self.loop.create_task(request_handler(self.mapping, stream, headers, '
        'self.codec, self.status_details_codec, self.dispatch, release_stream))',
        'task.add_done_callback(lambda _: release_stream())'],
    ('grpclib/server.py', 'Handler', 'cancel'): [
        'task = self._tasks.pop(stream, None)',
        'if task is not None: task.cancel() self._cancelled.add(task)'],
    ('grpclib/server.py', 'Handler', 'close'): [
        'for task in self._tasks.values(): task.cancel()',
        'self._cancelled.update(self._tasks.values())',
        'self.closing = True'],
    ('grpclib/server.py', 'Handler', 'wait_closed'): [
        'if self._cancelled: await asyncio.wait(self._cancelled)'],
    ('grpclib/server.py', 'Handler', 'check_closed'): [
        'self.__gc_collect__()', 'return not self._tasks and (not self._cancelled)'],
    ('grpclib/server.py', 'Server', '__gc_collect__'): [
        'self._handlers = {h for h in self._handlers if not (h.closing and h.check_closed())}'],
    ('grpclib/server.py', 'Server', '_protocol_factory'): [
        'self.__gc_step__()',
        'handler = Handler(self._mapping, self._codec, self._status_details_codec, self.__dispatch__)',
        'self._handlers.add(handler)',
        'return H2Protocol(handler, self._config, self._h2_config)'],
    ('grpclib/server.py', 'Server', 'close'): [
        "if self._server is None or self._server_closed_fut is None: raise RuntimeError('Server is not started')",
        'self._server.close()',
        'if not self._server_closed_fut.done(): self._server_closed_fut.set_result(None)',
        'for handler in self._handlers: handler.close()'],
    ('grpclib/server.py', 'Server', 'wait_closed'): [
        "if self._server is None or self._server_closed_fut is None: raise RuntimeError('Server is not started')",
        'await self._server_closed_fut',
        'await self._server.wait_closed()',
        'if self._handlers: await asyncio.wait({self._loop.create_task(h.wait_closed()) for h in self._handlers})'],
    ('grpclib/protocol.py', 'Stream', '__terminated__'): [
        'if self.wrapper is not None: self.wrapper.cancel(StreamTerminatedError(reason))'],
    ('grpclib/protocol.py', 'EventsProcessor', 'close'): [
        'self.connection.close()',
        'self.handler.close()',
        'for stream in self.streams.values(): stream.__terminated__(reason)',
        "if hasattr(self, 'processors'): del self.processors"],
    ('grpclib/utils.py', 'Wrapper', '__enter__'): [
        'if self._error is not None: raise self._error',
        'task = _current_task()',
        "if task is None: raise RuntimeError('Called not inside a task')",
        'self._tasks.add(task)'],
    ('grpclib/utils.py', 'Wrapper', '__exit__'): [
        'task = _current_task()', 'assert task', 'self._tasks.discard(task)',
        'if self._error is not None: self.cancel_failed = exc_type is not asyncio.CancelledError raise self._error'],
    ('grpclib/utils.py', 'Wrapper', 'cancel'): [
        'self._error = error', 'for task in self._tasks: task.cancel()', 'self.cancelled = True'],
    ('grpclib/utils.py', None, '_first_stage'): [
        'fail = False',
        'for server in servers: try: server.close() except RuntimeError: fail = True',
        'if fail: _second_stage(sig_num)'],
    ('grpclib/utils.py', None, '_second_stage'): ['raise SystemExit(128 + sig_num)'],
    ('grpclib/utils.py', None, '_exit_handler'): [
        "if flag: _second_stage(cast('signal.Signals', sig_num)) else: "
        "_first_stage(cast('signal.Signals', sig_num), servers) flag.append(True)"],
}


def need(cond, what):
    if not cond:
        raise Unsupported('C09 facts: ' + what)


def gc_interval(tree, cls):
    for s in class_node(tree, cls).body:
        if isinstance(s, ast.Assign) and len(s.targets) == 1 and isinstance(s.targets[0], ast.Name) \
                and s.targets[0].id == '__gc_interval__':
            v = ceval(s.value, {})
            need(isinstance(v, int) and 1 <= v <= 1000, '%s.__gc_interval__ = %r' % (cls, v))
            return v
    raise Unsupported('C09 facts: %s.__gc_interval__ not found' % cls)


def check_request_handler(tree):
    fn = func_node(tree, 'request_handler')
    body = [s for s in fn.body if not (isinstance(s, ast.Expr) and isinstance(s.value, ast.Constant))]
    need(len(body) == 1 and isinstance(body[0], ast.Try), 'request_handler is one try statement')
    t = body[0]
    need([canon(s) for s in t.finalbody] == ['release_stream()'], 'request_handler finally: release_stream()')
    need([canon(h.type) for h in t.handlers] == ['ProtocolError', 'Exception'],
         'request_handler outer handlers (no BaseException handler: CancelledError propagates)')
    found = []
    for w in ast.walk(t):
        if isinstance(w, ast.With) and [canon(i.context_expr) for i in w.items] == ['deadline_wrapper', 'wrapper']:
            found.append([canon(s) for s in w.body][-1])
    need(found == ['await method_func(stream)'], 'user function awaited inside `with deadline_wrapper, wrapper`: %r' % found)
    wr = [canon(s) for s in ast.walk(t) if isinstance(s, ast.Assign) and 'Wrapper()' in canon(s)]
    need(sorted(wr) == ['wrapper = _stream.wrapper = DeadlineWrapper()', 'wrapper = _stream.wrapper = Wrapper()'],
         'the wrapper is created in the task and stored on the protocol stream: %r' % wr)


def check_reset_and_release(tree):
    fn = func_node(tree, 'process_stream_reset', 'EventsProcessor')
    b = body_of(fn)
    need(len(b) == 3 and b[0] == 'stream = self.streams.get(event.stream_id)'
         and b[2] == 'self.connection.streams_failed += 1', 'process_stream_reset skeleton: %r' % b)
    iff = [s for s in fn.body if isinstance(s, ast.If)]
    need(len(iff) == 1 and canon(iff[0].test) == 'stream is not None' and not iff[0].orelse, 'process_stream_reset if')
    tail = [canon(s) for s in iff[0].body][-2:]
    need(tail == ['stream.__terminated__(msg)', 'self.handler.cancel(stream)'],
         'process_stream_reset: __terminated__ THEN handler.cancel: %r' % tail)
    reg = func_node(tree, 'register', 'EventsProcessor')
    inner = [s for s in reg.body if isinstance(s, ast.FunctionDef) and s.name == 'release_stream']
    need(len(inner) == 1, 'register defines release_stream')
    rb = body_of(inner[0])
    need(rb[:3] == ['assert stream.id is not None', '_stream = _streams.pop(stream.id, None)',
                    'if _stream is None: return'], 'release_stream is idempotent: %r' % rb[:3])


def generate(repo):
    trees = {}
    checked = []
    for (rel, cls, name), exp in sorted(EXPECTED.items(), key=lambda kv: (kv[0][0], kv[0][1] or '', kv[0][2])):
        tree = trees.setdefault(rel, parse(repo, rel))
        got = body_of(func_node(tree, name, cls))
        need(got == exp, '%s %s.%s changed:\n  expected %r\n  found    %r' % (rel, cls, name, exp, got))
        checked.append('%s:%s%s' % (rel, (cls + '.') if cls else '', name))
    srv = trees['grpclib/server.py']
    check_request_handler(srv)
    check_reset_and_release(trees['grpclib/protocol.py'])
    checked += ['grpclib/server.py:request_handler', 'grpclib/protocol.py:EventsProcessor.process_stream_reset',
                'grpclib/protocol.py:EventsProcessor.register.release_stream']
    hi, si = gc_interval(srv, 'Handler'), gc_interval(srv, 'Server')
    out = ['(* GENERATED by tools/facts_C09.py from the current source -- do not edit. *)',
           '(* statement skeletons checked (fail-closed): *)']
    out += ['(*   %s *)' % c for c in checked]
    out += ['Definition handler_gc_interval : nat := %d.   (* Handler.__gc_interval__ *)' % hi,
            'Definition server_gc_interval : nat := %d.    (* Server.__gc_interval__ *)' % si, '']
    return '\n'.join(out)


if __name__ == '__main__':
    import os
    print(generate(os.environ.get('VERIF_REPO', '/repo')))
